
(** val negb : bool -> bool **)

let negb = function
| true -> false
| false -> true

type nat =
| O
| S of nat

(** val fst : ('a1 * 'a2) -> 'a1 **)

let fst = function
| (x, _) -> x

(** val snd : ('a1 * 'a2) -> 'a2 **)

let snd = function
| (_, y) -> y

(** val length : 'a1 list -> nat **)

let rec length = function
| [] -> O
| _ :: l' -> S (length l')

(** val app : 'a1 list -> 'a1 list -> 'a1 list **)

let rec app l m =
  match l with
  | [] -> m
  | a :: l1 -> a :: (app l1 m)

type comparison =
| Eq
| Lt
| Gt

(** val compOpp : comparison -> comparison **)

let compOpp = function
| Eq -> Eq
| Lt -> Gt
| Gt -> Lt

module Coq__1 = struct
 (** val add : nat -> nat -> nat **)
 let rec add n m =
   match n with
   | O -> m
   | S p -> S (add p m)
end
include Coq__1

(** val mul : nat -> nat -> nat **)

let rec mul n m =
  match n with
  | O -> O
  | S p -> add m (mul p m)

(** val sub : nat -> nat -> nat **)

let rec sub n m =
  match n with
  | O -> n
  | S k -> (match m with
            | O -> n
            | S l -> sub k l)

module Nat =
 struct
  (** val sub : nat -> nat -> nat **)

  let rec sub n m =
    match n with
    | O -> n
    | S k -> (match m with
              | O -> n
              | S l -> sub k l)

  (** val eqb : nat -> nat -> bool **)

  let rec eqb n m =
    match n with
    | O -> (match m with
            | O -> true
            | S _ -> false)
    | S n' -> (match m with
               | O -> false
               | S m' -> eqb n' m')

  (** val leb : nat -> nat -> bool **)

  let rec leb n m =
    match n with
    | O -> true
    | S n' -> (match m with
               | O -> false
               | S m' -> leb n' m')

  (** val ltb : nat -> nat -> bool **)

  let ltb n m =
    leb (S n) m

  (** val divmod : nat -> nat -> nat -> nat -> nat * nat **)

  let rec divmod x y q0 u =
    match x with
    | O -> (q0, u)
    | S x' ->
      (match u with
       | O -> divmod x' y (S q0) y
       | S u' -> divmod x' y q0 u')

  (** val modulo : nat -> nat -> nat **)

  let modulo x = function
  | O -> x
  | S y' -> sub y' (snd (divmod x y' O y'))

  (** val div2 : nat -> nat **)

  let rec div2 = function
  | O -> O
  | S n3 -> (match n3 with
             | O -> O
             | S n' -> S (div2 n'))
 end

(** val hd_error : 'a1 list -> 'a1 option **)

let hd_error = function
| [] -> None
| x :: _ -> Some x

(** val tl : 'a1 list -> 'a1 list **)

let tl = function
| [] -> []
| _ :: m -> m

(** val nth : nat -> 'a1 list -> 'a1 -> 'a1 **)

let rec nth n l default =
  match n with
  | O -> (match l with
          | [] -> default
          | x :: _ -> x)
  | S m -> (match l with
            | [] -> default
            | _ :: t -> nth m t default)

(** val nth_error : 'a1 list -> nat -> 'a1 option **)

let rec nth_error l = function
| O -> (match l with
        | [] -> None
        | x :: _ -> Some x)
| S n3 -> (match l with
           | [] -> None
           | _ :: l0 -> nth_error l0 n3)

(** val last : 'a1 list -> 'a1 -> 'a1 **)

let rec last l d =
  match l with
  | [] -> d
  | a :: l0 -> (match l0 with
                | [] -> a
                | _ :: _ -> last l0 d)

(** val removelast : 'a1 list -> 'a1 list **)

let rec removelast = function
| [] -> []
| a :: l0 -> (match l0 with
              | [] -> []
              | _ :: _ -> a :: (removelast l0))

(** val rev : 'a1 list -> 'a1 list **)

let rec rev = function
| [] -> []
| x :: l' -> app (rev l') (x :: [])

(** val map : ('a1 -> 'a2) -> 'a1 list -> 'a2 list **)

let rec map f = function
| [] -> []
| a :: t -> (f a) :: (map f t)

(** val flat_map : ('a1 -> 'a2 list) -> 'a1 list -> 'a2 list **)

let rec flat_map f = function
| [] -> []
| x :: t -> app (f x) (flat_map f t)

(** val fold_left : ('a1 -> 'a2 -> 'a1) -> 'a2 list -> 'a1 -> 'a1 **)

let rec fold_left f l a0 =
  match l with
  | [] -> a0
  | b :: t -> fold_left f t (f a0 b)

(** val fold_right : ('a2 -> 'a1 -> 'a1) -> 'a1 -> 'a2 list -> 'a1 **)

let rec fold_right f a0 = function
| [] -> a0
| b :: t -> f b (fold_right f a0 t)

(** val existsb : ('a1 -> bool) -> 'a1 list -> bool **)

let rec existsb f = function
| [] -> false
| a :: l0 -> (||) (f a) (existsb f l0)

(** val forallb : ('a1 -> bool) -> 'a1 list -> bool **)

let rec forallb f = function
| [] -> true
| a :: l0 -> (&&) (f a) (forallb f l0)

(** val filter : ('a1 -> bool) -> 'a1 list -> 'a1 list **)

let rec filter f = function
| [] -> []
| x :: l0 -> if f x then x :: (filter f l0) else filter f l0

(** val find : ('a1 -> bool) -> 'a1 list -> 'a1 option **)

let rec find f = function
| [] -> None
| x :: tl0 -> if f x then Some x else find f tl0

(** val combine : 'a1 list -> 'a2 list -> ('a1 * 'a2) list **)

let rec combine l l' =
  match l with
  | [] -> []
  | x :: tl0 ->
    (match l' with
     | [] -> []
     | y :: tl' -> (x, y) :: (combine tl0 tl'))

(** val firstn : nat -> 'a1 list -> 'a1 list **)

let rec firstn n l =
  match n with
  | O -> []
  | S n3 -> (match l with
             | [] -> []
             | a :: l0 -> a :: (firstn n3 l0))

(** val skipn : nat -> 'a1 list -> 'a1 list **)

let rec skipn n l =
  match n with
  | O -> l
  | S n3 -> (match l with
             | [] -> []
             | _ :: l0 -> skipn n3 l0)

(** val seq : nat -> nat -> nat list **)

let rec seq start = function
| O -> []
| S len0 -> start :: (seq (S start) len0)

(** val repeat : 'a1 -> nat -> 'a1 list **)

let rec repeat x = function
| O -> []
| S k -> x :: (repeat x k)

type positive =
| XI of positive
| XO of positive
| XH

type z =
| Z0
| Zpos of positive
| Zneg of positive

module Pos =
 struct
  type mask =
  | IsNul
  | IsPos of positive
  | IsNeg
 end

module Coq_Pos =
 struct
  (** val succ : positive -> positive **)

  let rec succ = function
  | XI p -> XO (succ p)
  | XO p -> XI p
  | XH -> XO XH

  (** val add : positive -> positive -> positive **)

  let rec add x y =
    match x with
    | XI p ->
      (match y with
       | XI q0 -> XO (add_carry p q0)
       | XO q0 -> XI (add p q0)
       | XH -> XO (succ p))
    | XO p ->
      (match y with
       | XI q0 -> XI (add p q0)
       | XO q0 -> XO (add p q0)
       | XH -> XI p)
    | XH -> (match y with
             | XI q0 -> XO (succ q0)
             | XO q0 -> XI q0
             | XH -> XO XH)

  (** val add_carry : positive -> positive -> positive **)

  and add_carry x y =
    match x with
    | XI p ->
      (match y with
       | XI q0 -> XI (add_carry p q0)
       | XO q0 -> XO (add_carry p q0)
       | XH -> XI (succ p))
    | XO p ->
      (match y with
       | XI q0 -> XO (add_carry p q0)
       | XO q0 -> XI (add p q0)
       | XH -> XO (succ p))
    | XH ->
      (match y with
       | XI q0 -> XI (succ q0)
       | XO q0 -> XO (succ q0)
       | XH -> XI XH)

  (** val pred_double : positive -> positive **)

  let rec pred_double = function
  | XI p -> XI (XO p)
  | XO p -> XI (pred_double p)
  | XH -> XH

  type mask = Pos.mask =
  | IsNul
  | IsPos of positive
  | IsNeg

  (** val succ_double_mask : mask -> mask **)

  let succ_double_mask = function
  | IsNul -> IsPos XH
  | IsPos p -> IsPos (XI p)
  | IsNeg -> IsNeg

  (** val double_mask : mask -> mask **)

  let double_mask = function
  | IsPos p -> IsPos (XO p)
  | x0 -> x0

  (** val double_pred_mask : positive -> mask **)

  let double_pred_mask = function
  | XI p -> IsPos (XO (XO p))
  | XO p -> IsPos (XO (pred_double p))
  | XH -> IsNul

  (** val sub_mask : positive -> positive -> mask **)

  let rec sub_mask x y =
    match x with
    | XI p ->
      (match y with
       | XI q0 -> double_mask (sub_mask p q0)
       | XO q0 -> succ_double_mask (sub_mask p q0)
       | XH -> IsPos (XO p))
    | XO p ->
      (match y with
       | XI q0 -> succ_double_mask (sub_mask_carry p q0)
       | XO q0 -> double_mask (sub_mask p q0)
       | XH -> IsPos (pred_double p))
    | XH -> (match y with
             | XH -> IsNul
             | _ -> IsNeg)

  (** val sub_mask_carry : positive -> positive -> mask **)

  and sub_mask_carry x y =
    match x with
    | XI p ->
      (match y with
       | XI q0 -> succ_double_mask (sub_mask_carry p q0)
       | XO q0 -> double_mask (sub_mask p q0)
       | XH -> IsPos (pred_double p))
    | XO p ->
      (match y with
       | XI q0 -> double_mask (sub_mask_carry p q0)
       | XO q0 -> succ_double_mask (sub_mask_carry p q0)
       | XH -> double_pred_mask p)
    | XH -> IsNeg

  (** val sub : positive -> positive -> positive **)

  let sub x y =
    match sub_mask x y with
    | IsPos z0 -> z0
    | _ -> XH

  (** val mul : positive -> positive -> positive **)

  let rec mul x y =
    match x with
    | XI p -> add y (XO (mul p y))
    | XO p -> XO (mul p y)
    | XH -> y

  (** val size_nat : positive -> nat **)

  let rec size_nat = function
  | XI p0 -> S (size_nat p0)
  | XO p0 -> S (size_nat p0)
  | XH -> S O

  (** val compare_cont : comparison -> positive -> positive -> comparison **)

  let rec compare_cont r x y =
    match x with
    | XI p ->
      (match y with
       | XI q0 -> compare_cont r p q0
       | XO q0 -> compare_cont Gt p q0
       | XH -> Gt)
    | XO p ->
      (match y with
       | XI q0 -> compare_cont Lt p q0
       | XO q0 -> compare_cont r p q0
       | XH -> Gt)
    | XH -> (match y with
             | XH -> r
             | _ -> Lt)

  (** val compare : positive -> positive -> comparison **)

  let compare =
    compare_cont Eq

  (** val ggcdn :
      nat -> positive -> positive -> positive * (positive * positive) **)

  let rec ggcdn n a b =
    match n with
    | O -> (XH, (a, b))
    | S n3 ->
      (match a with
       | XI a' ->
         (match b with
          | XI b' ->
            (match compare a' b' with
             | Eq -> (a, (XH, XH))
             | Lt ->
               let (g, p) = ggcdn n3 (sub b' a') a in
               let (ba, aa) = p in (g, (aa, (add aa (XO ba))))
             | Gt ->
               let (g, p) = ggcdn n3 (sub a' b') b in
               let (ab, bb) = p in (g, ((add bb (XO ab)), bb)))
          | XO b0 ->
            let (g, p) = ggcdn n3 a b0 in
            let (aa, bb) = p in (g, (aa, (XO bb)))
          | XH -> (XH, (a, XH)))
       | XO a0 ->
         (match b with
          | XI _ ->
            let (g, p) = ggcdn n3 a0 b in
            let (aa, bb) = p in (g, ((XO aa), bb))
          | XO b0 -> let (g, p) = ggcdn n3 a0 b0 in ((XO g), p)
          | XH -> (XH, (a, XH)))
       | XH -> (XH, (XH, b)))

  (** val ggcd : positive -> positive -> positive * (positive * positive) **)

  let ggcd a b =
    ggcdn (Coq__1.add (size_nat a) (size_nat b)) a b

  (** val of_succ_nat : nat -> positive **)

  let rec of_succ_nat = function
  | O -> XH
  | S x -> succ (of_succ_nat x)
 end

module Z =
 struct
  (** val double : z -> z **)

  let double = function
  | Z0 -> Z0
  | Zpos p -> Zpos (XO p)
  | Zneg p -> Zneg (XO p)

  (** val succ_double : z -> z **)

  let succ_double = function
  | Z0 -> Zpos XH
  | Zpos p -> Zpos (XI p)
  | Zneg p -> Zneg (Coq_Pos.pred_double p)

  (** val pred_double : z -> z **)

  let pred_double = function
  | Z0 -> Zneg XH
  | Zpos p -> Zpos (Coq_Pos.pred_double p)
  | Zneg p -> Zneg (XI p)

  (** val pos_sub : positive -> positive -> z **)

  let rec pos_sub x y =
    match x with
    | XI p ->
      (match y with
       | XI q0 -> double (pos_sub p q0)
       | XO q0 -> succ_double (pos_sub p q0)
       | XH -> Zpos (XO p))
    | XO p ->
      (match y with
       | XI q0 -> pred_double (pos_sub p q0)
       | XO q0 -> double (pos_sub p q0)
       | XH -> Zpos (Coq_Pos.pred_double p))
    | XH ->
      (match y with
       | XI q0 -> Zneg (XO q0)
       | XO q0 -> Zneg (Coq_Pos.pred_double q0)
       | XH -> Z0)

  (** val add : z -> z -> z **)

  let add x y =
    match x with
    | Z0 -> y
    | Zpos x' ->
      (match y with
       | Z0 -> x
       | Zpos y' -> Zpos (Coq_Pos.add x' y')
       | Zneg y' -> pos_sub x' y')
    | Zneg x' ->
      (match y with
       | Z0 -> x
       | Zpos y' -> pos_sub y' x'
       | Zneg y' -> Zneg (Coq_Pos.add x' y'))

  (** val opp : z -> z **)

  let opp = function
  | Z0 -> Z0
  | Zpos x0 -> Zneg x0
  | Zneg x0 -> Zpos x0

  (** val mul : z -> z -> z **)

  let mul x y =
    match x with
    | Z0 -> Z0
    | Zpos x' ->
      (match y with
       | Z0 -> Z0
       | Zpos y' -> Zpos (Coq_Pos.mul x' y')
       | Zneg y' -> Zneg (Coq_Pos.mul x' y'))
    | Zneg x' ->
      (match y with
       | Z0 -> Z0
       | Zpos y' -> Zneg (Coq_Pos.mul x' y')
       | Zneg y' -> Zpos (Coq_Pos.mul x' y'))

  (** val compare : z -> z -> comparison **)

  let compare x y =
    match x with
    | Z0 -> (match y with
             | Z0 -> Eq
             | Zpos _ -> Lt
             | Zneg _ -> Gt)
    | Zpos x' -> (match y with
                  | Zpos y' -> Coq_Pos.compare x' y'
                  | _ -> Gt)
    | Zneg x' ->
      (match y with
       | Zneg y' -> compOpp (Coq_Pos.compare x' y')
       | _ -> Lt)

  (** val sgn : z -> z **)

  let sgn = function
  | Z0 -> Z0
  | Zpos _ -> Zpos XH
  | Zneg _ -> Zneg XH

  (** val abs : z -> z **)

  let abs = function
  | Zneg p -> Zpos p
  | x -> x

  (** val of_nat : nat -> z **)

  let of_nat = function
  | O -> Z0
  | S n3 -> Zpos (Coq_Pos.of_succ_nat n3)

  (** val to_pos : z -> positive **)

  let to_pos = function
  | Zpos p -> p
  | _ -> XH

  (** val ggcd : z -> z -> z * (z * z) **)

  let ggcd a b =
    match a with
    | Z0 -> ((abs b), (Z0, (sgn b)))
    | Zpos a0 ->
      (match b with
       | Z0 -> ((abs a), ((sgn a), Z0))
       | Zpos b0 ->
         let (g, p) = Coq_Pos.ggcd a0 b0 in
         let (aa, bb) = p in ((Zpos g), ((Zpos aa), (Zpos bb)))
       | Zneg b0 ->
         let (g, p) = Coq_Pos.ggcd a0 b0 in
         let (aa, bb) = p in ((Zpos g), ((Zpos aa), (Zneg bb))))
    | Zneg a0 ->
      (match b with
       | Z0 -> ((abs a), ((sgn a), Z0))
       | Zpos b0 ->
         let (g, p) = Coq_Pos.ggcd a0 b0 in
         let (aa, bb) = p in ((Zpos g), ((Zneg aa), (Zpos bb)))
       | Zneg b0 ->
         let (g, p) = Coq_Pos.ggcd a0 b0 in
         let (aa, bb) = p in ((Zpos g), ((Zneg aa), (Zneg bb))))
 end

type q = { qnum : z; qden : positive }

(** val inject_Z : z -> q **)

let inject_Z x =
  { qnum = x; qden = XH }

(** val qcompare : q -> q -> comparison **)

let qcompare p q0 =
  Z.compare (Z.mul p.qnum (Zpos q0.qden)) (Z.mul q0.qnum (Zpos p.qden))

(** val qplus : q -> q -> q **)

let qplus x y =
  { qnum = (Z.add (Z.mul x.qnum (Zpos y.qden)) (Z.mul y.qnum (Zpos x.qden)));
    qden = (Coq_Pos.mul x.qden y.qden) }

(** val qmult : q -> q -> q **)

let qmult x y =
  { qnum = (Z.mul x.qnum y.qnum); qden = (Coq_Pos.mul x.qden y.qden) }

(** val qopp : q -> q **)

let qopp x =
  { qnum = (Z.opp x.qnum); qden = x.qden }

(** val qminus : q -> q -> q **)

let qminus x y =
  qplus x (qopp y)

(** val qinv : q -> q **)

let qinv x =
  match x.qnum with
  | Z0 -> { qnum = Z0; qden = XH }
  | Zpos p -> { qnum = (Zpos x.qden); qden = p }
  | Zneg p -> { qnum = (Zneg x.qden); qden = p }

(** val qdiv : q -> q -> q **)

let qdiv x y =
  qmult x (qinv y)

(** val qred : q -> q **)

let qred q0 =
  let { qnum = q1; qden = q2 } = q0 in
  let (r1, r2) = snd (Z.ggcd q1 (Zpos q2)) in
  { qnum = r1; qden = (Z.to_pos r2) }

type 'f numOps = { n0 : 'f; n1 : 'f; nadd : ('f -> 'f -> 'f);
                   nsub : ('f -> 'f -> 'f); nmul : ('f -> 'f -> 'f);
                   ndiv : ('f -> 'f -> 'f); nltb : ('f -> 'f -> bool);
                   neqb : ('f -> 'f -> bool); nofZ : (z -> 'f) }

(** val nleb : 'a1 numOps -> 'a1 -> 'a1 -> bool **)

let nleb o0 a b =
  negb (o0.nltb b a)

(** val ngtb : 'a1 numOps -> 'a1 -> 'a1 -> bool **)

let ngtb o0 a b =
  o0.nltb b a

(** val nmax : 'a1 numOps -> 'a1 -> 'a1 -> 'a1 **)

let nmax o0 a b =
  if o0.nltb a b then b else a

(** val nmin : 'a1 numOps -> 'a1 -> 'a1 -> 'a1 **)

let nmin o0 a b =
  if o0.nltb b a then b else a

(** val nabs : 'a1 numOps -> 'a1 -> 'a1 **)

let nabs o0 a =
  if o0.nltb a o0.n0 then o0.nsub o0.n0 a else a

(** val n2 : 'a1 numOps -> 'a1 **)

let n2 o0 =
  o0.nadd o0.n1 o0.n1

(** val n4 : 'a1 numOps -> 'a1 **)

let n4 o0 =
  o0.nadd (n2 o0) (n2 o0)

(** val nofnat : 'a1 numOps -> nat -> 'a1 **)

let nofnat o0 n =
  o0.nofZ (Z.of_nat n)

(** val nsum : 'a1 numOps -> 'a1 list -> 'a1 **)

let nsum o0 l =
  fold_left o0.nadd l o0.n0

(** val qltb : q -> q -> bool **)

let qltb x y =
  match qcompare x y with
  | Lt -> true
  | _ -> false

(** val qeqb : q -> q -> bool **)

let qeqb x y =
  match qcompare x y with
  | Eq -> true
  | _ -> false

(** val qOps : q numOps **)

let qOps =
  { n0 = { qnum = Z0; qden = XH }; n1 = { qnum = (Zpos XH); qden = XH };
    nadd = (fun a b -> qred (qplus a b)); nsub = (fun a b ->
    qred (qminus a b)); nmul = (fun a b -> qred (qmult a b)); ndiv =
    (fun a b -> qred (qdiv a b)); nltb = qltb; neqb = qeqb; nofZ = inject_Z }

(** val isi_ratio : 'a1 numOps -> 'a1 -> 'a1 -> 'a1 -> 'a1 **)

let isi_ratio o0 m nu1 nu2 =
  o0.ndiv (nabs o0 (o0.nsub nu1 nu2)) (nmax o0 (nmax o0 nu1 nu2) m)

(** val isi_ratio_cy : 'a1 numOps -> 'a1 -> 'a1 -> 'a1 -> 'a1 **)

let isi_ratio_cy o0 m nu1 nu2 =
  o0.ndiv (nabs o0 (o0.nsub nu1 nu2)) (nmax o0 m (nmax o0 nu1 nu2))

(** val nu_after : 'a1 numOps -> 'a1 -> 'a1 list -> 'a1 list -> 'a1 **)

let nu_after o0 te past fut =
  match past with
  | [] -> o0.n0
  | x :: l ->
    (match l with
     | [] -> (match fut with
              | [] -> o0.nsub te x
              | y :: _ -> o0.nsub y x)
     | p :: _ ->
       (match fut with
        | [] -> nmax o0 (o0.nsub te x) (o0.nsub x p)
        | y :: _ -> o0.nsub y x))

(** val isi_init :
    'a1 numOps -> 'a1 -> 'a1 -> 'a1 list -> ('a1 list * 'a1 list) * 'a1 **)

let isi_init o0 ts te s = match s with
| [] -> (([], []), o0.n0)
| x0 :: r ->
  if o0.nltb ts x0
  then (([], s),
         (match r with
          | [] -> o0.nsub x0 ts
          | x1 :: _ -> nmax o0 (o0.nsub x0 ts) (o0.nsub x1 x0)))
  else (((x0 :: []), r),
         (match r with
          | [] -> o0.nsub te x0
          | x1 :: _ -> o0.nsub x1 x0))

(** val isi_loop :
    'a1 numOps -> nat -> 'a1 -> 'a1 list -> 'a1 list -> 'a1 -> 'a1 list ->
    'a1 list -> 'a1 -> (('a1 * 'a1) * 'a1) list **)

let rec isi_loop o0 fuel te p1 f1 nu1 p2 f2 nu2 =
  match fuel with
  | O -> []
  | S k ->
    let adv1 = fun a f1' ->
      let p1' = a :: p1 in
      let nu1' = nu_after o0 te p1' f1' in
      ((a, nu1'), nu2) :: (isi_loop o0 k te p1' f1' nu1' p2 f2 nu2)
    in
    let adv2 = fun b f2' ->
      let p2' = b :: p2 in
      let nu2' = nu_after o0 te p2' f2' in
      ((b, nu1), nu2') :: (isi_loop o0 k te p1 f1 nu1 p2' f2' nu2')
    in
    (match f1 with
     | [] -> (match f2 with
              | [] -> []
              | b :: f2' -> adv2 b f2')
     | a :: f1' ->
       (match f2 with
        | [] -> adv1 a f1'
        | b :: f2' ->
          if o0.nltb a b
          then adv1 a f1'
          else if o0.nltb b a
               then adv2 b f2'
               else let p1' = a :: p1 in
                    let p2' = b :: p2 in
                    let nu1' = nu_after o0 te p1' f1' in
                    let nu2' = nu_after o0 te p2' f2' in
                    ((a, nu1'),
                    nu2') :: (isi_loop o0 k te p1' f1' nu1' p2' f2' nu2')))

(** val nu_after_cy :
    'a1 numOps -> 'a1 -> 'a1 -> 'a1 list -> 'a1 list -> 'a1 **)

let nu_after_cy o0 te nu past fut =
  match past with
  | [] -> o0.n0
  | x :: l ->
    (match l with
     | [] -> (match fut with
              | [] -> o0.nsub te x
              | y :: _ -> o0.nsub y x)
     | _ :: _ ->
       (match fut with
        | [] -> nmax o0 (o0.nsub te x) nu
        | y :: _ -> o0.nsub y x))

(** val isi_loop_cy :
    'a1 numOps -> nat -> 'a1 -> 'a1 list -> 'a1 list -> 'a1 -> 'a1 list ->
    'a1 list -> 'a1 -> (('a1 * 'a1) * 'a1) list **)

let rec isi_loop_cy o0 fuel te p1 f1 nu1 p2 f2 nu2 =
  match fuel with
  | O -> []
  | S k ->
    let adv1 = fun a f1' ->
      let p1' = a :: p1 in
      let nu1' = nu_after_cy o0 te nu1 p1' f1' in
      ((a, nu1'), nu2) :: (isi_loop_cy o0 k te p1' f1' nu1' p2 f2 nu2)
    in
    let adv2 = fun b f2' ->
      let p2' = b :: p2 in
      let nu2' = nu_after_cy o0 te nu2 p2' f2' in
      ((b, nu1), nu2') :: (isi_loop_cy o0 k te p1 f1 nu1 p2' f2' nu2')
    in
    (match f1 with
     | [] -> (match f2 with
              | [] -> []
              | b :: f2' -> adv2 b f2')
     | a :: f1' ->
       (match f2 with
        | [] -> adv1 a f1'
        | b :: f2' ->
          if o0.nltb a b
          then adv1 a f1'
          else if o0.nltb b a
               then adv2 b f2'
               else let p1' = a :: p1 in
                    let p2' = b :: p2 in
                    let nu1' = nu_after_cy o0 te nu1 p1' f1' in
                    let nu2' = nu_after_cy o0 te nu2 p2' f2' in
                    ((a, nu1'),
                    nu2') :: (isi_loop_cy o0 k te p1' f1' nu1' p2' f2' nu2')))

(** val ev_t : (('a1 * 'a1) * 'a1) -> 'a1 **)

let ev_t e =
  fst (fst e)

(** val isi_scan :
    'a1 numOps -> 'a1 -> 'a1 -> 'a1 list -> 'a1 list ->
    ('a1 * 'a1) * (('a1 * 'a1) * 'a1) list **)

let isi_scan o0 ts te s1 s2 =
  let (p, nu1) = isi_init o0 ts te s1 in
  let (p1, f1) = p in
  let (p0, nu2) = isi_init o0 ts te s2 in
  let (p2, f2) = p0 in
  ((nu1, nu2),
  (isi_loop o0 (add (length s1) (length s2)) te p1 f1 nu1 p2 f2 nu2))

(** val isi_scan_cy :
    'a1 numOps -> 'a1 -> 'a1 -> 'a1 list -> 'a1 list ->
    ('a1 * 'a1) * (('a1 * 'a1) * 'a1) list **)

let isi_scan_cy o0 ts te s1 s2 =
  let (p, nu1) = isi_init o0 ts te s1 in
  let (p1, f1) = p in
  let (p0, nu2) = isi_init o0 ts te s2 in
  let (p2, f2) = p0 in
  ((nu1, nu2),
  (isi_loop_cy o0 (add (length s1) (length s2)) te p1 f1 nu1 p2 f2 nu2))

(** val close_profile :
    'a1 numOps -> 'a1 -> 'a1 list -> 'a2 list -> 'a1 list * 'a2 list **)

let close_profile o0 te xs ys =
  if o0.neqb (last xs te) te
  then (xs, (removelast ys))
  else ((app xs (te :: [])), ys)

(** val isi_profile_gen :
    'a1 numOps -> ('a1 -> 'a1 -> 'a1 -> 'a1) -> ('a1 -> 'a1 -> 'a1 list ->
    'a1 list -> ('a1 * 'a1) * (('a1 * 'a1) * 'a1) list) -> 'a1 list -> 'a1
    list -> 'a1 -> 'a1 -> 'a1 -> 'a1 list * 'a1 list **)

let isi_profile_gen o0 ratio scan s1 s2 ts te m =
  let (p, evs) = scan ts te s1 s2 in
  let (nu1, nu2) = p in
  let xs = ts :: (map ev_t evs) in
  let ys =
    (ratio m nu1 nu2) :: (map (fun e -> ratio m (snd (fst e)) (snd e)) evs)
  in
  close_profile o0 te xs ys

(** val isi_profile_py :
    'a1 numOps -> 'a1 list -> 'a1 list -> 'a1 -> 'a1 -> 'a1 -> 'a1 list * 'a1
    list **)

let isi_profile_py o0 =
  isi_profile_gen o0 (isi_ratio o0) (isi_scan o0)

(** val isi_profile_cy :
    'a1 numOps -> 'a1 list -> 'a1 list -> 'a1 -> 'a1 -> 'a1 -> 'a1 list * 'a1
    list **)

let isi_profile_cy o0 =
  isi_profile_gen o0 (isi_ratio_cy o0) (isi_scan_cy o0)

(** val isi_acc :
    'a1 numOps -> 'a1 -> (('a1 * 'a1) * 'a1) list -> 'a1 -> 'a1 -> 'a1 ->
    ('a1 * 'a1) * 'a1 **)

let rec isi_acc o0 m evs last_t cur acc =
  match evs with
  | [] -> ((last_t, cur), acc)
  | p :: r ->
    let (p0, nu2) = p in
    let (t, nu1) = p0 in
    isi_acc o0 m r t (isi_ratio_cy o0 m nu1 nu2)
      (o0.nadd acc (o0.nmul cur (o0.nsub t last_t)))

(** val isi_distance_cy :
    'a1 numOps -> 'a1 list -> 'a1 list -> 'a1 -> 'a1 -> 'a1 -> 'a1 **)

let isi_distance_cy o0 s1 s2 ts te m =
  let (p, evs) = isi_scan_cy o0 ts te s1 s2 in
  let (nu1, nu2) = p in
  let (p0, acc) = isi_acc o0 m evs ts (isi_ratio_cy o0 m nu1 nu2) o0.n0 in
  let (last_t, cur) = p0 in
  o0.ndiv
    (if o0.nltb last_t te
     then o0.nadd acc (o0.nmul cur (o0.nsub te last_t))
     else acc) (o0.nsub te ts)

(** val gmd_loop : 'a1 numOps -> 'a1 -> 'a1 list -> 'a1 -> bool * 'a1 **)

let rec gmd_loop o0 x l d =
  match l with
  | [] -> (false, d)
  | y :: l' ->
    let dt = nabs o0 (o0.nsub x y) in
    if o0.nltb d dt then (true, d) else gmd_loop o0 x l' dt

(** val get_min_dist : 'a1 numOps -> 'a1 -> 'a1 list -> 'a1 -> 'a1 -> 'a1 **)

let get_min_dist o0 x l a0 a1 =
  let d = nabs o0 (o0.nsub x a0) in
  let (early, d') = gmd_loop o0 x l d in
  if early
  then d'
  else let dt = nabs o0 (o0.nsub a1 x) in if o0.nltb d' dt then d' else dt

(** val from_cursor : 'a1 list -> 'a1 list -> 'a1 list **)

let from_cursor past fut =
  match past with
  | [] -> fut
  | x :: _ -> x :: fut

(** val nhalfmul : 'a1 numOps -> 'a1 -> 'a1 **)

let nhalfmul o0 a =
  o0.ndiv a (n2 o0)

(** val dist_at_t :
    'a1 numOps -> 'a1 -> 'a1 -> 'a1 -> 'a1 -> 'a1 -> bool -> 'a1 **)

let dist_at_t o0 isi1 isi2 s1 s2 m ri =
  let meanISI = nhalfmul o0 (o0.nadd isi1 isi2) in
  let limitedISI = nmax o0 m meanISI in
  if ri
  then o0.ndiv (nhalfmul o0 (o0.nadd s1 s2)) limitedISI
  else o0.ndiv (nhalfmul o0 (o0.nadd (o0.nmul s1 isi2) (o0.nmul s2 isi1)))
         (o0.nmul meanISI limitedISI)

(** val last2 : 'a1 list -> ('a1 * 'a1) option **)

let last2 s =
  match rev s with
  | [] -> None
  | a :: l -> (match l with
               | [] -> None
               | b :: _ -> Some (a, b))

(** val t_aux_py : 'a1 numOps -> 'a1 -> 'a1 -> 'a1 list -> 'a1 * 'a1 **)

let t_aux_py o0 ts te = function
| [] -> (ts, te)
| x0 :: l ->
  (match l with
   | [] -> (ts, te)
   | x1 :: l0 ->
     (match last2 (x0 :: (x1 :: l0)) with
      | Some p ->
        let (a, b) = p in
        ((nmin o0 ts (o0.nsub x0 (o0.nsub x1 x0))),
        (nmax o0 te (o0.nadd a (o0.nsub a b))))
      | None -> (ts, te)))

(** val t_aux_cy : 'a1 numOps -> 'a1 -> 'a1 -> 'a1 list -> 'a1 * 'a1 **)

let t_aux_cy o0 ts te = function
| [] -> (ts, te)
| x0 :: l ->
  (match l with
   | [] -> (ts, te)
   | x1 :: l0 ->
     (match last2 (x0 :: (x1 :: l0)) with
      | Some p ->
        let (a, b) = p in
        ((nmin o0 ts (o0.nsub (o0.nmul (n2 o0) x0) x1)),
        (nmax o0 te (o0.nsub (o0.nmul (n2 o0) a) b)))
      | None -> (ts, te)))

type 'f sst = { s_past : 'f list; s_fut : 'f list; s_tp : 'f; s_tf : 
                'f; s_dtp : 'f; s_dtf : 'f; s_isi : 'f; s_s : 'f }

(** val end_isi : 'a1 numOps -> 'a1 -> 'a1 -> 'a1 list -> 'a1 **)

let end_isi o0 te a = function
| [] -> o0.nsub te a
| p :: _ -> nmax o0 (o0.nsub te a) (o0.nsub a p)

(** val spike_init :
    'a1 numOps -> 'a1 -> 'a1 -> 'a1 list -> 'a1 list -> ('a1 * 'a1) ->
    ('a1 * 'a1) -> 'a1 sst **)

let spike_init o0 ts te s other aux auxo =
  match s with
  | [] ->
    { s_past = []; s_fut = []; s_tp = o0.n0; s_tf = o0.n0; s_dtp = o0.n0;
      s_dtf = o0.n0; s_isi = o0.n0; s_s = o0.n0 }
  | x0 :: r ->
    let tp0 = if o0.neqb x0 ts then ts else fst aux in
    if o0.nltb ts x0
    then let dtf = get_min_dist o0 x0 other (fst auxo) (snd auxo) in
         let isi =
           match r with
           | [] -> o0.nsub x0 ts
           | x1 :: _ -> nmax o0 (o0.nsub x0 ts) (o0.nsub x1 x0)
         in
         { s_past = []; s_fut = s; s_tp = tp0; s_tf = x0; s_dtp = dtf;
         s_dtf = dtf; s_isi = isi; s_s = dtf }
    else let tf = match r with
                  | [] -> te
                  | x1 :: _ -> x1 in
         let dtp = get_min_dist o0 tp0 other (fst auxo) (snd auxo) in
         let dtf =
           match r with
           | [] -> dtp
           | _ :: _ -> get_min_dist o0 tf other (fst auxo) (snd auxo)
         in
         { s_past = (x0 :: []); s_fut = r; s_tp = tp0; s_tf = tf; s_dtp =
         dtp; s_dtf = dtf; s_isi = (o0.nsub tf x0); s_s = dtp }

(** val spike_adv :
    'a1 numOps -> 'a1 -> 'a1 -> bool -> ('a1 * 'a1) -> ('a1 * 'a1) -> 'a1 sst
    -> 'a1 sst -> bool -> ((('a1 * 'a1) * 'a1) * 'a1 sst) * 'a1 sst **)

let spike_adv o0 te m ri auxA auxB a b swap =
  match a.s_fut with
  | [] -> ((((o0.n0, o0.n0), o0.n0), a), b)
  | x :: fA' ->
    let sA = o0.ndiv (o0.nmul a.s_dtf (o0.nsub a.s_tf a.s_tp)) a.s_isi in
    let dtpA = a.s_dtf in
    let tpA = a.s_tf in
    let pastA' = x :: a.s_past in
    let tfA = match fA' with
              | [] -> snd auxA
              | y :: _ -> y in
    let sB =
      o0.ndiv
        (o0.nadd (o0.nmul b.s_dtp (o0.nsub b.s_tf tpA))
          (o0.nmul b.s_dtf (o0.nsub tpA b.s_tp))) b.s_isi
    in
    let yend =
      if swap
      then dist_at_t o0 b.s_isi a.s_isi sB sA m ri
      else dist_at_t o0 a.s_isi b.s_isi sA sB m ri
    in
    (match fA' with
     | [] ->
       let isiA = end_isi o0 te x a.s_past in
       let ystart =
         if swap
         then dist_at_t o0 b.s_isi isiA sB dtpA m ri
         else dist_at_t o0 isiA b.s_isi dtpA sB m ri
       in
       ((((tpA, yend), ystart), { s_past = pastA'; s_fut = fA'; s_tp = tpA;
       s_tf = tfA; s_dtp = dtpA; s_dtf = dtpA; s_isi = isiA; s_s = dtpA }),
       { s_past = b.s_past; s_fut = b.s_fut; s_tp = b.s_tp; s_tf = b.s_tf;
       s_dtp = b.s_dtp; s_dtf = b.s_dtf; s_isi = b.s_isi; s_s = sB })
     | _ :: _ ->
       let dtfA =
         get_min_dist o0 tfA (from_cursor b.s_past b.s_fut) (fst auxB)
           (snd auxB)
       in
       let isiA = o0.nsub tfA tpA in
       let ystart =
         if swap
         then dist_at_t o0 b.s_isi isiA sB dtpA m ri
         else dist_at_t o0 isiA b.s_isi dtpA sB m ri
       in
       ((((tpA, yend), ystart), { s_past = pastA'; s_fut = fA'; s_tp = tpA;
       s_tf = tfA; s_dtp = dtpA; s_dtf = dtfA; s_isi = isiA; s_s = dtpA }),
       { s_past = b.s_past; s_fut = b.s_fut; s_tp = b.s_tp; s_tf = b.s_tf;
       s_dtp = b.s_dtp; s_dtf = b.s_dtf; s_isi = b.s_isi; s_s = sB }))

(** val spike_both_one :
    'a1 numOps -> 'a1 -> ('a1 * 'a1) -> ('a1 * 'a1) -> 'a1 sst -> 'a1 list ->
    'a1 list -> 'a1 sst **)

let spike_both_one o0 te auxA auxB a pastB' futB' =
  match a.s_fut with
  | [] -> a
  | x :: fA' ->
    let tpA = a.s_tf in
    (match fA' with
     | [] ->
       { s_past = (x :: a.s_past); s_fut = fA'; s_tp = tpA; s_tf =
         (snd auxA); s_dtp = o0.n0; s_dtf = o0.n0; s_isi =
         (end_isi o0 te x a.s_past); s_s = a.s_s }
     | y :: _ ->
       let dtfA =
         get_min_dist o0 y (from_cursor pastB' futB') (fst auxB) (snd auxB)
       in
       { s_past = (x :: a.s_past); s_fut = fA'; s_tp = tpA; s_tf = y; s_dtp =
       o0.n0; s_dtf = dtfA; s_isi = (o0.nsub y tpA); s_s = a.s_s })

(** val spike_loop :
    'a1 numOps -> nat -> 'a1 -> 'a1 -> bool -> ('a1 * 'a1) -> ('a1 * 'a1) ->
    'a1 sst -> 'a1 sst -> (('a1 * 'a1) * 'a1) list **)

let rec spike_loop o0 fuel te m ri aux1 aux2 a b =
  match fuel with
  | O -> []
  | S k ->
    let go1 =
      let (p, b') = spike_adv o0 te m ri aux1 aux2 a b false in
      let (p0, a') = p in p0 :: (spike_loop o0 k te m ri aux1 aux2 a' b')
    in
    let go2 =
      let (p, a') = spike_adv o0 te m ri aux2 aux1 b a true in
      let (p0, b') = p in p0 :: (spike_loop o0 k te m ri aux1 aux2 a' b')
    in
    (match a.s_fut with
     | [] -> (match b.s_fut with
              | [] -> []
              | _ :: _ -> go2)
     | x :: fa' ->
       (match b.s_fut with
        | [] -> go1
        | y :: fb' ->
          if o0.nltb a.s_tf b.s_tf
          then go1
          else if o0.nltb b.s_tf a.s_tf
               then go2
               else let a' =
                      spike_both_one o0 te aux1 aux2 a (y :: b.s_past) fb'
                    in
                    let b' =
                      spike_both_one o0 te aux2 aux1 b (x :: a.s_past) fa'
                    in
                    ((a.s_tf, o0.n0),
                    o0.n0) :: (spike_loop o0 k te m ri aux1 aux2 a' b')))

(** val spike_final :
    'a1 numOps -> nat -> 'a1 -> 'a1 -> bool -> ('a1 * 'a1) -> ('a1 * 'a1) ->
    'a1 sst -> 'a1 sst -> 'a1 sst * 'a1 sst **)

let rec spike_final o0 fuel te m ri aux1 aux2 a b =
  match fuel with
  | O -> (a, b)
  | S k ->
    let go1 =
      let (p, b') = spike_adv o0 te m ri aux1 aux2 a b false in
      let (_, a') = p in spike_final o0 k te m ri aux1 aux2 a' b'
    in
    let go2 =
      let (p, a') = spike_adv o0 te m ri aux2 aux1 b a true in
      let (_, b') = p in spike_final o0 k te m ri aux1 aux2 a' b'
    in
    (match a.s_fut with
     | [] -> (match b.s_fut with
              | [] -> (a, b)
              | _ :: _ -> go2)
     | x :: fa' ->
       (match b.s_fut with
        | [] -> go1
        | y :: fb' ->
          if o0.nltb a.s_tf b.s_tf
          then go1
          else if o0.nltb b.s_tf a.s_tf
               then go2
               else let a' =
                      spike_both_one o0 te aux1 aux2 a (y :: b.s_past) fb'
                    in
                    let b' =
                      spike_both_one o0 te aux2 aux1 b (x :: a.s_past) fa'
                    in
                    spike_final o0 k te m ri aux1 aux2 a' b'))

(** val spike_profile_gen :
    'a1 numOps -> ('a1 -> 'a1 -> 'a1 list -> 'a1 * 'a1) -> 'a1 list -> 'a1
    list -> 'a1 -> 'a1 -> 'a1 -> bool -> ('a1 list * 'a1 list) * 'a1 list **)

let spike_profile_gen o0 taux t1 t2 ts te m ri =
  let aux1 = taux ts te t1 in
  let aux2 = taux ts te t2 in
  let a0 = spike_init o0 ts te t1 t2 aux1 aux2 in
  let b0 = spike_init o0 ts te t2 t1 aux2 aux1 in
  let fuel = add (length t1) (length t2) in
  let evs = spike_loop o0 fuel te m ri aux1 aux2 a0 b0 in
  let (af, bf) = spike_final o0 fuel te m ri aux1 aux2 a0 b0 in
  let y0 = dist_at_t o0 a0.s_isi b0.s_isi a0.s_s b0.s_s m ri in
  let xs = ts :: (map ev_t evs) in
  let ystarts = y0 :: (map snd evs) in
  let yends = map (fun e -> snd (fst e)) evs in
  if o0.neqb (last xs te) te
  then ((xs, (removelast ystarts)), yends)
  else let ylast = dist_at_t o0 af.s_isi bf.s_isi af.s_dtf bf.s_dtf m ri in
       (((app xs (te :: [])), ystarts), (app yends (ylast :: [])))

(** val spike_profile_py :
    'a1 numOps -> 'a1 list -> 'a1 list -> 'a1 -> 'a1 -> 'a1 -> bool -> ('a1
    list * 'a1 list) * 'a1 list **)

let spike_profile_py o0 =
  spike_profile_gen o0 (t_aux_py o0)

(** val spike_profile_cy :
    'a1 numOps -> 'a1 list -> 'a1 list -> 'a1 -> 'a1 -> 'a1 -> bool -> ('a1
    list * 'a1 list) * 'a1 list **)

let spike_profile_cy o0 =
  spike_profile_gen o0 (t_aux_cy o0)

(** val spike_acc :
    'a1 numOps -> (('a1 * 'a1) * 'a1) list -> 'a1 -> 'a1 -> 'a1 ->
    ('a1 * 'a1) * 'a1 **)

let rec spike_acc o0 evs t_last y_start acc =
  match evs with
  | [] -> ((t_last, y_start), acc)
  | p :: r ->
    let (p0, ys) = p in
    let (t, ye) = p0 in
    spike_acc o0 r t ys
      (o0.nadd acc
        (o0.nmul (nhalfmul o0 (o0.nadd y_start ye)) (o0.nsub t t_last)))

(** val spike_distance_cy :
    'a1 numOps -> 'a1 list -> 'a1 list -> 'a1 -> 'a1 -> 'a1 -> bool -> 'a1 **)

let spike_distance_cy o0 t1 t2 ts te m ri =
  let aux1 = t_aux_cy o0 ts te t1 in
  let aux2 = t_aux_cy o0 ts te t2 in
  let a0 = spike_init o0 ts te t1 t2 aux1 aux2 in
  let b0 = spike_init o0 ts te t2 t1 aux2 aux1 in
  let fuel = add (length t1) (length t2) in
  let evs = spike_loop o0 fuel te m ri aux1 aux2 a0 b0 in
  let (af, bf) = spike_final o0 fuel te m ri aux1 aux2 a0 b0 in
  let y0 = dist_at_t o0 a0.s_isi b0.s_isi a0.s_s b0.s_s m ri in
  let (p, acc) = spike_acc o0 evs ts y0 o0.n0 in
  let (t_last, y_start) = p in
  let y_end = dist_at_t o0 af.s_isi bf.s_isi af.s_dtf bf.s_dtf m ri in
  o0.ndiv
    (if o0.nltb t_last te
     then o0.nadd acc
            (o0.nmul (nhalfmul o0 (o0.nadd y_start y_end))
              (o0.nsub te t_last))
     else acc) (o0.nsub te ts)

type 'f ctx = { c_prev : 'f option; c_cur : 'f; c_next : 'f option }

(** val ctx_of : 'a1 list -> 'a1 list -> 'a1 ctx option **)

let ctx_of past fut =
  match past with
  | [] -> None
  | x :: p ->
    Some { c_prev = (hd_error p); c_cur = x; c_next = (hd_error fut) }

(** val gapF : 'a1 numOps -> 'a1 -> 'a1 ctx option -> 'a1 **)

let gapF o0 lim = function
| Some c0 ->
  let { c_prev = _; c_cur = x; c_next = c_next0 } = c0 in
  (match c_next0 with
   | Some y -> o0.nsub y x
   | None -> lim)
| None -> lim

(** val gapP : 'a1 numOps -> 'a1 -> 'a1 ctx option -> 'a1 **)

let gapP o0 lim = function
| Some c0 ->
  let { c_prev = c_prev0; c_cur = x; c_next = _ } = c0 in
  (match c_prev0 with
   | Some p -> o0.nsub x p
   | None -> lim)
| None -> lim

(** val interp : 'a1 numOps -> 'a1 -> 'a1 -> 'a1 -> 'a1 **)

let interp o0 a b t =
  let mab = nmin o0 a b in
  if o0.nltb t mab then mab else if o0.nltb b t then b else t

(** val interp_cy : 'a1 numOps -> 'a1 -> 'a1 -> 'a1 -> 'a1 **)

let interp_cy o0 a b t =
  if (&&) (o0.nltb t a) (o0.nltb a b)
  then a
  else if (&&) (o0.nltb t b) (nleb o0 b a)
       then b
       else if o0.nltb b t then b else t

(** val first_le : 'a1 numOps -> 'a1 ctx option -> 'a1 ctx option -> bool **)

let first_le o0 c1 c2 =
  match c1 with
  | Some x -> (match c2 with
               | Some y -> nleb o0 x.c_cur y.c_cur
               | None -> true)
  | None -> true

(** val get_tau_gen :
    'a1 numOps -> ('a1 -> 'a1 -> 'a1 -> 'a1) -> 'a1 ctx option -> 'a1 ctx
    option -> 'a1 -> 'a1 -> 'a1 **)

let get_tau_gen o0 ip c1 c2 lim mrts =
  let mF1 = o0.ndiv (gapF o0 lim c1) (n2 o0) in
  let mF2 = o0.ndiv (gapF o0 lim c2) (n2 o0) in
  let mP1 = o0.ndiv (gapP o0 lim c1) (n2 o0) in
  let mP2 = o0.ndiv (gapP o0 lim c2) (n2 o0) in
  let m = o0.ndiv mrts (n4 o0) in
  nmin o0
    (if first_le o0 c1 c2
     then nmin o0 (ip mP1 mF1 m) (ip mF2 mP2 m)
     else nmin o0 (ip mF1 mP1 m) (ip mP2 mF2 m)) (o0.ndiv lim (n2 o0))

(** val get_tau :
    'a1 numOps -> 'a1 ctx option -> 'a1 ctx option -> 'a1 -> 'a1 -> 'a1 **)

let get_tau o0 =
  get_tau_gen o0 (interp o0)

(** val get_tau_cy :
    'a1 numOps -> 'a1 ctx option -> 'a1 ctx option -> 'a1 -> 'a1 -> 'a1 **)

let get_tau_cy o0 =
  get_tau_gen o0 (interp_cy o0)

(** val true_max : 'a1 numOps -> 'a1 -> 'a1 -> 'a1 -> 'a1 **)

let true_max o0 ts te mt =
  let tm = o0.nsub te ts in
  if o0.nltb o0.n0 mt then nmin o0 tm (o0.nmul (n2 o0) mt) else tm

type 'f sev =
| Adv1 of 'f * bool
| Adv2 of 'f * bool
| Both of 'f

(** val coinc_events :
    'a1 numOps -> ('a1 ctx option -> 'a1 ctx option -> 'a1) -> nat -> 'a1
    list -> 'a1 list -> 'a1 list -> 'a1 list -> 'a1 sev list **)

let rec coinc_events o0 tau fuel p1 f1 p2 f2 =
  match fuel with
  | O -> []
  | S k ->
    let adv1 = fun a f1' ->
      let p1' = a :: p1 in
      let t = tau (ctx_of p1' f1') (ctx_of p2 f2) in
      let hit = match p2 with
                | [] -> false
                | y :: _ -> o0.nltb (o0.nsub a y) t
      in
      (Adv1 (a, hit)) :: (coinc_events o0 tau k p1' f1' p2 f2)
    in
    let adv2 = fun b f2' ->
      let p2' = b :: p2 in
      let t = tau (ctx_of p1 f1) (ctx_of p2' f2') in
      let hit = match p1 with
                | [] -> false
                | x :: _ -> o0.nltb (o0.nsub b x) t
      in
      (Adv2 (b, hit)) :: (coinc_events o0 tau k p1 f1 p2' f2')
    in
    (match f1 with
     | [] -> (match f2 with
              | [] -> []
              | b :: f2' -> adv2 b f2')
     | a :: f1' ->
       (match f2 with
        | [] -> adv1 a f1'
        | b :: f2' ->
          if o0.nltb a b
          then adv1 a f1'
          else if o0.nltb b a
               then adv2 b f2'
               else (Both
                      a) :: (coinc_events o0 tau k (a :: p1) f1' (b :: p2)
                              f2')))

(** val set_head_val :
    'a1 -> (('a1 * 'a1) * 'a1) list -> (('a1 * 'a1) * 'a1) list **)

let set_head_val v = function
| [] -> []
| p :: r -> let (p0, mp) = p in let (t, _) = p0 in ((t, v), mp) :: r

(** val mark_events :
    'a1 numOps -> 'a1 -> 'a1 -> 'a1 -> 'a1 sev list -> (('a1 * 'a1) * 'a1)
    list -> (('a1 * 'a1) * 'a1) list **)

let rec mark_events o0 v1 v2 vboth evs acc =
  match evs with
  | [] -> rev acc
  | s :: r ->
    (match s with
     | Adv1 (t, hit) ->
       if hit
       then mark_events o0 v1 v2 vboth r (((t, v1),
              o0.n1) :: (set_head_val v1 acc))
       else mark_events o0 v1 v2 vboth r (((t, o0.n0), o0.n1) :: acc)
     | Adv2 (t, hit) ->
       if hit
       then mark_events o0 v1 v2 vboth r (((t, v2),
              o0.n1) :: (set_head_val v2 acc))
       else mark_events o0 v1 v2 vboth r (((t, o0.n0), o0.n1) :: acc)
     | Both t -> mark_events o0 v1 v2 vboth r (((t, vboth), (n2 o0)) :: acc))

(** val e_y : (('a1 * 'a1) * 'a1) -> 'a1 **)

let e_y e =
  snd (fst e)

(** val e_mp : (('a1 * 'a1) * 'a1) -> 'a1 **)

let e_mp =
  snd

(** val frame_profile :
    'a1 numOps -> 'a1 -> 'a1 -> (('a1 * 'a1) * 'a1) list ->
    (('a1 * 'a1) * 'a1) list **)

let frame_profile o0 ts te entries = match entries with
| [] -> ((ts, o0.n1), o0.n1) :: (((te, o0.n1), o0.n1) :: [])
| e0 :: _ ->
  let el = last entries e0 in
  ((ts, (e_y e0)),
  (e_mp e0)) :: (app entries (((te, (e_y el)), (e_mp el)) :: []))

(** val coinc_scan :
    'a1 numOps -> ('a1 ctx option -> 'a1 ctx option -> 'a1) -> 'a1 list ->
    'a1 list -> 'a1 sev list **)

let coinc_scan o0 tau s1 s2 =
  coinc_events o0 tau (add (length s1) (length s2)) [] s1 [] s2

(** val tau_fn :
    'a1 numOps -> ('a1 ctx option -> 'a1 ctx option -> 'a1 -> 'a1 -> 'a1) ->
    'a1 -> 'a1 -> 'a1 -> 'a1 -> 'a1 ctx option -> 'a1 ctx option -> 'a1 **)

let tau_fn o0 gt ts te mt mrts c1 c2 =
  gt c1 c2 (true_max o0 ts te mt) mrts

(** val coincidence_profile_gen :
    'a1 numOps -> ('a1 ctx option -> 'a1 ctx option -> 'a1 -> 'a1 -> 'a1) ->
    'a1 list -> 'a1 list -> 'a1 -> 'a1 -> 'a1 -> 'a1 -> (('a1 * 'a1) * 'a1)
    list **)

let coincidence_profile_gen o0 gt s1 s2 ts te mt mrts =
  frame_profile o0 ts te
    (mark_events o0 o0.n1 o0.n1 (n2 o0)
      (coinc_scan o0 (tau_fn o0 gt ts te mt mrts) s1 s2) [])

(** val order_profile_gen :
    'a1 numOps -> ('a1 ctx option -> 'a1 ctx option -> 'a1 -> 'a1 -> 'a1) ->
    'a1 list -> 'a1 list -> 'a1 -> 'a1 -> 'a1 -> 'a1 -> (('a1 * 'a1) * 'a1)
    list **)

let order_profile_gen o0 gt s1 s2 ts te mt mrts =
  frame_profile o0 ts te
    (mark_events o0 (o0.nsub o0.n0 o0.n1) o0.n1 o0.n0
      (coinc_scan o0 (tau_fn o0 gt ts te mt mrts) s1 s2) [])

(** val coinc_value :
    'a1 numOps -> 'a1 sev list -> 'a1 -> 'a1 -> 'a1 * 'a1 **)

let rec coinc_value o0 evs c mp =
  match evs with
  | [] -> (c, mp)
  | s :: r ->
    (match s with
     | Adv1 (_, hit) ->
       coinc_value o0 r (if hit then o0.nadd c (n2 o0) else c)
         (o0.nadd mp o0.n1)
     | Adv2 (_, hit) ->
       coinc_value o0 r (if hit then o0.nadd c (n2 o0) else c)
         (o0.nadd mp o0.n1)
     | Both _ -> coinc_value o0 r (o0.nadd c (n2 o0)) (o0.nadd mp (n2 o0)))

(** val coincidence_value_gen :
    'a1 numOps -> ('a1 ctx option -> 'a1 ctx option -> 'a1 -> 'a1 -> 'a1) ->
    'a1 list -> 'a1 list -> 'a1 -> 'a1 -> 'a1 -> 'a1 -> 'a1 * 'a1 **)

let coincidence_value_gen o0 gt s1 s2 ts te mt mrts =
  coinc_value o0 (coinc_scan o0 (tau_fn o0 gt ts te mt mrts) s1 s2) o0.n0
    o0.n0

(** val order_value :
    'a1 numOps -> 'a1 sev list -> 'a1 -> 'a1 -> 'a1 * 'a1 **)

let rec order_value o0 evs c mp =
  match evs with
  | [] -> (c, mp)
  | s :: r ->
    (match s with
     | Adv1 (_, hit) ->
       order_value o0 r (if hit then o0.nsub c (n2 o0) else c)
         (o0.nadd mp o0.n1)
     | Adv2 (_, hit) ->
       order_value o0 r (if hit then o0.nadd c (n2 o0) else c)
         (o0.nadd mp o0.n1)
     | Both _ -> order_value o0 r c (o0.nadd mp (n2 o0)))

(** val set_head : 'a1 -> 'a1 list -> 'a1 list **)

let set_head v = function
| [] -> []
| _ :: r -> v :: r

(** val dir_marks :
    'a1 numOps -> 'a1 sev list -> 'a1 list -> 'a1 list -> 'a1 list * 'a1 list **)

let rec dir_marks o0 evs a1 a2 =
  match evs with
  | [] -> ((rev a1), (rev a2))
  | s :: r ->
    (match s with
     | Adv1 (_, hit) ->
       if hit
       then dir_marks o0 r ((o0.nsub o0.n0 o0.n1) :: a1) (set_head o0.n1 a2)
       else dir_marks o0 r (o0.n0 :: a1) a2
     | Adv2 (_, hit) ->
       if hit
       then dir_marks o0 r (set_head o0.n1 a1) ((o0.nsub o0.n0 o0.n1) :: a2)
       else dir_marks o0 r a1 (o0.n0 :: a2)
     | Both _ -> dir_marks o0 r (o0.n0 :: a1) (o0.n0 :: a2))

(** val directionality_profile_gen :
    'a1 numOps -> ('a1 ctx option -> 'a1 ctx option -> 'a1 -> 'a1 -> 'a1) ->
    'a1 list -> 'a1 list -> 'a1 -> 'a1 -> 'a1 -> 'a1 -> 'a1 list * 'a1 list **)

let directionality_profile_gen o0 gt s1 s2 ts te mt mrts =
  dir_marks o0 (coinc_scan o0 (tau_fn o0 gt ts te mt mrts) s1 s2) [] []

(** val dir_value : 'a1 numOps -> 'a1 sev list -> 'a1 -> 'a1 **)

let rec dir_value o0 evs d =
  match evs with
  | [] -> d
  | s :: r ->
    (match s with
     | Adv1 (_, hit) -> dir_value o0 r (if hit then o0.nsub d o0.n1 else d)
     | Adv2 (_, hit) -> dir_value o0 r (if hit then o0.nadd d o0.n1 else d)
     | Both _ -> dir_value o0 r d)

(** val skip_before :
    'a1 numOps -> 'a1 -> 'a1 list -> 'a1 list -> 'a1 list * 'a1 list **)

let rec skip_before o0 x p2 f2 = match f2 with
| [] -> (p2, f2)
| y :: f2' -> if o0.nltb y x then skip_before o0 x (y :: p2) f2' else (p2, f2)

(** val coinc_single_loop :
    'a1 numOps -> ('a1 ctx option -> 'a1 ctx option -> 'a1) -> 'a1 list ->
    'a1 list -> 'a1 list -> 'a1 list -> 'a1 list **)

let rec coinc_single_loop o0 tau p1 f1 p2 f2 =
  match f1 with
  | [] -> []
  | x :: f1' ->
    let p1' = x :: p1 in
    let c1 = ctx_of p1' f1' in
    let (q2, g2) = skip_before o0 x p2 f2 in
    let hitA =
      match q2 with
      | [] -> false
      | y :: _ -> o0.nltb (nabs o0 (o0.nsub x y)) (tau c1 (ctx_of q2 g2))
    in
    let step0 =
      match g2 with
      | [] -> false
      | _ :: _ -> (match q2 with
                   | [] -> true
                   | y :: _ -> o0.nltb y x)
    in
    if step0
    then (match g2 with
          | [] -> []
          | z0 :: g2' ->
            let q2' = z0 :: q2 in
            let hitB =
              o0.nltb (nabs o0 (o0.nsub z0 x)) (tau c1 (ctx_of q2' g2'))
            in
            (if (||) hitA hitB then o0.n1 else o0.n0) :: (coinc_single_loop
                                                           o0 tau p1' f1' q2'
                                                           g2'))
    else (if hitA then o0.n1 else o0.n0) :: (coinc_single_loop o0 tau p1' f1'
                                              q2 g2)

(** val coincidence_single_gen :
    'a1 numOps -> ('a1 ctx option -> 'a1 ctx option -> 'a1 -> 'a1 -> 'a1) ->
    'a1 list -> 'a1 list -> 'a1 -> 'a1 -> 'a1 -> 'a1 -> 'a1 list **)

let coincidence_single_gen o0 gt s1 s2 ts te mt mrts =
  coinc_single_loop o0 (tau_fn o0 gt ts te mt mrts) [] s1 [] s2

type err =
| AssertionError
| IndexError
| ValueError
| NotImplementedError
| ZeroDivisionError
| OutOfFuel
| BadArgs

type 'a res =
| Ok of 'a
| Err of err

(** val rbind : 'a1 res -> ('a1 -> 'a2 res) -> 'a2 res **)

let rbind r f =
  match r with
  | Ok a -> f a
  | Err e -> Err e

(** val rmap : ('a1 -> 'a2) -> 'a1 res -> 'a2 res **)

let rmap f = function
| Ok a -> Ok (f a)
| Err e -> Err e

(** val nthF : 'a1 numOps -> 'a1 list -> nat -> 'a1 **)

let nthF o0 l i =
  nth i l o0.n0

(** val lastF : 'a1 numOps -> 'a1 list -> 'a1 **)

let lastF o0 l =
  last l o0.n0

(** val sumF : 'a1 numOps -> 'a1 list -> 'a1 **)

let sumF o0 l =
  fold_right o0.nadd o0.n0 l

(** val count_le : 'a1 numOps -> 'a1 -> 'a1 list -> nat **)

let count_le o0 t xs =
  length (filter (fun x -> nleb o0 x t) xs)

(** val count_lt : 'a1 numOps -> 'a1 -> 'a1 list -> nat **)

let count_lt o0 t xs =
  length (filter (fun x -> o0.nltb x t) xs)

(** val slice : 'a1 list -> nat -> nat -> 'a1 list **)

let slice l a b =
  firstn (sub b a) (skipn a l)

type 'f pwc = 'f list * 'f list

(** val pwc_int_all : 'a1 numOps -> 'a1 list -> 'a1 list -> 'a1 **)

let rec pwc_int_all o0 xs ys =
  match xs with
  | [] -> o0.n0
  | x0 :: xs' ->
    (match xs' with
     | [] -> o0.n0
     | x1 :: _ ->
       (match ys with
        | [] -> o0.n0
        | y :: ys' ->
          o0.nadd (o0.nmul (o0.nsub x1 x0) y) (pwc_int_all o0 xs' ys')))

(** val pwc_integral :
    'a1 numOps -> 'a1 pwc -> ('a1 * 'a1) option -> 'a1 res **)

let pwc_integral o0 f iv =
  let (xs, ys) = f in
  (match iv with
   | Some p ->
     let (a, b) = p in
     if o0.nltb b a
     then Err ValueError
     else if o0.nltb a (nthF o0 xs O)
          then Err ValueError
          else if o0.nltb (lastF o0 xs) b
               then Err ValueError
               else let s = count_le o0 a xs in
                    let e = sub (count_lt o0 b xs) (S O) in
                    if Nat.eqb (count_lt o0 b xs) O
                    then Err IndexError
                    else if Nat.ltb e s
                         then Ok
                                (o0.nsub
                                  (o0.nmul
                                    (o0.nsub (nthF o0 xs s) (nthF o0 xs e))
                                    (nthF o0 ys e))
                                  (o0.nmul
                                    (o0.nadd (o0.nsub a (nthF o0 xs e))
                                      (o0.nsub (nthF o0 xs s) b))
                                    (nthF o0 ys e)))
                         else if negb
                                   ((&&) (Nat.ltb O s)
                                     (Nat.ltb e (length xs)))
                              then Err AssertionError
                              else Ok
                                     (o0.nadd
                                       (o0.nadd
                                         (pwc_int_all o0
                                           (slice xs s (add e (S O)))
                                           (slice ys s e))
                                         (o0.nmul (o0.nsub (nthF o0 xs s) a)
                                           (nthF o0 ys (sub s (S O)))))
                                       (o0.nmul (o0.nsub b (nthF o0 xs e))
                                         (nthF o0 ys e)))
   | None -> Ok (pwc_int_all o0 xs ys))

type 'f ivspec =
| IvNone
| IvOne of 'f * 'f
| IvMany of ('f * 'f) list

(** val sum_res : 'a1 numOps -> 'a1 res list -> 'a1 res **)

let rec sum_res o0 = function
| [] -> Ok o0.n0
| r :: l' -> rbind r (fun a -> rmap (fun s -> o0.nadd a s) (sum_res o0 l'))

(** val avrg_gen :
    'a1 numOps -> (('a1 * 'a1) option -> 'a1 res) -> 'a1 -> 'a1 -> 'a1 ivspec
    -> 'a1 res **)

let avrg_gen o0 integral x0 xn = function
| IvNone -> rmap (fun a -> o0.ndiv a (o0.nsub xn x0)) (integral None)
| IvOne (a, b) ->
  rmap (fun v -> o0.ndiv v (o0.nsub b a)) (integral (Some (a, b)))
| IvMany l ->
  rmap (fun v ->
    o0.ndiv v (sumF o0 (map (fun p -> o0.nsub (snd p) (fst p)) l)))
    (sum_res o0 (map (fun p -> integral (Some p)) l))

(** val pwc_avrg : 'a1 numOps -> 'a1 pwc -> 'a1 ivspec -> 'a1 res **)

let pwc_avrg o0 f iv =
  avrg_gen o0 (pwc_integral o0 f) (nthF o0 (fst f) O) (lastF o0 (fst f)) iv

(** val pwc_call_scalar : 'a1 numOps -> 'a1 pwc -> 'a1 -> 'a1 res **)

let pwc_call_scalar o0 f t =
  let (xs, ys) = f in
  if negb ((&&) (nleb o0 (nthF o0 xs O) t) (nleb o0 t (lastF o0 xs)))
  then Err AssertionError
  else let ind = count_le o0 t xs in
       if o0.neqb t (nthF o0 xs O)
       then Ok (nthF o0 ys O)
       else if o0.neqb t (lastF o0 xs)
            then Ok (lastF o0 ys)
            else if existsb (fun x -> o0.neqb x t) xs
                 then Ok
                        (o0.ndiv
                          (o0.nadd (nthF o0 ys (sub ind (S O)))
                            (nthF o0 ys (sub ind (S (S O))))) (n2 o0))
                 else Ok (nthF o0 ys (sub ind (S O)))

(** val pwc_call_seq1 : 'a1 numOps -> 'a1 pwc -> 'a1 -> 'a1 res **)

let pwc_call_seq1 o0 f t =
  let (xs, ys) = f in
  if negb ((&&) (nleb o0 (nthF o0 xs O) t) (nleb o0 t (lastF o0 xs)))
  then Err AssertionError
  else let ind0 = count_le o0 t xs in
       let ind1 = if Nat.eqb ind0 O then S O else ind0 in
       let ind =
         if Nat.eqb ind1 (length xs) then sub (length xs) (S O) else ind1
       in
       let ind_l = count_lt o0 t xs in
       if (&&) ((&&) (negb (Nat.eqb ind ind_l)) (Nat.ltb (S O) ind))
            (Nat.ltb ind (length xs))
       then Ok
              (o0.ndiv
                (o0.nadd (nthF o0 ys (sub ind (S O)))
                  (nthF o0 ys (sub ind (S (S O))))) (n2 o0))
       else Ok (nthF o0 ys (sub ind (S O)))

(** val dup : 'a1 list -> 'a1 list **)

let rec dup = function
| [] -> []
| a :: r -> a :: (a :: (dup r))

(** val plot_x : 'a1 list -> 'a1 list **)

let plot_x = function
| [] -> []
| x0 :: r -> x0 :: (removelast (dup r))

(** val pwc_plottable : 'a1 pwc -> 'a1 list * 'a1 list **)

let pwc_plottable f =
  ((plot_x (fst f)), (dup (snd f)))

(** val pwc_add_loop :
    'a1 numOps -> nat -> 'a1 -> ('a1 * 'a1) list -> 'a1 -> ('a1 * 'a1) list
    -> ('a1 * 'a1) list * ((('a1 * ('a1 * 'a1) list) * 'a1) * ('a1 * 'a1)
    list) **)

let rec pwc_add_loop o0 fuel c1 r1 c2 r2 =
  match fuel with
  | O -> ([], (((c1, r1), c2), r2))
  | S k ->
    (match r1 with
     | [] -> ([], (((c1, r1), c2), r2))
     | p :: r1' ->
       let (x1, v1) = p in
       (match r2 with
        | [] -> ([], (((c1, r1), c2), r2))
        | p0 :: r2' ->
          let (x2, v2) = p0 in
          if o0.nltb x1 x2
          then let (out, st) = pwc_add_loop o0 k v1 r1' c2 r2 in
               (((x1, (o0.nadd v1 c2)) :: out), st)
          else if o0.nltb x2 x1
               then let (out, st) = pwc_add_loop o0 k c1 r1 v2 r2' in
                    (((x2, (o0.nadd c1 v2)) :: out), st)
               else let (out, st) = pwc_add_loop o0 k v1 r1' v2 r2' in
                    (((x1, (o0.nadd v1 v2)) :: out), st)))

(** val interior : 'a1 list -> 'a1 list -> ('a1 * 'a1) list **)

let interior xs ys =
  combine (removelast (tl xs)) (tl ys)

(** val pwc_add : 'a1 numOps -> 'a1 pwc -> 'a1 pwc -> 'a1 pwc res **)

let pwc_add o0 f g =
  let (x1, y1) = f in
  let (x2, y2) = g in
  (match x1 with
   | [] -> Err IndexError
   | a0 :: _ ->
     (match y1 with
      | [] -> Err IndexError
      | c1 :: _ ->
        (match x2 with
         | [] -> Err IndexError
         | b0 :: _ ->
           (match y2 with
            | [] -> Err IndexError
            | c2 :: _ ->
              if negb (o0.neqb a0 b0)
              then Err AssertionError
              else if negb (o0.neqb (lastF o0 x1) (lastF o0 x2))
                   then Err AssertionError
                   else let (out, p) =
                          pwc_add_loop o0 (add (length x1) (length x2)) c1
                            (interior x1 y1) c2 (interior x2 y2)
                        in
                        let (p0, r2) = p in
                        let (p1, _) = p0 in
                        let (_, r1) = p1 in
                        let tail =
                          match r1 with
                          | [] ->
                            (match r2 with
                             | [] -> []
                             | _ :: _ ->
                               map (fun p2 -> ((fst p2),
                                 (o0.nadd (snd p2) (lastF o0 y1)))) r2)
                          | _ :: _ ->
                            map (fun p2 -> ((fst p2),
                              (o0.nadd (snd p2) (lastF o0 y2)))) r1
                        in
                        let evs = app out tail in
                        Ok
                        ((a0 :: (app (map fst evs) ((lastF o0 x1) :: []))),
                        ((o0.nadd c1 c2) :: (map snd evs)))))))

(** val pwc_mul : 'a1 numOps -> 'a1 pwc -> 'a1 -> 'a1 pwc **)

let pwc_mul o0 f c =
  ((fst f), (map (fun y -> o0.nmul y c) (snd f)))

type 'f pwl = ('f list * 'f list) * 'f list

(** val interm : 'a1 numOps -> 'a1 -> 'a1 -> 'a1 -> 'a1 -> 'a1 -> 'a1 **)

let interm o0 x0 x1 y0 y1 x =
  o0.nadd y0
    (o0.ndiv (o0.nmul (o0.nsub y1 y0) (o0.nsub x x0)) (o0.nsub x1 x0))

(** val pwl_int_all :
    'a1 numOps -> 'a1 list -> 'a1 list -> 'a1 list -> 'a1 **)

let rec pwl_int_all o0 xs y1s y2s =
  match xs with
  | [] -> o0.n0
  | x0 :: xs' ->
    (match xs' with
     | [] -> o0.n0
     | x1 :: _ ->
       (match y1s with
        | [] -> o0.n0
        | a :: y1' ->
          (match y2s with
           | [] -> o0.n0
           | b :: y2' ->
             o0.nadd
               (o0.nmul (o0.nsub x1 x0) (o0.ndiv (o0.nadd a b) (n2 o0)))
               (pwl_int_all o0 xs' y1' y2'))))

(** val pwl_integral :
    'a1 numOps -> 'a1 pwl -> ('a1 * 'a1) option -> 'a1 res **)

let pwl_integral o0 f iv =
  let (p, y2s) = f in
  let (xs, y1s) = p in
  (match iv with
   | Some p0 ->
     let (a, b) = p0 in
     let s = count_le o0 a xs in
     let cl = count_lt o0 b xs in
     if negb ((&&) (Nat.ltb O s) (Nat.leb cl (length xs)))
     then Err AssertionError
     else if Nat.leb cl s
          then let ya =
                 interm o0 (nthF o0 xs (sub s (S O))) (nthF o0 xs s)
                   (nthF o0 y1s (sub s (S O))) (nthF o0 y2s (sub s (S O))) a
               in
               let yb =
                 interm o0 (nthF o0 xs (sub s (S O))) (nthF o0 xs s)
                   (nthF o0 y1s (sub s (S O))) (nthF o0 y2s (sub s (S O))) b
               in
               Ok (o0.nmul (o0.ndiv (o0.nadd ya yb) (n2 o0)) (o0.nsub b a))
          else let e = sub cl (S O) in
               Ok
               (o0.nadd
                 (o0.nadd
                   (pwl_int_all o0 (slice xs s (add e (S O))) (slice y1s s e)
                     (slice y2s s e))
                   (o0.nmul (o0.ndiv (o0.nsub (nthF o0 xs s) a) (n2 o0))
                     (o0.nadd (nthF o0 y2s (sub s (S O)))
                       (interm o0 (nthF o0 xs (sub s (S O))) (nthF o0 xs s)
                         (nthF o0 y1s (sub s (S O)))
                         (nthF o0 y2s (sub s (S O))) a))))
                 (o0.nmul (o0.ndiv (o0.nsub b (nthF o0 xs e)) (n2 o0))
                   (o0.nadd (nthF o0 y1s e)
                     (interm o0 (nthF o0 xs e) (nthF o0 xs (add e (S O)))
                       (nthF o0 y1s e) (nthF o0 y2s e) b))))
   | None -> Ok (pwl_int_all o0 xs y1s y2s))

(** val pwl_avrg : 'a1 numOps -> 'a1 pwl -> 'a1 ivspec -> 'a1 res **)

let pwl_avrg o0 f iv =
  let xs = fst (fst f) in
  avrg_gen o0 (pwl_integral o0 f) (nthF o0 xs O) (lastF o0 xs) iv

(** val pwl_call_scalar : 'a1 numOps -> 'a1 pwl -> 'a1 -> 'a1 res **)

let pwl_call_scalar o0 f t =
  let (p, y2s) = f in
  let (xs, y1s) = p in
  if negb ((&&) (nleb o0 (nthF o0 xs O) t) (nleb o0 t (lastF o0 xs)))
  then Err AssertionError
  else let ind = count_le o0 t xs in
       if o0.neqb t (nthF o0 xs O)
       then Ok (nthF o0 y1s O)
       else if o0.neqb t (lastF o0 xs)
            then Ok (lastF o0 y2s)
            else if existsb (fun x -> o0.neqb x t) xs
                 then Ok
                        (o0.ndiv
                          (o0.nadd (nthF o0 y1s (sub ind (S O)))
                            (nthF o0 y2s (sub ind (S (S O))))) (n2 o0))
                 else Ok
                        (interm o0 (nthF o0 xs (sub ind (S O)))
                          (nthF o0 xs ind) (nthF o0 y1s (sub ind (S O)))
                          (nthF o0 y2s (sub ind (S O))) t)

(** val pwl_call_seq1 : 'a1 numOps -> 'a1 pwl -> 'a1 -> 'a1 res **)

let pwl_call_seq1 o0 f t =
  let (p, y2s) = f in
  let (xs, y1s) = p in
  if negb ((&&) (nleb o0 (nthF o0 xs O) t) (nleb o0 t (lastF o0 xs)))
  then Err AssertionError
  else let ind0 = count_le o0 t xs in
       let ind1 = if Nat.eqb ind0 O then S O else ind0 in
       let ind =
         if Nat.eqb ind1 (length xs) then sub (length xs) (S O) else ind1
       in
       let ind_l = count_lt o0 t xs in
       if (&&) ((&&) (negb (Nat.eqb ind ind_l)) (Nat.ltb (S O) ind))
            (Nat.ltb ind (length xs))
       then Ok
              (o0.ndiv
                (o0.nadd (nthF o0 y1s (sub ind (S O)))
                  (nthF o0 y2s (sub ind (S (S O))))) (n2 o0))
       else Ok
              (interm o0 (nthF o0 xs (sub ind (S O))) (nthF o0 xs ind)
                (nthF o0 y1s (sub ind (S O))) (nthF o0 y2s (sub ind (S O))) t)

(** val interleave : 'a1 list -> 'a1 list -> 'a1 list **)

let rec interleave l1 l2 =
  match l1 with
  | [] -> []
  | a :: r1 ->
    (match l2 with
     | [] -> []
     | b :: r2 -> a :: (b :: (interleave r1 r2)))

(** val pwl_plottable : 'a1 pwl -> 'a1 list * 'a1 list **)

let pwl_plottable = function
| (p, y2s) -> let (xs, y1s) = p in ((plot_x xs), (interleave y1s y2s))

type 'f lpiece = (('f * 'f) * 'f) * 'f

(** val lp_at : 'a1 numOps -> 'a1 lpiece -> 'a1 -> 'a1 **)

let lp_at o0 p x =
  let (p0, xr) = p in
  let (p1, yb) = p0 in
  let (xl, ya) = p1 in
  o0.nadd ya
    (o0.ndiv (o0.nmul (o0.nsub yb ya) (o0.nsub x xl)) (o0.nsub xr xl))

(** val lp_ya : 'a1 lpiece -> 'a1 **)

let lp_ya p =
  snd (fst (fst p))

(** val lp_yb : 'a1 lpiece -> 'a1 **)

let lp_yb p =
  snd (fst p)

(** val lp_xr : 'a1 lpiece -> 'a1 **)

let lp_xr =
  snd

(** val lpieces : 'a1 list -> 'a1 list -> 'a1 list -> 'a1 lpiece list **)

let rec lpieces xs y1s y2s =
  match xs with
  | [] -> []
  | x0 :: xs' ->
    (match xs' with
     | [] -> []
     | x1 :: _ ->
       (match y1s with
        | [] -> []
        | a :: y1' ->
          (match y2s with
           | [] -> []
           | b :: y2' -> (((x0, a), b), x1) :: (lpieces xs' y1' y2'))))

(** val pwl_add_loop :
    'a1 numOps -> nat -> 'a1 lpiece -> 'a1 lpiece list -> 'a1 lpiece -> 'a1
    lpiece list -> (('a1 * 'a1) * 'a1) list * ((('a1 lpiece * 'a1 lpiece
    list) * 'a1 lpiece) * 'a1 lpiece list) **)

let rec pwl_add_loop o0 fuel c1 r1 c2 r2 =
  match fuel with
  | O -> ([], (((c1, r1), c2), r2))
  | S k ->
    (match r1 with
     | [] -> ([], (((c1, r1), c2), r2))
     | n3 :: r1' ->
       (match r2 with
        | [] -> ([], (((c1, r1), c2), r2))
        | n5 :: r2' ->
          let x1 = lp_xr c1 in
          let x2 = lp_xr c2 in
          if o0.nltb x1 x2
          then let y = lp_at o0 c2 x1 in
               let (out, st) = pwl_add_loop o0 k n3 r1' c2 r2 in
               ((((x1, (o0.nadd (lp_yb c1) y)),
               (o0.nadd (lp_ya n3) y)) :: out), st)
          else if o0.nltb x2 x1
               then let y = lp_at o0 c1 x2 in
                    let (out, st) = pwl_add_loop o0 k c1 r1 n5 r2' in
                    ((((x2, (o0.nadd (lp_yb c2) y)),
                    (o0.nadd (lp_ya n5) y)) :: out), st)
               else let (out, st) = pwl_add_loop o0 k n3 r1' n5 r2' in
                    ((((x1, (o0.nadd (lp_yb c1) (lp_yb c2))),
                    (o0.nadd (lp_ya n3) (lp_ya n5))) :: out), st)))

(** val pwl_add_tail :
    'a1 numOps -> 'a1 lpiece -> 'a1 lpiece list -> 'a1 lpiece ->
    (('a1 * 'a1) * 'a1) list **)

let rec pwl_add_tail o0 c r other =
  match r with
  | [] -> []
  | n :: r' ->
    let x = lp_xr c in
    let y = lp_at o0 other x in
    ((x, (o0.nadd (lp_yb c) y)),
    (o0.nadd (lp_ya n) y)) :: (pwl_add_tail o0 n r' other)

(** val pwl_add : 'a1 numOps -> 'a1 pwl -> 'a1 pwl -> 'a1 pwl res **)

let pwl_add o0 f g =
  let (p, y12) = f in
  let (x1, y11) = p in
  let (p0, y22) = g in
  let (x2, y21) = p0 in
  (match lpieces x1 y11 y12 with
   | [] -> Err IndexError
   | c1 :: r1 ->
     (match lpieces x2 y21 y22 with
      | [] -> Err IndexError
      | c2 :: r2 ->
        if negb (o0.neqb (nthF o0 x1 O) (nthF o0 x2 O))
        then Err AssertionError
        else if negb (o0.neqb (lastF o0 x1) (lastF o0 x2))
             then Err AssertionError
             else let (out, p1) =
                    pwl_add_loop o0 (add (length x1) (length x2)) c1 r1 c2 r2
                  in
                  let (p2, s2) = p1 in
                  let (p3, d2) = p2 in
                  let (d1, s1) = p3 in
                  let tail =
                    match s1 with
                    | [] ->
                      (match s2 with
                       | [] -> []
                       | _ :: _ -> pwl_add_tail o0 d2 s2 d1)
                    | _ :: _ -> pwl_add_tail o0 d1 s1 d2
                  in
                  let evs = app out tail in
                  Ok
                  ((((nthF o0 x1 O) :: (app (map (fun e -> fst (fst e)) evs)
                                         ((lastF o0 x1) :: []))),
                  ((o0.nadd (lp_ya c1) (lp_ya c2)) :: (map snd evs))),
                  (app (map (fun e -> snd (fst e)) evs)
                    ((o0.nadd (lastF o0 y12) (lastF o0 y22)) :: [])))))

(** val pwl_mul : 'a1 numOps -> 'a1 pwl -> 'a1 -> 'a1 pwl **)

let pwl_mul o0 f c =
  let (p, y2s) = f in
  let (xs, y1s) = p in
  ((xs, (map (fun y -> o0.nmul y c) y1s)), (map (fun y -> o0.nmul y c) y2s))

type 'f dentry = ('f * 'f) * 'f

(** val d_x : 'a1 dentry -> 'a1 **)

let d_x e =
  fst (fst e)

(** val d_y : 'a1 dentry -> 'a1 **)

let d_y e =
  snd (fst e)

(** val d_mp : 'a1 dentry -> 'a1 **)

let d_mp =
  snd

(** val df_sum : 'a1 numOps -> 'a1 dentry list -> 'a1 * 'a1 **)

let df_sum o0 l =
  ((sumF o0 (map d_y l)), (sumF o0 (map d_mp l)))

(** val df_integral1 :
    'a1 numOps -> 'a1 dentry list -> ('a1 * 'a1) option -> ('a1 * 'a1) res **)

let df_integral1 o0 f = function
| Some p ->
  let (a, b) = p in
  let xs = map d_x f in
  let s = count_le o0 a xs in
  let e = count_lt o0 b xs in
  if negb ((&&) (Nat.ltb O s) (Nat.ltb e (length xs)))
  then Err AssertionError
  else Ok (df_sum o0 (slice f s e))
| None -> Ok (df_sum o0 (removelast (tl f)))

(** val sum_res2 : 'a1 numOps -> ('a1 * 'a1) res list -> ('a1 * 'a1) res **)

let rec sum_res2 o0 = function
| [] -> Ok (o0.n0, o0.n0)
| r :: l' ->
  rbind r (fun a ->
    rmap (fun s -> ((o0.nadd (fst a) (fst s)), (o0.nadd (snd a) (snd s))))
      (sum_res2 o0 l'))

(** val df_integral :
    'a1 numOps -> 'a1 dentry list -> 'a1 ivspec -> ('a1 * 'a1) res **)

let df_integral o0 f = function
| IvNone -> df_integral1 o0 f None
| IvOne (a, b) -> df_integral1 o0 f (Some (a, b))
| IvMany l -> sum_res2 o0 (map (fun p -> df_integral1 o0 f (Some p)) l)

(** val df_avrg :
    'a1 numOps -> 'a1 dentry list -> 'a1 ivspec -> bool -> 'a1 res **)

let df_avrg o0 f iv normalize =
  rmap (fun vm ->
    if normalize
    then if o0.nltb o0.n0 (snd vm) then o0.ndiv (fst vm) (snd vm) else o0.n1
    else fst vm) (df_integral o0 f iv)

(** val df_add_loop :
    'a1 numOps -> nat -> 'a1 dentry list -> 'a1 dentry list -> 'a1 dentry
    list * ('a1 dentry list * 'a1 dentry list) **)

let rec df_add_loop o0 fuel i1 i2 =
  match fuel with
  | O -> ([], (i1, i2))
  | S k ->
    (match i1 with
     | [] -> ([], (i1, i2))
     | e1 :: r1 ->
       (match i2 with
        | [] -> ([], (i1, i2))
        | e2 :: r2 ->
          if o0.nltb (d_x e1) (d_x e2)
          then let (out, st) = df_add_loop o0 k r1 i2 in ((e1 :: out), st)
          else if o0.nltb (d_x e2) (d_x e1)
               then let (out, st) = df_add_loop o0 k i1 r2 in
                    ((e2 :: out), st)
               else let (out, st) = df_add_loop o0 k r1 r2 in
                    (((((d_x e1), (o0.nadd (d_y e1) (d_y e2))),
                    (o0.nadd (d_mp e1) (d_mp e2))) :: out), st)))

(** val df_add :
    'a1 numOps -> 'a1 dentry list -> 'a1 dentry list -> 'a1 dentry list res **)

let df_add o0 f g =
  match f with
  | [] -> Err IndexError
  | f0 :: f' ->
    (match g with
     | [] -> Err IndexError
     | g0 :: g' ->
       (match rev f' with
        | [] -> Err IndexError
        | fl :: _ ->
          (match rev g' with
           | [] -> Err IndexError
           | gl :: _ ->
             if negb (o0.neqb (d_x f0) (d_x g0))
             then Err AssertionError
             else if negb (o0.neqb (d_x fl) (d_x gl))
                  then Err AssertionError
                  else let (out, p) =
                         df_add_loop o0 (add (length f) (length g))
                           (removelast f') (removelast g')
                       in
                       let (r1, r2) = p in
                       let tail =
                         match r1 with
                         | [] ->
                           (match r2 with
                            | [] ->
                              (((d_x fl), (o0.nadd (d_y fl) (d_y gl))),
                                (o0.nadd (d_mp fl) (d_mp gl))) :: []
                            | _ :: _ -> app r2 (gl :: []))
                         | _ :: _ -> app r1 (fl :: [])
                       in
                       let body = app out tail in
                       (match body with
                        | [] -> Err IndexError
                        | b0 :: _ ->
                          Ok ((((d_x f0), (d_y b0)), (d_mp b0)) :: body)))))

(** val df_side :
    'a1 numOps -> 'a1 -> 'a1 -> 'a1 -> 'a1 dentry list -> 'a1 * 'a1 **)

let rec df_side o0 expm y mp_s = function
| [] -> (y, mp_s)
| e :: r ->
  if o0.nltb (o0.nadd mp_s (d_mp e)) expm
  then df_side o0 expm (o0.nadd y (d_y e)) (o0.nadd mp_s (d_mp e)) r
  else ((o0.nadd y (o0.ndiv (o0.nmul (d_y e) (o0.nsub expm mp_s)) (d_mp e))),
         (o0.nadd mp_s (o0.nsub expm mp_s)))

(** val df_plot_loop :
    'a1 numOps -> 'a1 -> 'a1 dentry list -> 'a1 dentry list -> 'a1 list **)

let rec df_plot_loop o0 expm left = function
| [] -> []
| e :: r ->
  let v =
    if o0.nltb (d_mp e) expm
    then let (y1, mp_r) = df_side o0 expm (d_y e) (d_mp e) r in
         let (y2, mp_l) = df_side o0 expm y1 (d_mp e) left in
         o0.ndiv y2 (o0.nsub (o0.nadd mp_l mp_r) (d_mp e))
    else o0.ndiv (d_y e) (d_mp e)
  in
  v :: (df_plot_loop o0 expm (e :: left) r)

(** val df_plottable :
    'a1 numOps -> 'a1 dentry list -> nat -> 'a1 list * 'a1 list **)

let df_plottable o0 f k = match k with
| O -> ((map d_x f), (map (fun e -> o0.ndiv (d_y e) (d_mp e)) f))
| S _ ->
  let mp0 = match f with
            | [] -> o0.n0
            | e :: _ -> d_mp e in
  let expm = o0.nmul (nofnat o0 (add k (S O))) mp0 in
  ((map d_x f), (df_plot_loop o0 expm [] f))

type 'f train = ('f list * 'f) * 'f

(** val tr_spikes : 'a1 train -> 'a1 list **)

let tr_spikes t =
  fst (fst t)

(** val tr_start : 'a1 train -> 'a1 **)

let tr_start t =
  snd (fst t)

(** val tr_end : 'a1 train -> 'a1 **)

let tr_end =
  snd

(** val insert_u : 'a1 numOps -> 'a1 -> 'a1 list -> 'a1 list **)

let rec insert_u o0 x l = match l with
| [] -> x :: []
| y :: r ->
  if o0.nltb x y
  then x :: l
  else if o0.neqb x y then l else y :: (insert_u o0 x r)

(** val sort_unique : 'a1 numOps -> 'a1 list -> 'a1 list **)

let sort_unique o0 l =
  fold_right (insert_u o0) [] l

(** val insert_s : 'a1 numOps -> 'a1 -> 'a1 list -> 'a1 list **)

let rec insert_s o0 x l = match l with
| [] -> x :: []
| y :: r -> if o0.nltb x y then x :: l else y :: (insert_s o0 x r)

(** val sort_list : 'a1 numOps -> 'a1 list -> 'a1 list **)

let sort_list o0 l =
  fold_right (insert_s o0) [] l

(** val min_list : 'a1 numOps -> 'a1 -> 'a1 list -> 'a1 **)

let min_list o0 d l =
  fold_left (nmin o0) l d

(** val max_list : 'a1 numOps -> 'a1 -> 'a1 list -> 'a1 **)

let max_list o0 d l =
  fold_left (nmax o0) l d

(** val reconcile : 'a1 numOps -> 'a1 -> 'a1 train list -> 'a1 train list **)

let reconcile o0 eps0 l = match l with
| [] -> []
| t0 :: r ->
  let tS = min_list o0 (tr_start t0) (map tr_start r) in
  let tE = max_list o0 (tr_end t0) (map tr_end r) in
  map (fun t ->
    (((filter (fun x ->
        (&&) (o0.nltb (o0.nsub tS eps0) x) (o0.nltb x (o0.nadd tE eps0)))
        (sort_unique o0 (tr_spikes t))), tS), tE)) l

(** val spikes_non_empty : 'a1 numOps -> 'a1 train -> 'a1 list **)

let spikes_non_empty o0 t =
  match tr_spikes t with
  | [] -> sort_unique o0 ((tr_start t) :: ((tr_end t) :: []))
  | f :: l -> f :: l

(** val diffs : 'a1 numOps -> 'a1 list -> 'a1 list **)

let rec diffs o0 = function
| [] -> []
| a :: r -> (match r with
             | [] -> []
             | b :: _ -> (o0.nsub b a) :: (diffs o0 r))

(** val isi_lengths : 'a1 numOps -> 'a1 list -> 'a1 -> 'a1 -> 'a1 list **)

let isi_lengths o0 s ts te =
  match s with
  | [] -> (o0.nsub te ts) :: []
  | x0 :: r ->
    let n = length s in
    let xl = last s x0 in
    let xl2 = nth (sub n (S (S O))) s x0 in
    let dels = diffs o0 s in
    app
      (if o0.nltb ts x0
       then (match r with
             | [] -> o0.nsub x0 ts
             | x1 :: _ -> nmax o0 (o0.nsub x0 ts) (o0.nsub x1 x0)) :: []
       else [])
      (app dels
        (if o0.nltb xl te
         then (match r with
               | [] -> o0.nsub te xl
               | _ :: _ -> nmax o0 (o0.nsub te xl) (o0.nsub xl xl2)) :: []
         else []))

(** val default_thresh_sq : 'a1 numOps -> 'a1 train list -> 'a1 **)

let default_thresh_sq o0 l = match l with
| [] -> o0.n0
| t0 :: _ ->
  let pool =
    flat_map (fun t ->
      isi_lengths o0 (tr_spikes t) (tr_start t0) (tr_end t0)) l
  in
  o0.ndiv (sumF o0 (map (fun x -> o0.nmul x x) pool))
    (nofnat o0 (length pool))

(** val prep2 :
    'a1 numOps -> 'a1 -> bool -> 'a1 train -> 'a1 train -> 'a1 train * 'a1
    train **)

let prep2 o0 eps0 rc a b =
  if rc
  then (match reconcile o0 eps0 (a :: (b :: [])) with
        | [] -> (a, b)
        | a' :: l ->
          (match l with
           | [] -> (a, b)
           | b' :: l0 -> (match l0 with
                          | [] -> (a', b')
                          | _ :: _ -> (a, b))))
  else (a, b)

(** val isi_profile_bi :
    'a1 numOps -> 'a1 -> bool -> bool -> 'a1 -> 'a1 train -> 'a1 train -> 'a1
    pwc **)

let isi_profile_bi o0 eps0 cy rc m a b =
  let (a0, b0) = prep2 o0 eps0 rc a b in
  if cy
  then isi_profile_cy o0 (spikes_non_empty o0 a0) (spikes_non_empty o0 b0)
         (tr_start a0) (tr_end a0) m
  else isi_profile_py o0 (spikes_non_empty o0 a0) (spikes_non_empty o0 b0)
         (tr_start a0) (tr_end a0) m

(** val spike_profile_bi :
    'a1 numOps -> 'a1 -> bool -> bool -> 'a1 -> bool -> 'a1 train -> 'a1
    train -> 'a1 pwl **)

let spike_profile_bi o0 eps0 cy rc m ri a b =
  let (a0, b0) = prep2 o0 eps0 rc a b in
  if cy
  then spike_profile_cy o0 (spikes_non_empty o0 a0) (spikes_non_empty o0 b0)
         (tr_start a0) (tr_end a0) m ri
  else spike_profile_py o0 (spikes_non_empty o0 a0) (spikes_non_empty o0 b0)
         (tr_start a0) (tr_end a0) m ri

(** val gt_of :
    'a1 numOps -> bool -> 'a1 ctx option -> 'a1 ctx option -> 'a1 -> 'a1 ->
    'a1 **)

let gt_of o0 = function
| true -> get_tau_cy o0
| false -> get_tau o0

(** val spike_sync_profile_bi :
    'a1 numOps -> 'a1 -> bool -> bool -> 'a1 -> 'a1 -> 'a1 train -> 'a1 train
    -> 'a1 dentry list **)

let spike_sync_profile_bi o0 eps0 cy rc mt m a b =
  let (a0, b0) = prep2 o0 eps0 rc a b in
  coincidence_profile_gen o0 (gt_of o0 cy) (tr_spikes a0) (tr_spikes b0)
    (tr_start a0) (tr_end a0) mt m

(** val order_profile_bi :
    'a1 numOps -> 'a1 -> bool -> bool -> 'a1 -> 'a1 -> 'a1 train -> 'a1 train
    -> 'a1 dentry list res **)

let order_profile_bi o0 eps0 cy rc mt m a b =
  let (a0, b0) = prep2 o0 eps0 rc a b in
  if (||) (negb (o0.neqb (tr_start a0) (tr_start b0)))
       (negb (o0.neqb (tr_end a0) (tr_end b0)))
  then Err AssertionError
  else Ok
         (order_profile_gen o0 (gt_of o0 cy) (tr_spikes a0) (tr_spikes b0)
           (tr_start a0) (tr_end a0) mt m)

(** val iv_of : ('a1 * 'a1) option -> 'a1 ivspec **)

let iv_of = function
| Some p -> let (a, b) = p in IvOne (a, b)
| None -> IvNone

(** val isi_distance_bi :
    'a1 numOps -> 'a1 -> bool -> bool -> 'a1 -> ('a1 * 'a1) option -> 'a1
    train -> 'a1 train -> 'a1 res **)

let isi_distance_bi o0 eps0 cy rc m iv a b =
  let (a0, b0) = prep2 o0 eps0 rc a b in
  (match iv with
   | Some _ ->
     pwc_avrg o0 (isi_profile_bi o0 eps0 cy false m a0 b0) (iv_of iv)
   | None ->
     if cy
     then Ok
            (isi_distance_cy o0 (spikes_non_empty o0 a0)
              (spikes_non_empty o0 b0) (tr_start a0) (tr_end a0) m)
     else pwc_avrg o0 (isi_profile_bi o0 eps0 cy false m a0 b0) (iv_of iv))

(** val spike_distance_bi :
    'a1 numOps -> 'a1 -> bool -> bool -> 'a1 -> bool -> ('a1 * 'a1) option ->
    'a1 train -> 'a1 train -> 'a1 res **)

let spike_distance_bi o0 eps0 cy rc m ri iv a b =
  let (a0, b0) = prep2 o0 eps0 rc a b in
  (match iv with
   | Some _ ->
     pwl_avrg o0 (spike_profile_bi o0 eps0 cy false m ri a0 b0) (iv_of iv)
   | None ->
     if cy
     then Ok
            (spike_distance_cy o0 (spikes_non_empty o0 a0)
              (spikes_non_empty o0 b0) (tr_start a0) (tr_end a0) m ri)
     else pwl_avrg o0 (spike_profile_bi o0 eps0 cy false m ri a0 b0)
            (iv_of iv))

(** val spike_sync_values :
    'a1 numOps -> 'a1 -> bool -> 'a1 -> 'a1 -> ('a1 * 'a1) option -> 'a1
    train -> 'a1 train -> ('a1 * 'a1) res **)

let spike_sync_values o0 eps0 cy mt m iv a b =
  match iv with
  | Some _ ->
    df_integral o0 (spike_sync_profile_bi o0 eps0 cy false mt m a b)
      (iv_of iv)
  | None ->
    if cy
    then Ok
           (coincidence_value_gen o0 (gt_of o0 cy) (tr_spikes a)
             (tr_spikes b) (tr_start a) (tr_end a) mt m)
    else df_integral o0 (spike_sync_profile_bi o0 eps0 cy false mt m a b)
           (iv_of iv)

(** val spike_sync_bi :
    'a1 numOps -> 'a1 -> bool -> bool -> 'a1 -> 'a1 -> ('a1 * 'a1) option ->
    'a1 train -> 'a1 train -> 'a1 res **)

let spike_sync_bi o0 eps0 cy rc mt m iv a b =
  let (a0, b0) = prep2 o0 eps0 rc a b in
  rmap (fun cm ->
    if o0.neqb (snd cm) o0.n0 then o0.n1 else o0.ndiv (fst cm) (snd cm))
    (spike_sync_values o0 eps0 cy mt m iv a0 b0)

(** val pairs_of : nat list -> (nat * nat) list **)

let rec pairs_of = function
| [] -> []
| i :: r -> app (map (fun j -> (i, j)) r) (pairs_of r)

(** val check_indices : nat -> nat list -> bool **)

let check_indices n idx =
  forallb (fun i -> Nat.ltb i n) idx

(** val indices_or_all : nat -> nat list option -> nat list **)

let indices_or_all n = function
| Some l -> l
| None -> seq O n

(** val dc :
    ('a1 -> 'a1 -> 'a1 res) -> ((nat * nat) -> 'a1 res) -> nat -> (nat * nat)
    list -> 'a1 res **)

let rec dc padd pf fuel ps =
  match fuel with
  | O -> Err OutOfFuel
  | S k ->
    (match ps with
     | [] -> Err IndexError
     | p :: l ->
       (match l with
        | [] -> pf p
        | _ :: _ ->
          let h = Nat.div2 (length ps) in
          rbind (dc padd pf k (firstn h ps)) (fun d1 ->
            rbind (dc padd pf k (skipn h ps)) (fun d2 -> padd d1 d2))))

(** val nth_train : 'a1 numOps -> 'a1 train list -> nat -> 'a1 train **)

let nth_train o0 l i =
  nth i l (([], o0.n0), o0.n0)

(** val profile_multi_gen :
    'a1 numOps -> 'a1 -> ('a2 -> 'a2 -> 'a2 res) -> ('a1 train -> 'a1 train
    -> 'a2 res) -> bool -> 'a1 train list -> nat list option -> ('a2 * nat)
    res **)

let profile_multi_gen o0 eps0 padd bi rc l idx =
  let l0 = if rc then reconcile o0 eps0 l else l in
  let ix = indices_or_all (length l0) idx in
  if negb (check_indices (length l0) ix)
  then Err AssertionError
  else let ps = pairs_of ix in
       rmap (fun p -> (p, (length ps)))
         (dc padd (fun p ->
           bi (nth_train o0 l0 (fst p)) (nth_train o0 l0 (snd p))) (S
           (length ps)) ps)

(** val isi_profile_multi :
    'a1 numOps -> 'a1 -> bool -> bool -> 'a1 -> 'a1 train list -> nat list
    option -> 'a1 pwc res **)

let isi_profile_multi o0 eps0 cy rc m l idx =
  rmap (fun pn -> pwc_mul o0 (fst pn) (o0.ndiv o0.n1 (nofnat o0 (snd pn))))
    (profile_multi_gen o0 eps0 (pwc_add o0) (fun a b -> Ok
      (isi_profile_bi o0 eps0 cy false m a b)) rc l idx)

(** val spike_profile_multi :
    'a1 numOps -> 'a1 -> bool -> bool -> 'a1 -> bool -> 'a1 train list -> nat
    list option -> 'a1 pwl res **)

let spike_profile_multi o0 eps0 cy rc m ri l idx =
  rmap (fun pn -> pwl_mul o0 (fst pn) (o0.ndiv o0.n1 (nofnat o0 (snd pn))))
    (profile_multi_gen o0 eps0 (pwl_add o0) (fun a b -> Ok
      (spike_profile_bi o0 eps0 cy false m ri a b)) rc l idx)

(** val spike_sync_profile_multi :
    'a1 numOps -> 'a1 -> bool -> bool -> 'a1 -> 'a1 -> 'a1 train list -> nat
    list option -> 'a1 dentry list res **)

let spike_sync_profile_multi o0 eps0 cy rc mt m l idx =
  rmap fst
    (profile_multi_gen o0 eps0 (df_add o0) (fun a b -> Ok
      (spike_sync_profile_bi o0 eps0 cy false mt m a b)) rc l idx)

(** val order_profile_multi :
    'a1 numOps -> 'a1 -> bool -> bool -> 'a1 -> 'a1 -> 'a1 train list -> nat
    list option -> 'a1 dentry list res **)

let order_profile_multi o0 eps0 cy rc mt m l idx =
  rmap fst
    (profile_multi_gen o0 eps0 (df_add o0) (fun a b ->
      order_profile_bi o0 eps0 cy false mt m a b) rc l idx)

(** val distance_multi_gen :
    'a1 numOps -> 'a1 -> ('a1 train -> 'a1 train -> 'a1 res) -> bool -> 'a1
    train list -> nat list option -> 'a1 res **)

let distance_multi_gen o0 eps0 bi rc l idx =
  let l0 = if rc then reconcile o0 eps0 l else l in
  let ix = indices_or_all (length l0) idx in
  if negb (check_indices (length l0) ix)
  then Err AssertionError
  else let ps = pairs_of ix in
       rmap (fun s -> o0.ndiv s (nofnat o0 (length ps)))
         (fold_left (fun acc p ->
           rbind acc (fun a ->
             rmap (fun d -> o0.nadd a d)
               (bi (nth_train o0 l0 (fst p)) (nth_train o0 l0 (snd p))))) ps
           (Ok o0.n0))

(** val isi_distance_multi :
    'a1 numOps -> 'a1 -> bool -> bool -> 'a1 -> ('a1 * 'a1) option -> 'a1
    train list -> nat list option -> 'a1 res **)

let isi_distance_multi o0 eps0 cy rc m iv l idx =
  distance_multi_gen o0 eps0 (isi_distance_bi o0 eps0 cy false m iv) rc l idx

(** val spike_distance_multi :
    'a1 numOps -> 'a1 -> bool -> bool -> 'a1 -> bool -> ('a1 * 'a1) option ->
    'a1 train list -> nat list option -> 'a1 res **)

let spike_distance_multi o0 eps0 cy rc m ri iv l idx =
  distance_multi_gen o0 eps0 (spike_distance_bi o0 eps0 cy false m ri iv) rc
    l idx

(** val matrix_gen :
    'a1 numOps -> 'a1 -> ('a1 train -> 'a1 train -> 'a1 res) -> 'a1 -> ('a1
    -> 'a1) -> bool -> 'a1 train list -> nat list option -> 'a1 list list res **)

let matrix_gen o0 eps0 bi diag sym rc l idx =
  let l0 = if rc then reconcile o0 eps0 l else l in
  let ix = indices_or_all (length l0) idx in
  if negb (check_indices (length l0) ix)
  then Err AssertionError
  else let n = length ix in
       let entry = fun i j ->
         if Nat.eqb i j
         then Ok diag
         else if Nat.ltb i j
              then bi (nth_train o0 l0 (nth i ix O))
                     (nth_train o0 l0 (nth j ix O))
              else rmap sym
                     (bi (nth_train o0 l0 (nth j ix O))
                       (nth_train o0 l0 (nth i ix O)))
       in
       let row = fun i ->
         fold_right (fun j acc ->
           rbind (entry i j) (fun e -> rmap (fun x -> e :: x) acc)) (Ok [])
           (seq O n)
       in
       fold_right (fun i acc ->
         rbind (row i) (fun r -> rmap (fun x -> r :: x) acc)) (Ok [])
         (seq O n)

(** val isi_distance_matrix :
    'a1 numOps -> 'a1 -> bool -> bool -> 'a1 -> ('a1 * 'a1) option -> 'a1
    train list -> nat list option -> 'a1 list list res **)

let isi_distance_matrix o0 eps0 cy rc m iv l idx =
  matrix_gen o0 eps0 (isi_distance_bi o0 eps0 cy false m iv) o0.n0 (fun x ->
    x) rc l idx

(** val spike_distance_matrix :
    'a1 numOps -> 'a1 -> bool -> bool -> 'a1 -> bool -> ('a1 * 'a1) option ->
    'a1 train list -> nat list option -> 'a1 list list res **)

let spike_distance_matrix o0 eps0 cy rc m ri iv l idx =
  matrix_gen o0 eps0 (spike_distance_bi o0 eps0 cy false m ri iv) o0.n0
    (fun x -> x) rc l idx

(** val spike_sync_matrix :
    'a1 numOps -> 'a1 -> bool -> bool -> 'a1 -> 'a1 -> ('a1 * 'a1) option ->
    'a1 train list -> nat list option -> 'a1 list list res **)

let spike_sync_matrix o0 eps0 cy rc mt m iv l idx =
  matrix_gen o0 eps0 (spike_sync_bi o0 eps0 cy false mt m iv) o0.n1 (fun x ->
    x) rc l idx

(** val spike_sync_multi :
    'a1 numOps -> 'a1 -> bool -> bool -> 'a1 -> 'a1 -> ('a1 * 'a1) option ->
    'a1 train list -> nat list option -> 'a1 res **)

let spike_sync_multi o0 eps0 cy rc mt m iv l idx =
  let l0 = if rc then reconcile o0 eps0 l else l in
  let ix = indices_or_all (length l0) idx in
  if negb (check_indices (length l0) ix)
  then Err AssertionError
  else let ps = pairs_of ix in
       rmap (fun cm ->
         if o0.neqb (snd cm) o0.n0 then o0.n1 else o0.ndiv (fst cm) (snd cm))
         (fold_left (fun acc p ->
           rbind acc (fun a ->
             rmap (fun d -> ((o0.nadd (fst a) (fst d)),
               (o0.nadd (snd a) (snd d))))
               (spike_sync_values o0 eps0 cy mt m iv
                 (nth_train o0 l0 (fst p)) (nth_train o0 l0 (snd p))))) ps
           (Ok (o0.n0, o0.n0)))

(** val sumlists : 'a1 numOps -> 'a1 list list -> nat -> 'a1 list **)

let sumlists o0 l n =
  fold_left (fun acc c ->
    map (fun p -> o0.nadd (fst p) (snd p)) (combine acc c)) l (repeat o0.n0 n)

(** val others : 'a1 list -> nat -> 'a1 list **)

let others l i =
  app (firstn i l) (skipn (S i) l)

(** val filter_by_spike_sync :
    'a1 numOps -> 'a1 -> bool -> bool -> 'a1 -> 'a1 -> 'a1 -> 'a1 train list
    -> ('a1 train * 'a1 train) list **)

let filter_by_spike_sync o0 eps0 cy rc mt m thr l =
  let l0 = if rc then reconcile o0 eps0 l else l in
  let n = length l0 in
  map (fun i ->
    let st = nth_train o0 l0 i in
    let cs =
      map (fun t ->
        coincidence_single_gen o0 (gt_of o0 cy) (tr_spikes st) (tr_spikes t)
          (tr_start st) (tr_end st) mt m) (others l0 i)
    in
    let c = sumlists o0 cs (length (tr_spikes st)) in
    let lim = o0.nmul thr (nofnat o0 (sub n (S O))) in
    let tagged = combine (tr_spikes st) c in
    ((((map fst (filter (fun p -> o0.nltb lim (snd p)) tagged)),
    (tr_start st)), (tr_end st)),
    (((map fst (filter (fun p -> nleb o0 (snd p) lim) tagged)),
    (tr_start st)), (tr_end st)))) (seq O n)

(** val order_impl :
    'a1 numOps -> 'a1 -> bool -> 'a1 -> 'a1 -> 'a1 train -> 'a1 train ->
    ('a1 * 'a1) res **)

let order_impl o0 eps0 cy mt m a b =
  if cy
  then Ok
         (order_value o0
           (coinc_scan o0
             (tau_fn o0 (gt_of o0 cy) (tr_start a) (tr_end a) mt m)
             (tr_spikes a) (tr_spikes b)) o0.n0 o0.n0)
  else rbind (order_profile_bi o0 eps0 cy true mt m a b) (fun p ->
         df_integral o0 p IvNone)

(** val spike_train_order_bi :
    'a1 numOps -> 'a1 -> bool -> bool -> bool -> 'a1 -> 'a1 -> 'a1 train ->
    'a1 train -> 'a1 res **)

let spike_train_order_bi o0 eps0 cy rc normalize mt m a b =
  let (a0, b0) = prep2 o0 eps0 rc a b in
  rmap (fun cm ->
    if normalize
    then if o0.neqb (snd cm) o0.n0 then o0.n1 else o0.ndiv (fst cm) (snd cm)
    else fst cm) (order_impl o0 eps0 cy mt m a0 b0)

(** val spike_train_order_multi :
    'a1 numOps -> 'a1 -> bool -> bool -> bool -> 'a1 -> 'a1 -> 'a1 train list
    -> nat list option -> 'a1 res **)

let spike_train_order_multi o0 eps0 cy rc normalize mt m l idx =
  let l0 = if rc then reconcile o0 eps0 l else l in
  let ix = indices_or_all (length l0) idx in
  if negb (check_indices (length l0) ix)
  then Err AssertionError
  else let ps = pairs_of ix in
       rmap (fun cm ->
         if normalize
         then if o0.neqb (snd cm) o0.n0
              then o0.n1
              else o0.ndiv (fst cm) (snd cm)
         else fst cm)
         (fold_left (fun acc p ->
           rbind acc (fun a ->
             rmap (fun d -> ((o0.nadd (fst a) (fst d)),
               (o0.nadd (snd a) (snd d))))
               (order_impl o0 eps0 cy mt m (nth_train o0 l0 (fst p))
                 (nth_train o0 l0 (snd p))))) ps (Ok (o0.n0, o0.n0)))

(** val add_at :
    'a1 numOps -> nat -> 'a1 list -> 'a1 list list -> 'a1 list list **)

let add_at o0 i d ls =
  map (fun p ->
    if Nat.eqb (fst p) i
    then map (fun q0 -> o0.nadd (fst q0) (snd q0)) (combine (snd p) d)
    else snd p) (combine (seq O (length ls)) ls)

(** val directionality_values :
    'a1 numOps -> 'a1 -> bool -> bool -> 'a1 -> 'a1 -> 'a1 train list -> nat
    list option -> 'a1 list list res **)

let directionality_values o0 eps0 cy rc mt m l idx =
  let l0 = if rc then reconcile o0 eps0 l else l in
  let ix = indices_or_all (length l0) idx in
  if negb (check_indices (length l0) ix)
  then Err AssertionError
  else let k = length ix in
       let tr = fun p -> nth_train o0 l0 (nth p ix O) in
       let init =
         map (fun p -> repeat o0.n0 (length (tr_spikes (tr p)))) (seq O k)
       in
       let acc =
         fold_left (fun acc pq ->
           let a = tr (fst pq) in
           let b = tr (snd pq) in
           let (d1, d2) =
             directionality_profile_gen o0 (gt_of o0 cy) (tr_spikes a)
               (tr_spikes b) (tr_start a) (tr_end a) mt m
           in
           add_at o0 (snd pq) d2 (add_at o0 (fst pq) d1 acc))
           (pairs_of (seq O k)) init
       in
       Ok (map (map (fun v -> o0.ndiv v (nofnat o0 (sub k (S O))))) acc)

(** val spike_directionality :
    'a1 numOps -> 'a1 -> bool -> bool -> bool -> 'a1 -> 'a1 -> 'a1 train ->
    'a1 train -> 'a1 res **)

let spike_directionality o0 eps0 cy rc normalize mt m a b =
  let (a0, b0) = prep2 o0 eps0 rc a b in
  let d =
    if cy
    then dir_value o0
           (coinc_scan o0
             (tau_fn o0 (gt_of o0 cy) (tr_start a0) (tr_end a0) mt m)
             (tr_spikes a0) (tr_spikes b0)) o0.n0
    else sumF o0
           (fst
             (directionality_profile_gen o0 (gt_of o0 cy) (tr_spikes a0)
               (tr_spikes b0) (tr_start a0) (tr_end a0) mt m))
  in
  let c = nofnat o0 (length (tr_spikes a0)) in
  Ok (if normalize then if o0.neqb c o0.n0 then o0.n0 else o0.ndiv d c else d)

(** val spike_directionality_matrix :
    'a1 numOps -> 'a1 -> bool -> bool -> bool -> 'a1 -> 'a1 -> 'a1 train list
    -> nat list option -> 'a1 list list res **)

let spike_directionality_matrix o0 eps0 cy rc normalize mt m l idx =
  matrix_gen o0 eps0 (spike_directionality o0 eps0 cy false normalize mt m)
    o0.n0 (fun x -> o0.nsub o0.n0 x) rc l idx

(** val merge_spike_trains : 'a1 numOps -> 'a1 train list -> 'a1 train **)

let merge_spike_trains o0 l = match l with
| [] -> (([], o0.n0), o0.n0)
| t0 :: _ ->
  (((sort_list o0 (flat_map tr_spikes l)), (tr_start t0)), (tr_end t0))

(** val time_series_row :
    'a1 numOps -> 'a1 -> 'a1 -> bool list -> 'a1 train **)

let time_series_row o0 start bin row =
  let n = length row in
  let tp = fun k -> o0.nadd (o0.nadd start bin) (o0.nmul (nofnat o0 k) bin) in
  (((map tp (map fst (filter snd (combine (seq O n) row)))), start),
  (tp (sub n (S O))))

(** val hist_counts : 'a1 numOps -> 'a1 list -> 'a1 list -> 'a1 list **)

let rec hist_counts o0 edges xs =
  match edges with
  | [] -> []
  | a :: es' ->
    (match es' with
     | [] -> []
     | b :: r ->
       let inbin = fun x ->
         (&&) (nleb o0 a x)
           (match r with
            | [] -> nleb o0 x b
            | _ :: _ -> o0.nltb x b)
       in
       (nofnat o0 (length (filter inbin xs))) :: (hist_counts o0 es' xs))

(** val upd : 'a1 list -> nat -> 'a1 -> 'a1 list **)

let rec upd l i a =
  match l with
  | [] -> []
  | b :: r -> (match i with
               | O -> a :: r
               | S k -> b :: (upd r k a))

type obj = { rx : nat; ry : nat }

type 'f op =
| OAdd of nat * nat
| OMul of nat * 'f
| OCopy of nat
| ONew of 'f list * 'f list

type 'f store = 'f list option list

type 'f state = { st_store : 'f store; st_objs : obj list; st_errs : err list }

(** val empty_state : 'a1 state **)

let empty_state =
  { st_store = []; st_objs = []; st_errs = [] }

(** val alloc : 'a1 store -> 'a1 list -> 'a1 store * nat **)

let alloc st a =
  ((app st ((Some a) :: [])), (length st))

(** val sread : 'a1 store -> nat -> 'a1 list option **)

let sread st r =
  match nth_error st r with
  | Some o0 -> o0
  | None -> None

(** val swrite : 'a1 store -> nat -> 'a1 list -> 'a1 store **)

let swrite st r a =
  upd st r (Some a)

(** val read_obj : 'a1 store -> obj -> 'a1 pwc option **)

let read_obj st ob =
  match sread st ob.rx with
  | Some xs ->
    (match sread st ob.ry with
     | Some ys -> Some (xs, ys)
     | None -> None)
  | None -> None

(** val denote : 'a1 state -> nat -> 'a1 pwc option **)

let denote s k =
  match nth_error s.st_objs k with
  | Some ob -> read_obj s.st_store ob
  | None -> None

(** val fail : 'a1 state -> err -> 'a1 state **)

let fail s e =
  { st_store = s.st_store; st_objs = s.st_objs; st_errs =
    (app s.st_errs (e :: [])) }

(** val alloc2 : 'a1 store -> 'a1 list -> 'a1 list -> 'a1 store * obj **)

let alloc2 st xs ys =
  let (st1, r1) = alloc st xs in
  let (st2, r2) = alloc st1 ys in (st2, { rx = r1; ry = r2 })

(** val new_obj : 'a1 state -> 'a1 list -> 'a1 list -> 'a1 state **)

let new_obj s xs ys =
  let (st, ob) = alloc2 s.st_store xs ys in
  { st_store = st; st_objs = (app s.st_objs (ob :: [])); st_errs = s.st_errs }

(** val step : 'a1 numOps -> 'a1 op -> 'a1 state -> 'a1 state **)

let step o0 p s =
  match p with
  | OAdd (i, j) ->
    (match denote s i with
     | Some f ->
       (match denote s j with
        | Some g ->
          (match pwc_add o0 f g with
           | Ok a ->
             let (xs, ys) = a in
             let (st, ob) = alloc2 s.st_store xs ys in
             { st_store = st; st_objs = (upd s.st_objs i ob); st_errs =
             s.st_errs }
           | Err e -> fail s e)
        | None -> fail s BadArgs)
     | None -> fail s BadArgs)
  | OMul (i, c) ->
    (match nth_error s.st_objs i with
     | Some ob ->
       (match sread s.st_store ob.ry with
        | Some ys ->
          { st_store =
            (swrite s.st_store ob.ry (map (fun y -> o0.nmul y c) ys));
            st_objs = s.st_objs; st_errs = s.st_errs }
        | None -> fail s BadArgs)
     | None -> fail s BadArgs)
  | OCopy i ->
    (match denote s i with
     | Some p0 -> let (xs, ys) = p0 in new_obj s xs ys
     | None -> fail s BadArgs)
  | ONew (xs, ys) -> new_obj s xs ys

(** val run : 'a1 numOps -> 'a1 op list -> 'a1 state -> 'a1 state **)

let run o0 ops s =
  fold_left (fun s0 p -> step o0 p s0) ops s

type val0 =
| VQ of q
| VN of nat
| VB of bool
| VL of val0 list
| VE of err
| VNone

(** val asQ : val0 -> q option **)

let asQ = function
| VQ q0 -> Some q0
| _ -> None

(** val asN : val0 -> nat option **)

let asN = function
| VN n -> Some n
| _ -> None

(** val all_some : 'a1 option list -> 'a1 list option **)

let rec all_some = function
| [] -> Some []
| o0 :: r ->
  (match o0 with
   | Some a ->
     (match all_some r with
      | Some r' -> Some (a :: r')
      | None -> None)
   | None -> None)

(** val asQs : val0 -> q list option **)

let asQs = function
| VL l -> all_some (map asQ l)
| _ -> None

(** val asQss : val0 -> q list list option **)

let asQss = function
| VL l -> all_some (map asQs l)
| _ -> None

(** val asNs : val0 -> nat list option **)

let asNs = function
| VL l -> all_some (map asN l)
| _ -> None

(** val asBs : val0 -> bool list option **)

let asBs = function
| VL l -> all_some (map (fun x -> match x with
                                  | VB b -> Some b
                                  | _ -> None) l)
| _ -> None

(** val asTrain : val0 -> ((q list * q) * q) option **)

let asTrain = function
| VL l ->
  (match l with
   | [] -> None
   | s :: l0 ->
     (match l0 with
      | [] -> None
      | v0 :: l1 ->
        (match v0 with
         | VQ ts ->
           (match l1 with
            | [] -> None
            | v1 :: l2 ->
              (match v1 with
               | VQ te ->
                 (match l2 with
                  | [] ->
                    (match asQs s with
                     | Some l3 -> Some ((l3, ts), te)
                     | None -> None)
                  | _ :: _ -> None)
               | _ -> None))
         | _ -> None)))
| _ -> None

(** val asTrains : val0 -> ((q list * q) * q) list option **)

let asTrains = function
| VL l -> all_some (map asTrain l)
| _ -> None

(** val asIdx : val0 -> nat list option option **)

let asIdx v = match v with
| VNone -> Some None
| _ -> (match asNs v with
        | Some l -> Some (Some l)
        | None -> None)

(** val asIv : val0 -> (q * q) option option **)

let asIv = function
| VL l ->
  (match l with
   | [] -> None
   | v0 :: l0 ->
     (match v0 with
      | VQ a ->
        (match l0 with
         | [] -> None
         | v1 :: l1 ->
           (match v1 with
            | VQ b ->
              (match l1 with
               | [] -> Some (Some (a, b))
               | _ :: _ -> None)
            | _ -> None))
      | _ -> None))
| VNone -> Some None
| _ -> None

(** val asPair : val0 -> (q * q) option **)

let asPair = function
| VL l ->
  (match l with
   | [] -> None
   | v0 :: l0 ->
     (match v0 with
      | VQ a ->
        (match l0 with
         | [] -> None
         | v1 :: l1 ->
           (match v1 with
            | VQ b -> (match l1 with
                       | [] -> Some (a, b)
                       | _ :: _ -> None)
            | _ -> None))
      | _ -> None))
| _ -> None

(** val asIvspec : val0 -> q ivspec option **)

let asIvspec = function
| VL l ->
  (match l with
   | [] ->
     (match all_some (map asPair l) with
      | Some ps -> Some (IvMany ps)
      | None -> None)
   | v0 :: l0 ->
     (match v0 with
      | VQ a ->
        (match l0 with
         | [] ->
           (match all_some (map asPair l) with
            | Some ps -> Some (IvMany ps)
            | None -> None)
         | v1 :: l1 ->
           (match v1 with
            | VQ b ->
              (match l1 with
               | [] -> Some (IvOne (a, b))
               | _ :: _ ->
                 (match all_some (map asPair l) with
                  | Some ps -> Some (IvMany ps)
                  | None -> None))
            | _ ->
              (match all_some (map asPair l) with
               | Some ps -> Some (IvMany ps)
               | None -> None)))
      | _ ->
        (match all_some (map asPair l) with
         | Some ps -> Some (IvMany ps)
         | None -> None)))
| VNone -> Some IvNone
| _ -> None

(** val asCtx : val0 -> q ctx option option **)

let asCtx = function
| VL l ->
  (match l with
   | [] -> None
   | p :: l0 ->
     (match l0 with
      | [] -> None
      | v0 :: l1 ->
        (match v0 with
         | VQ c ->
           (match l1 with
            | [] -> None
            | n :: l2 ->
              (match l2 with
               | [] ->
                 let f = fun x -> match x with
                                  | VQ q0 -> Some q0
                                  | _ -> None in
                 Some (Some { c_prev = (f p); c_cur = c; c_next = (f n) })
               | _ :: _ -> None))
         | _ -> None)))
| VNone -> Some None
| _ -> None

(** val asEntries : val0 -> val0 -> val0 -> ((q * q) * q) list option **)

let asEntries x y mp =
  match asQs x with
  | Some xs ->
    (match asQs y with
     | Some ys ->
       (match asQs mp with
        | Some ms ->
          if (&&) (Nat.eqb (length xs) (length ys))
               (Nat.eqb (length xs) (length ms))
          then Some (combine (combine xs ys) ms)
          else None
        | None -> None)
     | None -> None)
  | None -> None

(** val encQs : q list -> val0 **)

let encQs l =
  VL (map (fun x -> VQ x) l)

(** val encPwc : (q list * q list) -> val0 **)

let encPwc f =
  VL ((encQs (fst f)) :: ((encQs (snd f)) :: []))

(** val encPwl : ((q list * q list) * q list) -> val0 **)

let encPwl f =
  VL
    ((encQs (fst (fst f))) :: ((encQs (snd (fst f))) :: ((encQs (snd f)) :: [])))

(** val encDf : ((q * q) * q) list -> val0 **)

let encDf f =
  VL
    ((encQs (map (fun e -> fst (fst e)) f)) :: ((encQs
                                                  (map (fun e -> snd (fst e))
                                                    f)) :: ((encQs
                                                              (map snd f)) :: [])))

(** val encRes : ('a1 -> val0) -> 'a1 res -> val0 **)

let encRes enc = function
| Ok a -> enc a
| Err e -> VE e

(** val encTrain : ((q list * q) * q) -> val0 **)

let encTrain t =
  VL ((encQs (fst (fst t))) :: ((VQ (snd (fst t))) :: ((VQ (snd t)) :: [])))

(** val encMatrix : q list list -> val0 **)

let encMatrix m =
  VL (map encQs m)

(** val encPairQ : (q * q) -> val0 **)

let encPairQ p =
  VL ((VQ (fst p)) :: ((VQ (snd p)) :: []))

(** val asStrs : val0 -> nat list list option **)

let asStrs = function
| VL l -> all_some (map asNs l)
| _ -> None

(** val asStrsL : val0 -> nat list list list option **)

let asStrsL = function
| VL l -> all_some (map asStrs l)
| _ -> None

(** val encStr : nat list -> val0 **)

let encStr s =
  VL (map (fun x -> VN x) s)

(** val asPwc : val0 -> (q list * q list) option **)

let asPwc = function
| VL l ->
  (match l with
   | [] -> None
   | x :: l0 ->
     (match l0 with
      | [] -> None
      | y :: l1 ->
        (match l1 with
         | [] ->
           (match asQs x with
            | Some a ->
              (match asQs y with
               | Some b -> Some (a, b)
               | None -> None)
            | None -> None)
         | _ :: _ -> None)))
| _ -> None

(** val asPwcs : val0 -> (q list * q list) list option **)

let asPwcs = function
| VL l -> all_some (map asPwc l)
| _ -> None

(** val asOp : val0 -> q op option **)

let asOp = function
| VL l ->
  (match l with
   | [] -> None
   | v0 :: l0 ->
     (match v0 with
      | VN n ->
        (match n with
         | O ->
           (match l0 with
            | [] -> None
            | v1 :: l1 ->
              (match v1 with
               | VN i ->
                 (match l1 with
                  | [] -> None
                  | v2 :: l2 ->
                    (match v2 with
                     | VN j ->
                       (match l2 with
                        | [] -> Some (OAdd (i, j))
                        | _ :: _ -> None)
                     | _ -> None))
               | _ -> None))
         | S n3 ->
           (match n3 with
            | O ->
              (match l0 with
               | [] -> None
               | v1 :: l1 ->
                 (match v1 with
                  | VN i ->
                    (match l1 with
                     | [] -> None
                     | v2 :: l2 ->
                       (match v2 with
                        | VQ c ->
                          (match l2 with
                           | [] -> Some (OMul (i, c))
                           | _ :: _ -> None)
                        | _ -> None))
                  | _ -> None))
            | S n5 ->
              (match n5 with
               | O ->
                 (match l0 with
                  | [] -> None
                  | v1 :: l1 ->
                    (match v1 with
                     | VN i ->
                       (match l1 with
                        | [] -> Some (OCopy i)
                        | _ :: _ -> None)
                     | _ -> None))
               | S _ -> None)))
      | _ -> None))
| _ -> None

(** val asOps : val0 -> q op list option **)

let asOps = function
| VL l -> all_some (map asOp l)
| _ -> None

(** val is_empty : 'a1 list -> bool **)

let is_empty = function
| [] -> true
| _ :: _ -> false

(** val starts_with : nat list -> nat list -> bool **)

let rec starts_with p s =
  match p with
  | [] -> true
  | a :: p' ->
    (match s with
     | [] -> false
     | b :: s' -> (&&) (Nat.eqb a b) (starts_with p' s'))

(** val join : nat list -> nat list list -> nat list **)

let rec join sep = function
| [] -> []
| t :: r -> (match r with
             | [] -> t
             | _ :: _ -> app t (app sep (join sep r)))

(** val split_go :
    nat list -> nat -> nat list -> nat list -> nat list list **)

let rec split_go sep skip cur s = match s with
| [] -> (rev cur) :: []
| c :: r ->
  (match skip with
   | O ->
     if starts_with sep s
     then (rev cur) :: (split_go sep (sub (length sep) (S O)) [] r)
     else split_go sep O (c :: cur) r
   | S k -> split_go sep k cur r)

(** val split : nat list -> nat list -> nat list list **)

let split sep s = match s with
| [] -> []
| _ :: _ -> (match sep with
             | [] -> s :: []
             | _ :: _ -> split_go sep O [] s)

(** val save_lines : nat list -> nat list list list -> nat list list **)

let save_lines sep trains =
  map (join sep) trains

(** val load_line :
    nat list -> nat list -> bool -> nat list -> nat list list list **)

let load_line sep comment ignore_empty line =
  if starts_with comment line
  then []
  else if negb (is_empty line)
       then (split sep line) :: []
       else if ignore_empty then [] else [] :: []

(** val load_lines :
    nat list -> nat list -> bool -> nat list list -> nat list list list **)

let load_lines sep comment ignore_empty lines =
  flat_map (load_line sep comment ignore_empty) lines

(** val psth_edges : 'a1 numOps -> 'a1 -> 'a1 -> nat -> 'a1 list **)

let psth_edges o0 ts te n =
  let step0 = o0.ndiv (o0.nsub te ts) (nofnat o0 n) in
  map (fun k -> o0.nadd ts (o0.nmul (nofnat o0 k) step0)) (seq O (S n))

(** val psth_counts :
    'a1 numOps -> 'a1 -> 'a1 -> nat -> 'a1 list -> 'a1 list **)

let psth_counts o0 ts te n xs =
  hist_counts o0 (psth_edges o0 ts te n) xs

(** val cumsum : 'a1 numOps -> 'a1 -> 'a1 list -> 'a1 list **)

let rec cumsum o0 acc = function
| [] -> []
| d :: r -> let a = o0.nadd acc d in a :: (cumsum o0 a r)

(** val poisson_cumsums : 'a1 numOps -> 'a1 -> 'a1 list -> 'a1 list **)

let poisson_cumsums o0 t0 draws =
  map (fun c -> o0.nadd t0 c) (cumsum o0 o0.n0 draws)

(** val poisson_spikes : 'a1 numOps -> 'a1 -> 'a1 -> 'a1 list -> 'a1 list **)

let poisson_spikes o0 t0 t1 draws =
  filter (fun x -> o0.nltb x t1) (poisson_cumsums o0 t0 draws)

(** val mrow : 'a1 list list -> nat -> 'a1 list **)

let mrow d i =
  nth i d []

(** val mget : 'a1 numOps -> 'a1 list list -> nat -> nat -> 'a1 **)

let mget o0 d i j =
  nth j (mrow d i) o0.n0

(** val triu_row : 'a1 numOps -> 'a1 list list -> nat -> nat -> 'a1 **)

let triu_row o0 d n i =
  nsum o0 (map (mget o0 d i) (seq i (sub n i)))

(** val triu_sum : 'a1 numOps -> 'a1 list list -> 'a1 **)

let triu_sum o0 d =
  let n = length d in nsum o0 (map (triu_row o0 d n) (seq O n))

(** val permutate_matrix :
    'a1 numOps -> 'a1 list list -> nat list -> 'a1 list list **)

let permutate_matrix o0 d p =
  map (fun n -> map (fun m -> mget o0 d n m) p) p

(** val swap_adj : nat list -> nat -> nat list **)

let swap_adj p i =
  app (firstn i p)
    (match skipn i p with
     | [] -> []
     | a :: l -> (match l with
                  | [] -> a :: []
                  | b :: r -> b :: (a :: r)))

(** val row_max : 'a1 numOps -> 'a1 list -> 'a1 -> 'a1 **)

let row_max o0 r a =
  fold_left (nmax o0) r a

(** val mat_max : 'a1 numOps -> 'a1 list list -> 'a1 **)

let mat_max o0 = function
| [] -> o0.n0
| l :: rows ->
  (match l with
   | [] -> o0.n0
   | x :: r -> fold_left (fun a row -> row_max o0 row a) rows (row_max o0 r x))

type 'f sa = { sa_p : nat list; sa_A : 'f; sa_k : nat }

(** val sa_step :
    'a1 numOps -> (nat -> nat) -> ('a1 -> 'a1 -> nat -> bool) -> 'a1 list
    list -> nat -> 'a1 -> 'a1 sa -> 'a1 sa * bool **)

let sa_step o0 rnd metro d n t s =
  let ind1 = Nat.modulo (rnd s.sa_k) (sub n (S O)) in
  let a = nth ind1 s.sa_p O in
  let b = nth (S ind1) s.sa_p O in
  let delta = o0.nmul (o0.nofZ (Zneg (XO XH))) (mget o0 d a b) in
  if ngtb o0 delta o0.n0
  then ({ sa_p = (swap_adj s.sa_p ind1); sa_A = (o0.nadd s.sa_A delta);
         sa_k = (S s.sa_k) }, true)
  else if metro delta t (rnd (S s.sa_k))
       then ({ sa_p = (swap_adj s.sa_p ind1); sa_A = (o0.nadd s.sa_A delta);
              sa_k = (S (S s.sa_k)) }, true)
       else ({ sa_p = s.sa_p; sa_A = s.sa_A; sa_k = (S (S s.sa_k)) }, false)

(** val sa_equil :
    'a1 numOps -> (nat -> nat) -> ('a1 -> 'a1 -> nat -> bool) -> 'a1 list
    list -> nat -> 'a1 -> nat -> nat -> nat -> 'a1 sa -> ('a1 sa * nat) * nat **)

let rec sa_equil o0 rnd metro d n t fuel succ0 its s =
  match fuel with
  | O -> ((s, succ0), its)
  | S fuel' ->
    if Nat.ltb succ0 (mul (S (S (S (S (S (S (S (S (S (S O)))))))))) n)
    then let (s', ok) = sa_step o0 rnd metro d n t s in
         sa_equil o0 rnd metro d n t fuel' (if ok then S succ0 else succ0) (S
           its) s'
    else ((s, succ0), its)

(** val sa_cool :
    'a1 numOps -> (nat -> nat) -> ('a1 -> 'a1 -> nat -> bool) -> 'a1 list
    list -> nat -> 'a1 -> 'a1 -> nat -> 'a1 -> nat -> 'a1 sa -> ('a1
    sa * nat) option **)

let rec sa_cool o0 rnd metro d n t_end alpha fuel t total s =
  if ngtb o0 t t_end
  then (match fuel with
        | O -> None
        | S fuel' ->
          let (p, its) =
            sa_equil o0 rnd metro d n t
              (mul (S (S (S (S (S (S (S (S (S (S (S (S (S (S (S (S (S (S (S
                (S (S (S (S (S (S (S (S (S (S (S (S (S (S (S (S (S (S (S (S
                (S (S (S (S (S (S (S (S (S (S (S (S (S (S (S (S (S (S (S (S
                (S (S (S (S (S (S (S (S (S (S (S (S (S (S (S (S (S (S (S (S
                (S (S (S (S (S (S (S (S (S (S (S (S (S (S (S (S (S (S (S (S
                (S
                O))))))))))))))))))))))))))))))))))))))))))))))))))))))))))))))))))))))))))))))))))))))))))))))))))))
                n) O O s
          in
          let (s', succ0) = p in
          if Nat.eqb succ0 O
          then Some (s', (add total its))
          else sa_cool o0 rnd metro d n t_end alpha fuel' (o0.nmul t alpha)
                 (add total its) s')
  else Some (s, total)

(** val sim_ann :
    'a1 numOps -> (nat -> nat) -> ('a1 -> 'a1 -> nat -> bool) -> 'a1 list
    list -> 'a1 -> 'a1 -> 'a1 -> nat -> ((nat list * 'a1) * nat) option **)

let sim_ann o0 rnd metro d t_start t_end alpha fuel =
  let n = length d in
  (match sa_cool o0 rnd metro d n t_end alpha fuel t_start O { sa_p =
           (seq O n); sa_A = (triu_sum o0 d); sa_k = O } with
   | Some p -> let (s, total) = p in Some ((s.sa_p, s.sa_A), total)
   | None -> None)

(** val sorting_from_matrix :
    'a1 numOps -> (nat -> nat) -> ('a1 -> 'a1 -> nat -> bool) -> 'a1 list
    list -> nat -> ((nat list * 'a1) * nat) option **)

let sorting_from_matrix o0 rnd metro d fuel =
  let t_start = o0.nmul (n2 o0) (mat_max o0 d) in
  let t_end =
    o0.nmul
      (o0.ndiv o0.n1
        (o0.nofZ (Zpos (XO (XO (XO (XO (XO (XI (XO (XI (XO (XI (XI (XO (XO
          (XO (XO (XI XH))))))))))))))))))) t_start
  in
  sim_ann o0 rnd metro d t_start t_end
    (o0.ndiv (o0.nofZ (Zpos (XI (XO (XO XH)))))
      (o0.nofZ (Zpos (XO (XI (XO XH)))))) fuel

(** val metro_script : 'a1 -> 'a1 -> nat -> bool **)

let metro_script _ _ u =
  Nat.eqb u O

(** val cyc : nat list -> nat -> nat **)

let cyc pat k =
  match pat with
  | [] -> O
  | _ :: _ -> nth (Nat.modulo k (length pat)) pat O

(** val o : q numOps **)

let o =
  qOps

(** val eps : q **)

let eps =
  { qnum = (Zpos XH); qden = (XO (XO (XO (XO (XO (XO (XI (XO (XO (XI (XO (XO
    (XO (XO (XI (XO (XI (XI (XI XH))))))))))))))))))) }

(** val bad : val0 **)

let bad =
  VE BadArgs

(** val gtq : bool -> q ctx option -> q ctx option -> q -> q -> q **)

let gtq = function
| true -> get_tau_cy o
| false -> get_tau o

(** val dispatch : nat -> val0 list -> val0 **)

let dispatch id args =
  match id with
  | O -> bad
  | S n3 ->
    (match n3 with
     | O ->
       (match args with
        | [] -> bad
        | v :: l ->
          (match v with
           | VB cy ->
             (match l with
              | [] -> bad
              | a :: l0 ->
                (match l0 with
                 | [] -> bad
                 | b :: l1 ->
                   (match l1 with
                    | [] -> bad
                    | v0 :: l2 ->
                      (match v0 with
                       | VQ ts ->
                         (match l2 with
                          | [] -> bad
                          | v1 :: l3 ->
                            (match v1 with
                             | VQ te ->
                               (match l3 with
                                | [] -> bad
                                | v2 :: l4 ->
                                  (match v2 with
                                   | VQ m ->
                                     (match l4 with
                                      | [] ->
                                        (match asQs a with
                                         | Some s1 ->
                                           (match asQs b with
                                            | Some s2 ->
                                              encPwc
                                                (if cy
                                                 then isi_profile_cy o s1 s2
                                                        ts te m
                                                 else isi_profile_py o s1 s2
                                                        ts te m)
                                            | None -> bad)
                                         | None -> bad)
                                      | _ :: _ -> bad)
                                   | _ -> bad))
                             | _ -> bad))
                       | _ -> bad))))
           | _ -> bad))
     | S n5 ->
       (match n5 with
        | O ->
          (match args with
           | [] -> bad
           | v :: l ->
             (match v with
              | VB cy ->
                (match l with
                 | [] -> bad
                 | a :: l0 ->
                   (match l0 with
                    | [] -> bad
                    | b :: l1 ->
                      (match l1 with
                       | [] -> bad
                       | v0 :: l2 ->
                         (match v0 with
                          | VQ ts ->
                            (match l2 with
                             | [] -> bad
                             | v1 :: l3 ->
                               (match v1 with
                                | VQ te ->
                                  (match l3 with
                                   | [] -> bad
                                   | v2 :: l4 ->
                                     (match v2 with
                                      | VQ m ->
                                        (match l4 with
                                         | [] -> bad
                                         | v3 :: l5 ->
                                           (match v3 with
                                            | VB ri ->
                                              (match l5 with
                                               | [] ->
                                                 (match asQs a with
                                                  | Some s1 ->
                                                    (match asQs b with
                                                     | Some s2 ->
                                                       encPwl
                                                         (if cy
                                                          then spike_profile_cy
                                                                 o s1 s2 ts
                                                                 te m ri
                                                          else spike_profile_py
                                                                 o s1 s2 ts
                                                                 te m ri)
                                                     | None -> bad)
                                                  | None -> bad)
                                               | _ :: _ -> bad)
                                            | _ -> bad))
                                      | _ -> bad))
                                | _ -> bad))
                          | _ -> bad))))
              | _ -> bad))
        | S n6 ->
          (match n6 with
           | O ->
             (match args with
              | [] -> bad
              | v :: l0 ->
                (match v with
                 | VQ x ->
                   (match l0 with
                    | [] -> bad
                    | l :: l1 ->
                      (match l1 with
                       | [] -> bad
                       | v0 :: l2 ->
                         (match v0 with
                          | VQ a0 ->
                            (match l2 with
                             | [] -> bad
                             | v1 :: l3 ->
                               (match v1 with
                                | VQ a1 ->
                                  (match l3 with
                                   | [] ->
                                     (match asQs l with
                                      | Some s ->
                                        VQ (get_min_dist o x s a0 a1)
                                      | None -> bad)
                                   | _ :: _ -> bad)
                                | _ -> bad))
                          | _ -> bad)))
                 | _ -> bad))
           | S n7 ->
             (match n7 with
              | O ->
                (match args with
                 | [] -> bad
                 | v :: l ->
                   (match v with
                    | VQ i1 ->
                      (match l with
                       | [] -> bad
                       | v0 :: l0 ->
                         (match v0 with
                          | VQ i2 ->
                            (match l0 with
                             | [] -> bad
                             | v1 :: l1 ->
                               (match v1 with
                                | VQ s1 ->
                                  (match l1 with
                                   | [] -> bad
                                   | v2 :: l2 ->
                                     (match v2 with
                                      | VQ s2 ->
                                        (match l2 with
                                         | [] -> bad
                                         | v3 :: l3 ->
                                           (match v3 with
                                            | VQ m ->
                                              (match l3 with
                                               | [] -> bad
                                               | v4 :: l4 ->
                                                 (match v4 with
                                                  | VB ri ->
                                                    (match l4 with
                                                     | [] ->
                                                       VQ
                                                         (dist_at_t o i1 i2
                                                           s1 s2 m ri)
                                                     | _ :: _ -> bad)
                                                  | _ -> bad))
                                            | _ -> bad))
                                      | _ -> bad))
                                | _ -> bad))
                          | _ -> bad))
                    | _ -> bad))
              | S n8 ->
                (match n8 with
                 | O ->
                   (match args with
                    | [] -> bad
                    | v :: l ->
                      (match v with
                       | VB cy ->
                         (match l with
                          | [] -> bad
                          | c1 :: l0 ->
                            (match l0 with
                             | [] -> bad
                             | c2 :: l1 ->
                               (match l1 with
                                | [] -> bad
                                | v0 :: l2 ->
                                  (match v0 with
                                   | VQ lim ->
                                     (match l2 with
                                      | [] -> bad
                                      | v1 :: l3 ->
                                        (match v1 with
                                         | VQ m ->
                                           (match l3 with
                                            | [] ->
                                              (match asCtx c1 with
                                               | Some x ->
                                                 (match asCtx c2 with
                                                  | Some y ->
                                                    VQ (gtq cy x y lim m)
                                                  | None -> bad)
                                               | None -> bad)
                                            | _ :: _ -> bad)
                                         | _ -> bad))
                                   | _ -> bad))))
                       | _ -> bad))
                 | S n9 ->
                   (match n9 with
                    | O ->
                      (match args with
                       | [] -> bad
                       | v :: l ->
                         (match v with
                          | VB cy ->
                            (match l with
                             | [] -> bad
                             | a :: l0 ->
                               (match l0 with
                                | [] -> bad
                                | b :: l1 ->
                                  (match l1 with
                                   | [] -> bad
                                   | v0 :: l2 ->
                                     (match v0 with
                                      | VQ ts ->
                                        (match l2 with
                                         | [] -> bad
                                         | v1 :: l3 ->
                                           (match v1 with
                                            | VQ te ->
                                              (match l3 with
                                               | [] -> bad
                                               | v2 :: l4 ->
                                                 (match v2 with
                                                  | VQ mt ->
                                                    (match l4 with
                                                     | [] -> bad
                                                     | v3 :: l5 ->
                                                       (match v3 with
                                                        | VQ m ->
                                                          (match l5 with
                                                           | [] ->
                                                             (match asQs a with
                                                              | Some s1 ->
                                                                (match 
                                                                 asQs b with
                                                                 | Some s2 ->
                                                                   encDf
                                                                    (coincidence_profile_gen
                                                                    o
                                                                    (gtq cy)
                                                                    s1 s2 ts
                                                                    te mt m)
                                                                 | None -> bad)
                                                              | None -> bad)
                                                           | _ :: _ -> bad)
                                                        | _ -> bad))
                                                  | _ -> bad))
                                            | _ -> bad))
                                      | _ -> bad))))
                          | _ -> bad))
                    | S n10 ->
                      (match n10 with
                       | O ->
                         (match args with
                          | [] -> bad
                          | v :: l ->
                            (match v with
                             | VB cy ->
                               (match l with
                                | [] -> bad
                                | a :: l0 ->
                                  (match l0 with
                                   | [] -> bad
                                   | b :: l1 ->
                                     (match l1 with
                                      | [] -> bad
                                      | v0 :: l2 ->
                                        (match v0 with
                                         | VQ ts ->
                                           (match l2 with
                                            | [] -> bad
                                            | v1 :: l3 ->
                                              (match v1 with
                                               | VQ te ->
                                                 (match l3 with
                                                  | [] -> bad
                                                  | v2 :: l4 ->
                                                    (match v2 with
                                                     | VQ mt ->
                                                       (match l4 with
                                                        | [] -> bad
                                                        | v3 :: l5 ->
                                                          (match v3 with
                                                           | VQ m ->
                                                             (match l5 with
                                                              | [] ->
                                                                (match 
                                                                 asQs a with
                                                                 | Some s1 ->
                                                                   (match 
                                                                    asQs b with
                                                                    | Some s2 ->
                                                                    encQs
                                                                    (coincidence_single_gen
                                                                    o
                                                                    (gtq cy)
                                                                    s1 s2 ts
                                                                    te mt m)
                                                                    | None ->
                                                                    bad)
                                                                 | None -> bad)
                                                              | _ :: _ -> bad)
                                                           | _ -> bad))
                                                     | _ -> bad))
                                               | _ -> bad))
                                         | _ -> bad))))
                             | _ -> bad))
                       | S n11 ->
                         (match n11 with
                          | O ->
                            (match args with
                             | [] -> bad
                             | v :: l ->
                               (match v with
                                | VB cy ->
                                  (match l with
                                   | [] -> bad
                                   | a :: l0 ->
                                     (match l0 with
                                      | [] -> bad
                                      | b :: l1 ->
                                        (match l1 with
                                         | [] -> bad
                                         | v0 :: l2 ->
                                           (match v0 with
                                            | VQ ts ->
                                              (match l2 with
                                               | [] -> bad
                                               | v1 :: l3 ->
                                                 (match v1 with
                                                  | VQ te ->
                                                    (match l3 with
                                                     | [] -> bad
                                                     | v2 :: l4 ->
                                                       (match v2 with
                                                        | VQ mt ->
                                                          (match l4 with
                                                           | [] -> bad
                                                           | v3 :: l5 ->
                                                             (match v3 with
                                                              | VQ m ->
                                                                (match l5 with
                                                                 | [] ->
                                                                   (match 
                                                                    asQs a with
                                                                    | Some s1 ->
                                                                    (match 
                                                                    asQs b with
                                                                    | Some s2 ->
                                                                    encDf
                                                                    (order_profile_gen
                                                                    o
                                                                    (gtq cy)
                                                                    s1 s2 ts
                                                                    te mt m)
                                                                    | None ->
                                                                    bad)
                                                                    | None ->
                                                                    bad)
                                                                 | _ :: _ ->
                                                                   bad)
                                                              | _ -> bad))
                                                        | _ -> bad))
                                                  | _ -> bad))
                                            | _ -> bad))))
                                | _ -> bad))
                          | S n12 ->
                            (match n12 with
                             | O ->
                               (match args with
                                | [] -> bad
                                | v :: l ->
                                  (match v with
                                   | VB cy ->
                                     (match l with
                                      | [] -> bad
                                      | a :: l0 ->
                                        (match l0 with
                                         | [] -> bad
                                         | b :: l1 ->
                                           (match l1 with
                                            | [] -> bad
                                            | v0 :: l2 ->
                                              (match v0 with
                                               | VQ ts ->
                                                 (match l2 with
                                                  | [] -> bad
                                                  | v1 :: l3 ->
                                                    (match v1 with
                                                     | VQ te ->
                                                       (match l3 with
                                                        | [] -> bad
                                                        | v2 :: l4 ->
                                                          (match v2 with
                                                           | VQ mt ->
                                                             (match l4 with
                                                              | [] -> bad
                                                              | v3 :: l5 ->
                                                                (match v3 with
                                                                 | VQ m ->
                                                                   (match l5 with
                                                                    | [] ->
                                                                    (match 
                                                                    asQs a with
                                                                    | Some s1 ->
                                                                    (match 
                                                                    asQs b with
                                                                    | Some s2 ->
                                                                    let d =
                                                                    directionality_profile_gen
                                                                    o
                                                                    (gtq cy)
                                                                    s1 s2 ts
                                                                    te mt m
                                                                    in
                                                                    VL
                                                                    (
                                                                    (encQs
                                                                    (fst d)) :: (
                                                                    (encQs
                                                                    (snd d)) :: []))
                                                                    | None ->
                                                                    bad)
                                                                    | None ->
                                                                    bad)
                                                                    | _ :: _ ->
                                                                    bad)
                                                                 | _ -> bad))
                                                           | _ -> bad))
                                                     | _ -> bad))
                                               | _ -> bad))))
                                   | _ -> bad))
                             | S n13 ->
                               (match n13 with
                                | O ->
                                  (match args with
                                   | [] -> bad
                                   | a :: l ->
                                     (match l with
                                      | [] -> bad
                                      | b :: l0 ->
                                        (match l0 with
                                         | [] -> bad
                                         | v :: l1 ->
                                           (match v with
                                            | VQ ts ->
                                              (match l1 with
                                               | [] -> bad
                                               | v0 :: l2 ->
                                                 (match v0 with
                                                  | VQ te ->
                                                    (match l2 with
                                                     | [] -> bad
                                                     | v1 :: l3 ->
                                                       (match v1 with
                                                        | VQ m ->
                                                          (match l3 with
                                                           | [] ->
                                                             (match asQs a with
                                                              | Some s1 ->
                                                                (match 
                                                                 asQs b with
                                                                 | Some s2 ->
                                                                   VQ
                                                                    (isi_distance_cy
                                                                    o s1 s2
                                                                    ts te m)
                                                                 | None -> bad)
                                                              | None -> bad)
                                                           | _ :: _ -> bad)
                                                        | _ -> bad))
                                                  | _ -> bad))
                                            | _ -> bad))))
                                | S n14 ->
                                  (match n14 with
                                   | O ->
                                     (match args with
                                      | [] -> bad
                                      | a :: l ->
                                        (match l with
                                         | [] -> bad
                                         | b :: l0 ->
                                           (match l0 with
                                            | [] -> bad
                                            | v :: l1 ->
                                              (match v with
                                               | VQ ts ->
                                                 (match l1 with
                                                  | [] -> bad
                                                  | v0 :: l2 ->
                                                    (match v0 with
                                                     | VQ te ->
                                                       (match l2 with
                                                        | [] -> bad
                                                        | v1 :: l3 ->
                                                          (match v1 with
                                                           | VQ m ->
                                                             (match l3 with
                                                              | [] -> bad
                                                              | v2 :: l4 ->
                                                                (match v2 with
                                                                 | VB ri ->
                                                                   (match l4 with
                                                                    | [] ->
                                                                    (match 
                                                                    asQs a with
                                                                    | Some s1 ->
                                                                    (match 
                                                                    asQs b with
                                                                    | Some s2 ->
                                                                    VQ
                                                                    (spike_distance_cy
                                                                    o s1 s2
                                                                    ts te m
                                                                    ri)
                                                                    | None ->
                                                                    bad)
                                                                    | None ->
                                                                    bad)
                                                                    | _ :: _ ->
                                                                    bad)
                                                                 | _ -> bad))
                                                           | _ -> bad))
                                                     | _ -> bad))
                                               | _ -> bad))))
                                   | S n15 ->
                                     (match n15 with
                                      | O ->
                                        (match args with
                                         | [] -> bad
                                         | v :: l ->
                                           (match v with
                                            | VB cy ->
                                              (match l with
                                               | [] -> bad
                                               | a :: l0 ->
                                                 (match l0 with
                                                  | [] -> bad
                                                  | b :: l1 ->
                                                    (match l1 with
                                                     | [] -> bad
                                                     | v0 :: l2 ->
                                                       (match v0 with
                                                        | VQ ts ->
                                                          (match l2 with
                                                           | [] -> bad
                                                           | v1 :: l3 ->
                                                             (match v1 with
                                                              | VQ te ->
                                                                (match l3 with
                                                                 | [] -> bad
                                                                 | v2 :: l4 ->
                                                                   (match v2 with
                                                                    | VQ mt ->
                                                                    (match l4 with
                                                                    | [] ->
                                                                    bad
                                                                    | v3 :: l5 ->
                                                                    (match v3 with
                                                                    | VQ m ->
                                                                    (match l5 with
                                                                    | [] ->
                                                                    (match 
                                                                    asQs a with
                                                                    | Some s1 ->
                                                                    (match 
                                                                    asQs b with
                                                                    | Some s2 ->
                                                                    encPairQ
                                                                    (coincidence_value_gen
                                                                    o
                                                                    (gtq cy)
                                                                    s1 s2 ts
                                                                    te mt m)
                                                                    | None ->
                                                                    bad)
                                                                    | None ->
                                                                    bad)
                                                                    | _ :: _ ->
                                                                    bad)
                                                                    | _ -> bad))
                                                                    | _ -> bad))
                                                              | _ -> bad))
                                                        | _ -> bad))))
                                            | _ -> bad))
                                      | S n16 ->
                                        (match n16 with
                                         | O ->
                                           (match args with
                                            | [] -> bad
                                            | a :: l ->
                                              (match l with
                                               | [] -> bad
                                               | b :: l0 ->
                                                 (match l0 with
                                                  | [] -> bad
                                                  | v :: l1 ->
                                                    (match v with
                                                     | VQ ts ->
                                                       (match l1 with
                                                        | [] -> bad
                                                        | v0 :: l2 ->
                                                          (match v0 with
                                                           | VQ te ->
                                                             (match l2 with
                                                              | [] -> bad
                                                              | v1 :: l3 ->
                                                                (match v1 with
                                                                 | VQ mt ->
                                                                   (match l3 with
                                                                    | [] ->
                                                                    bad
                                                                    | v2 :: l4 ->
                                                                    (match v2 with
                                                                    | VQ m ->
                                                                    (match l4 with
                                                                    | [] ->
                                                                    (match 
                                                                    asQs a with
                                                                    | Some s1 ->
                                                                    (match 
                                                                    asQs b with
                                                                    | Some s2 ->
                                                                    encPairQ
                                                                    (order_value
                                                                    o
                                                                    (coinc_scan
                                                                    o
                                                                    (tau_fn o
                                                                    (gtq true)
                                                                    ts te mt
                                                                    m) s1 s2)
                                                                    { qnum =
                                                                    Z0;
                                                                    qden =
                                                                    XH }
                                                                    { qnum =
                                                                    Z0;
                                                                    qden =
                                                                    XH })
                                                                    | None ->
                                                                    bad)
                                                                    | None ->
                                                                    bad)
                                                                    | _ :: _ ->
                                                                    bad)
                                                                    | _ -> bad))
                                                                 | _ -> bad))
                                                           | _ -> bad))
                                                     | _ -> bad))))
                                         | S n17 ->
                                           (match n17 with
                                            | O ->
                                              (match args with
                                               | [] -> bad
                                               | a :: l ->
                                                 (match l with
                                                  | [] -> bad
                                                  | b :: l0 ->
                                                    (match l0 with
                                                     | [] -> bad
                                                     | v :: l1 ->
                                                       (match v with
                                                        | VQ ts ->
                                                          (match l1 with
                                                           | [] -> bad
                                                           | v0 :: l2 ->
                                                             (match v0 with
                                                              | VQ te ->
                                                                (match l2 with
                                                                 | [] -> bad
                                                                 | v1 :: l3 ->
                                                                   (match v1 with
                                                                    | VQ mt ->
                                                                    (match l3 with
                                                                    | [] ->
                                                                    bad
                                                                    | v2 :: l4 ->
                                                                    (match v2 with
                                                                    | VQ m ->
                                                                    (match l4 with
                                                                    | [] ->
                                                                    (match 
                                                                    asQs a with
                                                                    | Some s1 ->
                                                                    (match 
                                                                    asQs b with
                                                                    | Some s2 ->
                                                                    VQ
                                                                    (dir_value
                                                                    o
                                                                    (coinc_scan
                                                                    o
                                                                    (tau_fn o
                                                                    (gtq true)
                                                                    ts te mt
                                                                    m) s1 s2)
                                                                    { qnum =
                                                                    Z0;
                                                                    qden =
                                                                    XH })
                                                                    | None ->
                                                                    bad)
                                                                    | None ->
                                                                    bad)
                                                                    | _ :: _ ->
                                                                    bad)
                                                                    | _ -> bad))
                                                                    | _ -> bad))
                                                              | _ -> bad))
                                                        | _ -> bad))))
                                            | S n18 ->
                                              (match n18 with
                                               | O -> bad
                                               | S n19 ->
                                                 (match n19 with
                                                  | O -> bad
                                                  | S n20 ->
                                                    (match n20 with
                                                     | O -> bad
                                                     | S n21 ->
                                                       (match n21 with
                                                        | O -> bad
                                                        | S n22 ->
                                                          (match n22 with
                                                           | O -> bad
                                                           | S n23 ->
                                                             (match n23 with
                                                              | O ->
                                                                (match args with
                                                                 | [] -> bad
                                                                 | x1 :: l ->
                                                                   (match l with
                                                                    | [] ->
                                                                    bad
                                                                    | y1 :: l0 ->
                                                                    (match l0 with
                                                                    | [] ->
                                                                    bad
                                                                    | x2 :: l1 ->
                                                                    (match l1 with
                                                                    | [] ->
                                                                    bad
                                                                    | y2 :: l2 ->
                                                                    (match l2 with
                                                                    | [] ->
                                                                    (match 
                                                                    asQs x1 with
                                                                    | Some a ->
                                                                    (match 
                                                                    asQs y1 with
                                                                    | Some b ->
                                                                    (match 
                                                                    asQs x2 with
                                                                    | Some c ->
                                                                    (match 
                                                                    asQs y2 with
                                                                    | Some d ->
                                                                    encRes
                                                                    encPwc
                                                                    (pwc_add
                                                                    o (a, b)
                                                                    (c, d))
                                                                    | None ->
                                                                    bad)
                                                                    | None ->
                                                                    bad)
                                                                    | None ->
                                                                    bad)
                                                                    | None ->
                                                                    bad)
                                                                    | _ :: _ ->
                                                                    bad)))))
                                                              | S n24 ->
                                                                (match n24 with
                                                                 | O ->
                                                                   (match args with
                                                                    | [] ->
                                                                    bad
                                                                    | x1 :: l ->
                                                                    (match l with
                                                                    | [] ->
                                                                    bad
                                                                    | y11 :: l0 ->
                                                                    (match l0 with
                                                                    | [] ->
                                                                    bad
                                                                    | y12 :: l1 ->
                                                                    (match l1 with
                                                                    | [] ->
                                                                    bad
                                                                    | x2 :: l2 ->
                                                                    (match l2 with
                                                                    | [] ->
                                                                    bad
                                                                    | y21 :: l3 ->
                                                                    (match l3 with
                                                                    | [] ->
                                                                    bad
                                                                    | y22 :: l4 ->
                                                                    (match l4 with
                                                                    | [] ->
                                                                    (match 
                                                                    asQs x1 with
                                                                    | Some a ->
                                                                    (match 
                                                                    asQs y11 with
                                                                    | Some b ->
                                                                    (match 
                                                                    asQs y12 with
                                                                    | Some c ->
                                                                    (match 
                                                                    asQs x2 with
                                                                    | Some d ->
                                                                    (match 
                                                                    asQs y21 with
                                                                    | Some e ->
                                                                    (match 
                                                                    asQs y22 with
                                                                    | Some f ->
                                                                    encRes
                                                                    encPwl
                                                                    (pwl_add
                                                                    o ((a,
                                                                    b), c)
                                                                    ((d, e),
                                                                    f))
                                                                    | None ->
                                                                    bad)
                                                                    | None ->
                                                                    bad)
                                                                    | None ->
                                                                    bad)
                                                                    | None ->
                                                                    bad)
                                                                    | None ->
                                                                    bad)
                                                                    | None ->
                                                                    bad)
                                                                    | _ :: _ ->
                                                                    bad)))))))
                                                                 | S n25 ->
                                                                   (match n25 with
                                                                    | O ->
                                                                    (match args with
                                                                    | [] ->
                                                                    bad
                                                                    | x1 :: l ->
                                                                    (match l with
                                                                    | [] ->
                                                                    bad
                                                                    | y1 :: l0 ->
                                                                    (match l0 with
                                                                    | [] ->
                                                                    bad
                                                                    | m1 :: l1 ->
                                                                    (match l1 with
                                                                    | [] ->
                                                                    bad
                                                                    | x2 :: l2 ->
                                                                    (match l2 with
                                                                    | [] ->
                                                                    bad
                                                                    | y2 :: l3 ->
                                                                    (match l3 with
                                                                    | [] ->
                                                                    bad
                                                                    | m2 :: l4 ->
                                                                    (match l4 with
                                                                    | [] ->
                                                                    (match 
                                                                    asEntries
                                                                    x1 y1 m1 with
                                                                    | Some f ->
                                                                    (match 
                                                                    asEntries
                                                                    x2 y2 m2 with
                                                                    | Some g ->
                                                                    encRes
                                                                    encDf
                                                                    (df_add o
                                                                    f g)
                                                                    | None ->
                                                                    bad)
                                                                    | None ->
                                                                    bad)
                                                                    | _ :: _ ->
                                                                    bad)))))))
                                                                    | S n26 ->
                                                                    (match n26 with
                                                                    | O ->
                                                                    (match args with
                                                                    | [] ->
                                                                    bad
                                                                    | x :: l ->
                                                                    (match l with
                                                                    | [] ->
                                                                    bad
                                                                    | y :: l0 ->
                                                                    (match l0 with
                                                                    | [] ->
                                                                    bad
                                                                    | iv :: l1 ->
                                                                    (match l1 with
                                                                    | [] ->
                                                                    (match 
                                                                    asQs x with
                                                                    | Some xs ->
                                                                    (match 
                                                                    asQs y with
                                                                    | Some ys ->
                                                                    (match 
                                                                    asIvspec
                                                                    iv with
                                                                    | Some i ->
                                                                    encRes
                                                                    (fun x0 ->
                                                                    VQ x0)
                                                                    (pwc_avrg
                                                                    o (xs,
                                                                    ys) i)
                                                                    | None ->
                                                                    bad)
                                                                    | None ->
                                                                    bad)
                                                                    | None ->
                                                                    bad)
                                                                    | _ :: _ ->
                                                                    bad))))
                                                                    | S n27 ->
                                                                    (match n27 with
                                                                    | O ->
                                                                    (match args with
                                                                    | [] ->
                                                                    bad
                                                                    | x :: l ->
                                                                    (match l with
                                                                    | [] ->
                                                                    bad
                                                                    | y :: l0 ->
                                                                    (match l0 with
                                                                    | [] ->
                                                                    bad
                                                                    | iv :: l1 ->
                                                                    (match l1 with
                                                                    | [] ->
                                                                    (match 
                                                                    asQs x with
                                                                    | Some xs ->
                                                                    (match 
                                                                    asQs y with
                                                                    | Some ys ->
                                                                    (match 
                                                                    asIv iv with
                                                                    | Some i ->
                                                                    encRes
                                                                    (fun x0 ->
                                                                    VQ x0)
                                                                    (pwc_integral
                                                                    o (xs,
                                                                    ys) i)
                                                                    | None ->
                                                                    bad)
                                                                    | None ->
                                                                    bad)
                                                                    | None ->
                                                                    bad)
                                                                    | _ :: _ ->
                                                                    bad))))
                                                                    | S n28 ->
                                                                    (match n28 with
                                                                    | O ->
                                                                    (match args with
                                                                    | [] ->
                                                                    bad
                                                                    | x :: l ->
                                                                    (match l with
                                                                    | [] ->
                                                                    bad
                                                                    | y :: l0 ->
                                                                    (match l0 with
                                                                    | [] ->
                                                                    bad
                                                                    | v :: l1 ->
                                                                    (match v with
                                                                    | VQ t ->
                                                                    (match l1 with
                                                                    | [] ->
                                                                    (match 
                                                                    asQs x with
                                                                    | Some xs ->
                                                                    (match 
                                                                    asQs y with
                                                                    | Some ys ->
                                                                    encRes
                                                                    (fun x0 ->
                                                                    VQ x0)
                                                                    (pwc_call_scalar
                                                                    o (xs,
                                                                    ys) t)
                                                                    | None ->
                                                                    bad)
                                                                    | None ->
                                                                    bad)
                                                                    | _ :: _ ->
                                                                    bad)
                                                                    | _ -> bad))))
                                                                    | S n29 ->
                                                                    (match n29 with
                                                                    | O ->
                                                                    (match args with
                                                                    | [] ->
                                                                    bad
                                                                    | x :: l ->
                                                                    (match l with
                                                                    | [] ->
                                                                    bad
                                                                    | y :: l0 ->
                                                                    (match l0 with
                                                                    | [] ->
                                                                    bad
                                                                    | v :: l1 ->
                                                                    (match v with
                                                                    | VQ t ->
                                                                    (match l1 with
                                                                    | [] ->
                                                                    (match 
                                                                    asQs x with
                                                                    | Some xs ->
                                                                    (match 
                                                                    asQs y with
                                                                    | Some ys ->
                                                                    encRes
                                                                    (fun x0 ->
                                                                    VQ x0)
                                                                    (pwc_call_seq1
                                                                    o (xs,
                                                                    ys) t)
                                                                    | None ->
                                                                    bad)
                                                                    | None ->
                                                                    bad)
                                                                    | _ :: _ ->
                                                                    bad)
                                                                    | _ -> bad))))
                                                                    | S n30 ->
                                                                    (match n30 with
                                                                    | O ->
                                                                    (match args with
                                                                    | [] ->
                                                                    bad
                                                                    | x :: l ->
                                                                    (match l with
                                                                    | [] ->
                                                                    bad
                                                                    | y :: l0 ->
                                                                    (match l0 with
                                                                    | [] ->
                                                                    (match 
                                                                    asQs x with
                                                                    | Some xs ->
                                                                    (match 
                                                                    asQs y with
                                                                    | Some ys ->
                                                                    encPwc
                                                                    (pwc_plottable
                                                                    (xs, ys))
                                                                    | None ->
                                                                    bad)
                                                                    | None ->
                                                                    bad)
                                                                    | _ :: _ ->
                                                                    bad)))
                                                                    | S n31 ->
                                                                    (match n31 with
                                                                    | O ->
                                                                    (match args with
                                                                    | [] ->
                                                                    bad
                                                                    | x :: l ->
                                                                    (match l with
                                                                    | [] ->
                                                                    bad
                                                                    | y1 :: l0 ->
                                                                    (match l0 with
                                                                    | [] ->
                                                                    bad
                                                                    | y2 :: l1 ->
                                                                    (match l1 with
                                                                    | [] ->
                                                                    bad
                                                                    | iv :: l2 ->
                                                                    (match l2 with
                                                                    | [] ->
                                                                    (match 
                                                                    asQs x with
                                                                    | Some xs ->
                                                                    (match 
                                                                    asQs y1 with
                                                                    | Some a ->
                                                                    (match 
                                                                    asQs y2 with
                                                                    | Some b ->
                                                                    (match 
                                                                    asIvspec
                                                                    iv with
                                                                    | Some i ->
                                                                    encRes
                                                                    (fun x0 ->
                                                                    VQ x0)
                                                                    (pwl_avrg
                                                                    o ((xs,
                                                                    a), b) i)
                                                                    | None ->
                                                                    bad)
                                                                    | None ->
                                                                    bad)
                                                                    | None ->
                                                                    bad)
                                                                    | None ->
                                                                    bad)
                                                                    | _ :: _ ->
                                                                    bad)))))
                                                                    | S n32 ->
                                                                    (match n32 with
                                                                    | O ->
                                                                    (match args with
                                                                    | [] ->
                                                                    bad
                                                                    | x :: l ->
                                                                    (match l with
                                                                    | [] ->
                                                                    bad
                                                                    | y1 :: l0 ->
                                                                    (match l0 with
                                                                    | [] ->
                                                                    bad
                                                                    | y2 :: l1 ->
                                                                    (match l1 with
                                                                    | [] ->
                                                                    bad
                                                                    | iv :: l2 ->
                                                                    (match l2 with
                                                                    | [] ->
                                                                    (match 
                                                                    asQs x with
                                                                    | Some xs ->
                                                                    (match 
                                                                    asQs y1 with
                                                                    | Some a ->
                                                                    (match 
                                                                    asQs y2 with
                                                                    | Some b ->
                                                                    (match 
                                                                    asIv iv with
                                                                    | Some i ->
                                                                    encRes
                                                                    (fun x0 ->
                                                                    VQ x0)
                                                                    (pwl_integral
                                                                    o ((xs,
                                                                    a), b) i)
                                                                    | None ->
                                                                    bad)
                                                                    | None ->
                                                                    bad)
                                                                    | None ->
                                                                    bad)
                                                                    | None ->
                                                                    bad)
                                                                    | _ :: _ ->
                                                                    bad)))))
                                                                    | S n33 ->
                                                                    (match n33 with
                                                                    | O ->
                                                                    (match args with
                                                                    | [] ->
                                                                    bad
                                                                    | x :: l ->
                                                                    (match l with
                                                                    | [] ->
                                                                    bad
                                                                    | y1 :: l0 ->
                                                                    (match l0 with
                                                                    | [] ->
                                                                    bad
                                                                    | y2 :: l1 ->
                                                                    (match l1 with
                                                                    | [] ->
                                                                    bad
                                                                    | v :: l2 ->
                                                                    (match v with
                                                                    | VQ t ->
                                                                    (match l2 with
                                                                    | [] ->
                                                                    (match 
                                                                    asQs x with
                                                                    | Some xs ->
                                                                    (match 
                                                                    asQs y1 with
                                                                    | Some a ->
                                                                    (match 
                                                                    asQs y2 with
                                                                    | Some b ->
                                                                    encRes
                                                                    (fun x0 ->
                                                                    VQ x0)
                                                                    (pwl_call_scalar
                                                                    o ((xs,
                                                                    a), b) t)
                                                                    | None ->
                                                                    bad)
                                                                    | None ->
                                                                    bad)
                                                                    | None ->
                                                                    bad)
                                                                    | _ :: _ ->
                                                                    bad)
                                                                    | _ -> bad)))))
                                                                    | S n34 ->
                                                                    (match n34 with
                                                                    | O ->
                                                                    (match args with
                                                                    | [] ->
                                                                    bad
                                                                    | x :: l ->
                                                                    (match l with
                                                                    | [] ->
                                                                    bad
                                                                    | y1 :: l0 ->
                                                                    (match l0 with
                                                                    | [] ->
                                                                    bad
                                                                    | y2 :: l1 ->
                                                                    (match l1 with
                                                                    | [] ->
                                                                    bad
                                                                    | v :: l2 ->
                                                                    (match v with
                                                                    | VQ t ->
                                                                    (match l2 with
                                                                    | [] ->
                                                                    (match 
                                                                    asQs x with
                                                                    | Some xs ->
                                                                    (match 
                                                                    asQs y1 with
                                                                    | Some a ->
                                                                    (match 
                                                                    asQs y2 with
                                                                    | Some b ->
                                                                    encRes
                                                                    (fun x0 ->
                                                                    VQ x0)
                                                                    (pwl_call_seq1
                                                                    o ((xs,
                                                                    a), b) t)
                                                                    | None ->
                                                                    bad)
                                                                    | None ->
                                                                    bad)
                                                                    | None ->
                                                                    bad)
                                                                    | _ :: _ ->
                                                                    bad)
                                                                    | _ -> bad)))))
                                                                    | S n35 ->
                                                                    (match n35 with
                                                                    | O ->
                                                                    (match args with
                                                                    | [] ->
                                                                    bad
                                                                    | x :: l ->
                                                                    (match l with
                                                                    | [] ->
                                                                    bad
                                                                    | y1 :: l0 ->
                                                                    (match l0 with
                                                                    | [] ->
                                                                    bad
                                                                    | y2 :: l1 ->
                                                                    (match l1 with
                                                                    | [] ->
                                                                    (match 
                                                                    asQs x with
                                                                    | Some xs ->
                                                                    (match 
                                                                    asQs y1 with
                                                                    | Some a ->
                                                                    (match 
                                                                    asQs y2 with
                                                                    | Some b ->
                                                                    encPwc
                                                                    (pwl_plottable
                                                                    ((xs, a),
                                                                    b))
                                                                    | None ->
                                                                    bad)
                                                                    | None ->
                                                                    bad)
                                                                    | None ->
                                                                    bad)
                                                                    | _ :: _ ->
                                                                    bad))))
                                                                    | S n36 ->
                                                                    (match n36 with
                                                                    | O ->
                                                                    (match args with
                                                                    | [] ->
                                                                    bad
                                                                    | x :: l ->
                                                                    (match l with
                                                                    | [] ->
                                                                    bad
                                                                    | y :: l0 ->
                                                                    (match l0 with
                                                                    | [] ->
                                                                    bad
                                                                    | mp :: l1 ->
                                                                    (match l1 with
                                                                    | [] ->
                                                                    bad
                                                                    | iv :: l2 ->
                                                                    (match l2 with
                                                                    | [] ->
                                                                    (match 
                                                                    asEntries
                                                                    x y mp with
                                                                    | Some f ->
                                                                    (match 
                                                                    asIvspec
                                                                    iv with
                                                                    | Some i ->
                                                                    encRes
                                                                    encPairQ
                                                                    (df_integral
                                                                    o f i)
                                                                    | None ->
                                                                    bad)
                                                                    | None ->
                                                                    bad)
                                                                    | _ :: _ ->
                                                                    bad)))))
                                                                    | S n37 ->
                                                                    (match n37 with
                                                                    | O ->
                                                                    (match args with
                                                                    | [] ->
                                                                    bad
                                                                    | x :: l ->
                                                                    (match l with
                                                                    | [] ->
                                                                    bad
                                                                    | y :: l0 ->
                                                                    (match l0 with
                                                                    | [] ->
                                                                    bad
                                                                    | mp :: l1 ->
                                                                    (match l1 with
                                                                    | [] ->
                                                                    bad
                                                                    | iv :: l2 ->
                                                                    (match l2 with
                                                                    | [] ->
                                                                    bad
                                                                    | v :: l3 ->
                                                                    (match v with
                                                                    | VB nrm ->
                                                                    (match l3 with
                                                                    | [] ->
                                                                    (match 
                                                                    asEntries
                                                                    x y mp with
                                                                    | Some f ->
                                                                    (match 
                                                                    asIvspec
                                                                    iv with
                                                                    | Some i ->
                                                                    encRes
                                                                    (fun x0 ->
                                                                    VQ x0)
                                                                    (df_avrg
                                                                    o f i nrm)
                                                                    | None ->
                                                                    bad)
                                                                    | None ->
                                                                    bad)
                                                                    | _ :: _ ->
                                                                    bad)
                                                                    | _ -> bad))))))
                                                                    | S n38 ->
                                                                    (match n38 with
                                                                    | O ->
                                                                    (match args with
                                                                    | [] ->
                                                                    bad
                                                                    | x :: l ->
                                                                    (match l with
                                                                    | [] ->
                                                                    bad
                                                                    | y :: l0 ->
                                                                    (match l0 with
                                                                    | [] ->
                                                                    bad
                                                                    | mp :: l1 ->
                                                                    (match l1 with
                                                                    | [] ->
                                                                    bad
                                                                    | v :: l2 ->
                                                                    (match v with
                                                                    | VN k ->
                                                                    (match l2 with
                                                                    | [] ->
                                                                    (match 
                                                                    asEntries
                                                                    x y mp with
                                                                    | Some f ->
                                                                    encPwc
                                                                    (df_plottable
                                                                    o f k)
                                                                    | None ->
                                                                    bad)
                                                                    | _ :: _ ->
                                                                    bad)
                                                                    | _ -> bad)))))
                                                                    | S n39 ->
                                                                    (match n39 with
                                                                    | O -> bad
                                                                    | S n40 ->
                                                                    (match n40 with
                                                                    | O -> bad
                                                                    | S n41 ->
                                                                    (match n41 with
                                                                    | O -> bad
                                                                    | S n42 ->
                                                                    (match n42 with
                                                                    | O -> bad
                                                                    | S n43 ->
                                                                    (match n43 with
                                                                    | O ->
                                                                    (match args with
                                                                    | [] ->
                                                                    bad
                                                                    | l :: l0 ->
                                                                    (match l0 with
                                                                    | [] ->
                                                                    (match 
                                                                    asQs l with
                                                                    | Some s ->
                                                                    encQs
                                                                    (sort_unique
                                                                    o s)
                                                                    | None ->
                                                                    bad)
                                                                    | _ :: _ ->
                                                                    bad))
                                                                    | S n44 ->
                                                                    (match n44 with
                                                                    | O ->
                                                                    (match args with
                                                                    | [] ->
                                                                    bad
                                                                    | l :: l0 ->
                                                                    (match l0 with
                                                                    | [] ->
                                                                    (match 
                                                                    asTrains l with
                                                                    | Some ts ->
                                                                    VL
                                                                    (map
                                                                    encTrain
                                                                    (reconcile
                                                                    o eps ts))
                                                                    | None ->
                                                                    bad)
                                                                    | _ :: _ ->
                                                                    bad))
                                                                    | S n45 ->
                                                                    (match n45 with
                                                                    | O ->
                                                                    (match args with
                                                                    | [] ->
                                                                    bad
                                                                    | l :: l0 ->
                                                                    (match l0 with
                                                                    | [] ->
                                                                    bad
                                                                    | v :: l1 ->
                                                                    (match v with
                                                                    | VQ ts ->
                                                                    (match l1 with
                                                                    | [] ->
                                                                    bad
                                                                    | v0 :: l2 ->
                                                                    (match v0 with
                                                                    | VQ te ->
                                                                    (match l2 with
                                                                    | [] ->
                                                                    (match 
                                                                    asQs l with
                                                                    | Some s ->
                                                                    encQs
                                                                    (isi_lengths
                                                                    o s ts te)
                                                                    | None ->
                                                                    bad)
                                                                    | _ :: _ ->
                                                                    bad)
                                                                    | _ -> bad))
                                                                    | _ -> bad)))
                                                                    | S n46 ->
                                                                    (match n46 with
                                                                    | O ->
                                                                    (match args with
                                                                    | [] ->
                                                                    bad
                                                                    | l :: l0 ->
                                                                    (match l0 with
                                                                    | [] ->
                                                                    (match 
                                                                    asTrains l with
                                                                    | Some ts ->
                                                                    VQ
                                                                    (default_thresh_sq
                                                                    o ts)
                                                                    | None ->
                                                                    bad)
                                                                    | _ :: _ ->
                                                                    bad))
                                                                    | S n47 ->
                                                                    (match n47 with
                                                                    | O -> bad
                                                                    | S n48 ->
                                                                    (match n48 with
                                                                    | O -> bad
                                                                    | S n49 ->
                                                                    (match n49 with
                                                                    | O -> bad
                                                                    | S n50 ->
                                                                    (match n50 with
                                                                    | O -> bad
                                                                    | S n51 ->
                                                                    (match n51 with
                                                                    | O -> bad
                                                                    | S n52 ->
                                                                    (match n52 with
                                                                    | O -> bad
                                                                    | S n53 ->
                                                                    (match n53 with
                                                                    | O ->
                                                                    (match args with
                                                                    | [] ->
                                                                    bad
                                                                    | v :: l ->
                                                                    (match v with
                                                                    | VB cy ->
                                                                    (match l with
                                                                    | [] ->
                                                                    bad
                                                                    | v0 :: l0 ->
                                                                    (match v0 with
                                                                    | VB rc ->
                                                                    (match l0 with
                                                                    | [] ->
                                                                    bad
                                                                    | v1 :: l1 ->
                                                                    (match v1 with
                                                                    | VQ m ->
                                                                    (match l1 with
                                                                    | [] ->
                                                                    bad
                                                                    | a :: l2 ->
                                                                    (match l2 with
                                                                    | [] ->
                                                                    bad
                                                                    | b :: l3 ->
                                                                    (match l3 with
                                                                    | [] ->
                                                                    (match 
                                                                    asTrain a with
                                                                    | Some x ->
                                                                    (match 
                                                                    asTrain b with
                                                                    | Some y ->
                                                                    encPwc
                                                                    (isi_profile_bi
                                                                    o eps cy
                                                                    rc m x y)
                                                                    | None ->
                                                                    bad)
                                                                    | None ->
                                                                    bad)
                                                                    | _ :: _ ->
                                                                    bad)))
                                                                    | _ -> bad))
                                                                    | _ -> bad))
                                                                    | _ -> bad))
                                                                    | S n54 ->
                                                                    (match n54 with
                                                                    | O ->
                                                                    (match args with
                                                                    | [] ->
                                                                    bad
                                                                    | v :: l ->
                                                                    (match v with
                                                                    | VB cy ->
                                                                    (match l with
                                                                    | [] ->
                                                                    bad
                                                                    | v0 :: l0 ->
                                                                    (match v0 with
                                                                    | VB rc ->
                                                                    (match l0 with
                                                                    | [] ->
                                                                    bad
                                                                    | v1 :: l1 ->
                                                                    (match v1 with
                                                                    | VQ m ->
                                                                    (match l1 with
                                                                    | [] ->
                                                                    bad
                                                                    | v2 :: l2 ->
                                                                    (match v2 with
                                                                    | VB ri ->
                                                                    (match l2 with
                                                                    | [] ->
                                                                    bad
                                                                    | a :: l3 ->
                                                                    (match l3 with
                                                                    | [] ->
                                                                    bad
                                                                    | b :: l4 ->
                                                                    (match l4 with
                                                                    | [] ->
                                                                    (match 
                                                                    asTrain a with
                                                                    | Some x ->
                                                                    (match 
                                                                    asTrain b with
                                                                    | Some y ->
                                                                    encPwl
                                                                    (spike_profile_bi
                                                                    o eps cy
                                                                    rc m ri x
                                                                    y)
                                                                    | None ->
                                                                    bad)
                                                                    | None ->
                                                                    bad)
                                                                    | _ :: _ ->
                                                                    bad)))
                                                                    | _ -> bad))
                                                                    | _ -> bad))
                                                                    | _ -> bad))
                                                                    | _ -> bad))
                                                                    | S n55 ->
                                                                    (match n55 with
                                                                    | O ->
                                                                    (match args with
                                                                    | [] ->
                                                                    bad
                                                                    | v :: l ->
                                                                    (match v with
                                                                    | VB cy ->
                                                                    (match l with
                                                                    | [] ->
                                                                    bad
                                                                    | v0 :: l0 ->
                                                                    (match v0 with
                                                                    | VB rc ->
                                                                    (match l0 with
                                                                    | [] ->
                                                                    bad
                                                                    | v1 :: l1 ->
                                                                    (match v1 with
                                                                    | VQ mt ->
                                                                    (match l1 with
                                                                    | [] ->
                                                                    bad
                                                                    | v2 :: l2 ->
                                                                    (match v2 with
                                                                    | VQ m ->
                                                                    (match l2 with
                                                                    | [] ->
                                                                    bad
                                                                    | a :: l3 ->
                                                                    (match l3 with
                                                                    | [] ->
                                                                    bad
                                                                    | b :: l4 ->
                                                                    (match l4 with
                                                                    | [] ->
                                                                    (match 
                                                                    asTrain a with
                                                                    | Some x ->
                                                                    (match 
                                                                    asTrain b with
                                                                    | Some y ->
                                                                    encDf
                                                                    (spike_sync_profile_bi
                                                                    o eps cy
                                                                    rc mt m x
                                                                    y)
                                                                    | None ->
                                                                    bad)
                                                                    | None ->
                                                                    bad)
                                                                    | _ :: _ ->
                                                                    bad)))
                                                                    | _ -> bad))
                                                                    | _ -> bad))
                                                                    | _ -> bad))
                                                                    | _ -> bad))
                                                                    | S n56 ->
                                                                    (match n56 with
                                                                    | O ->
                                                                    (match args with
                                                                    | [] ->
                                                                    bad
                                                                    | v :: l ->
                                                                    (match v with
                                                                    | VB cy ->
                                                                    (match l with
                                                                    | [] ->
                                                                    bad
                                                                    | v0 :: l0 ->
                                                                    (match v0 with
                                                                    | VB rc ->
                                                                    (match l0 with
                                                                    | [] ->
                                                                    bad
                                                                    | v1 :: l1 ->
                                                                    (match v1 with
                                                                    | VQ mt ->
                                                                    (match l1 with
                                                                    | [] ->
                                                                    bad
                                                                    | v2 :: l2 ->
                                                                    (match v2 with
                                                                    | VQ m ->
                                                                    (match l2 with
                                                                    | [] ->
                                                                    bad
                                                                    | a :: l3 ->
                                                                    (match l3 with
                                                                    | [] ->
                                                                    bad
                                                                    | b :: l4 ->
                                                                    (match l4 with
                                                                    | [] ->
                                                                    (match 
                                                                    asTrain a with
                                                                    | Some x ->
                                                                    (match 
                                                                    asTrain b with
                                                                    | Some y ->
                                                                    encRes
                                                                    encDf
                                                                    (order_profile_bi
                                                                    o eps cy
                                                                    rc mt m x
                                                                    y)
                                                                    | None ->
                                                                    bad)
                                                                    | None ->
                                                                    bad)
                                                                    | _ :: _ ->
                                                                    bad)))
                                                                    | _ -> bad))
                                                                    | _ -> bad))
                                                                    | _ -> bad))
                                                                    | _ -> bad))
                                                                    | S n57 ->
                                                                    (match n57 with
                                                                    | O ->
                                                                    (match args with
                                                                    | [] ->
                                                                    bad
                                                                    | v :: l ->
                                                                    (match v with
                                                                    | VB cy ->
                                                                    (match l with
                                                                    | [] ->
                                                                    bad
                                                                    | v0 :: l0 ->
                                                                    (match v0 with
                                                                    | VB rc ->
                                                                    (match l0 with
                                                                    | [] ->
                                                                    bad
                                                                    | v1 :: l1 ->
                                                                    (match v1 with
                                                                    | VQ m ->
                                                                    (match l1 with
                                                                    | [] ->
                                                                    bad
                                                                    | iv :: l2 ->
                                                                    (match l2 with
                                                                    | [] ->
                                                                    bad
                                                                    | a :: l3 ->
                                                                    (match l3 with
                                                                    | [] ->
                                                                    bad
                                                                    | b :: l4 ->
                                                                    (match l4 with
                                                                    | [] ->
                                                                    (match 
                                                                    asIv iv with
                                                                    | Some i ->
                                                                    (match 
                                                                    asTrain a with
                                                                    | Some x ->
                                                                    (match 
                                                                    asTrain b with
                                                                    | Some y ->
                                                                    encRes
                                                                    (fun x0 ->
                                                                    VQ x0)
                                                                    (isi_distance_bi
                                                                    o eps cy
                                                                    rc m i x
                                                                    y)
                                                                    | None ->
                                                                    bad)
                                                                    | None ->
                                                                    bad)
                                                                    | None ->
                                                                    bad)
                                                                    | _ :: _ ->
                                                                    bad))))
                                                                    | _ -> bad))
                                                                    | _ -> bad))
                                                                    | _ -> bad))
                                                                    | S n58 ->
                                                                    (match n58 with
                                                                    | O ->
                                                                    (match args with
                                                                    | [] ->
                                                                    bad
                                                                    | v :: l ->
                                                                    (match v with
                                                                    | VB cy ->
                                                                    (match l with
                                                                    | [] ->
                                                                    bad
                                                                    | v0 :: l0 ->
                                                                    (match v0 with
                                                                    | VB rc ->
                                                                    (match l0 with
                                                                    | [] ->
                                                                    bad
                                                                    | v1 :: l1 ->
                                                                    (match v1 with
                                                                    | VQ m ->
                                                                    (match l1 with
                                                                    | [] ->
                                                                    bad
                                                                    | v2 :: l2 ->
                                                                    (match v2 with
                                                                    | VB ri ->
                                                                    (match l2 with
                                                                    | [] ->
                                                                    bad
                                                                    | iv :: l3 ->
                                                                    (match l3 with
                                                                    | [] ->
                                                                    bad
                                                                    | a :: l4 ->
                                                                    (match l4 with
                                                                    | [] ->
                                                                    bad
                                                                    | b :: l5 ->
                                                                    (match l5 with
                                                                    | [] ->
                                                                    (match 
                                                                    asIv iv with
                                                                    | Some i ->
                                                                    (match 
                                                                    asTrain a with
                                                                    | Some x ->
                                                                    (match 
                                                                    asTrain b with
                                                                    | Some y ->
                                                                    encRes
                                                                    (fun x0 ->
                                                                    VQ x0)
                                                                    (spike_distance_bi
                                                                    o eps cy
                                                                    rc m ri i
                                                                    x y)
                                                                    | None ->
                                                                    bad)
                                                                    | None ->
                                                                    bad)
                                                                    | None ->
                                                                    bad)
                                                                    | _ :: _ ->
                                                                    bad))))
                                                                    | _ -> bad))
                                                                    | _ -> bad))
                                                                    | _ -> bad))
                                                                    | _ -> bad))
                                                                    | S n59 ->
                                                                    (match n59 with
                                                                    | O ->
                                                                    (match args with
                                                                    | [] ->
                                                                    bad
                                                                    | v :: l ->
                                                                    (match v with
                                                                    | VB cy ->
                                                                    (match l with
                                                                    | [] ->
                                                                    bad
                                                                    | v0 :: l0 ->
                                                                    (match v0 with
                                                                    | VB rc ->
                                                                    (match l0 with
                                                                    | [] ->
                                                                    bad
                                                                    | v1 :: l1 ->
                                                                    (match v1 with
                                                                    | VQ mt ->
                                                                    (match l1 with
                                                                    | [] ->
                                                                    bad
                                                                    | v2 :: l2 ->
                                                                    (match v2 with
                                                                    | VQ m ->
                                                                    (match l2 with
                                                                    | [] ->
                                                                    bad
                                                                    | iv :: l3 ->
                                                                    (match l3 with
                                                                    | [] ->
                                                                    bad
                                                                    | a :: l4 ->
                                                                    (match l4 with
                                                                    | [] ->
                                                                    bad
                                                                    | b :: l5 ->
                                                                    (match l5 with
                                                                    | [] ->
                                                                    (match 
                                                                    asIv iv with
                                                                    | Some i ->
                                                                    (match 
                                                                    asTrain a with
                                                                    | Some x ->
                                                                    (match 
                                                                    asTrain b with
                                                                    | Some y ->
                                                                    encRes
                                                                    (fun x0 ->
                                                                    VQ x0)
                                                                    (spike_sync_bi
                                                                    o eps cy
                                                                    rc mt m i
                                                                    x y)
                                                                    | None ->
                                                                    bad)
                                                                    | None ->
                                                                    bad)
                                                                    | None ->
                                                                    bad)
                                                                    | _ :: _ ->
                                                                    bad))))
                                                                    | _ -> bad))
                                                                    | _ -> bad))
                                                                    | _ -> bad))
                                                                    | _ -> bad))
                                                                    | S n60 ->
                                                                    (match n60 with
                                                                    | O -> bad
                                                                    | S n61 ->
                                                                    (match n61 with
                                                                    | O -> bad
                                                                    | S n62 ->
                                                                    (match n62 with
                                                                    | O -> bad
                                                                    | S n63 ->
                                                                    (match n63 with
                                                                    | O ->
                                                                    (match args with
                                                                    | [] ->
                                                                    bad
                                                                    | v :: l0 ->
                                                                    (match v with
                                                                    | VB cy ->
                                                                    (match l0 with
                                                                    | [] ->
                                                                    bad
                                                                    | v0 :: l1 ->
                                                                    (match v0 with
                                                                    | VB rc ->
                                                                    (match l1 with
                                                                    | [] ->
                                                                    bad
                                                                    | v1 :: l2 ->
                                                                    (match v1 with
                                                                    | VQ m ->
                                                                    (match l2 with
                                                                    | [] ->
                                                                    bad
                                                                    | l :: l3 ->
                                                                    (match l3 with
                                                                    | [] ->
                                                                    bad
                                                                    | ix :: l4 ->
                                                                    (match l4 with
                                                                    | [] ->
                                                                    (match 
                                                                    asTrains l with
                                                                    | Some ts ->
                                                                    (match 
                                                                    asIdx ix with
                                                                    | Some i ->
                                                                    encRes
                                                                    encPwc
                                                                    (isi_profile_multi
                                                                    o eps cy
                                                                    rc m ts i)
                                                                    | None ->
                                                                    bad)
                                                                    | None ->
                                                                    bad)
                                                                    | _ :: _ ->
                                                                    bad)))
                                                                    | _ -> bad))
                                                                    | _ -> bad))
                                                                    | _ -> bad))
                                                                    | S n64 ->
                                                                    (match n64 with
                                                                    | O ->
                                                                    (match args with
                                                                    | [] ->
                                                                    bad
                                                                    | v :: l0 ->
                                                                    (match v with
                                                                    | VB cy ->
                                                                    (match l0 with
                                                                    | [] ->
                                                                    bad
                                                                    | v0 :: l1 ->
                                                                    (match v0 with
                                                                    | VB rc ->
                                                                    (match l1 with
                                                                    | [] ->
                                                                    bad
                                                                    | v1 :: l2 ->
                                                                    (match v1 with
                                                                    | VQ m ->
                                                                    (match l2 with
                                                                    | [] ->
                                                                    bad
                                                                    | v2 :: l3 ->
                                                                    (match v2 with
                                                                    | VB ri ->
                                                                    (match l3 with
                                                                    | [] ->
                                                                    bad
                                                                    | l :: l4 ->
                                                                    (match l4 with
                                                                    | [] ->
                                                                    bad
                                                                    | ix :: l5 ->
                                                                    (match l5 with
                                                                    | [] ->
                                                                    (match 
                                                                    asTrains l with
                                                                    | Some ts ->
                                                                    (match 
                                                                    asIdx ix with
                                                                    | Some i ->
                                                                    encRes
                                                                    encPwl
                                                                    (spike_profile_multi
                                                                    o eps cy
                                                                    rc m ri
                                                                    ts i)
                                                                    | None ->
                                                                    bad)
                                                                    | None ->
                                                                    bad)
                                                                    | _ :: _ ->
                                                                    bad)))
                                                                    | _ -> bad))
                                                                    | _ -> bad))
                                                                    | _ -> bad))
                                                                    | _ -> bad))
                                                                    | S n65 ->
                                                                    (match n65 with
                                                                    | O ->
                                                                    (match args with
                                                                    | [] ->
                                                                    bad
                                                                    | v :: l0 ->
                                                                    (match v with
                                                                    | VB cy ->
                                                                    (match l0 with
                                                                    | [] ->
                                                                    bad
                                                                    | v0 :: l1 ->
                                                                    (match v0 with
                                                                    | VB rc ->
                                                                    (match l1 with
                                                                    | [] ->
                                                                    bad
                                                                    | v1 :: l2 ->
                                                                    (match v1 with
                                                                    | VQ mt ->
                                                                    (match l2 with
                                                                    | [] ->
                                                                    bad
                                                                    | v2 :: l3 ->
                                                                    (match v2 with
                                                                    | VQ m ->
                                                                    (match l3 with
                                                                    | [] ->
                                                                    bad
                                                                    | l :: l4 ->
                                                                    (match l4 with
                                                                    | [] ->
                                                                    bad
                                                                    | ix :: l5 ->
                                                                    (match l5 with
                                                                    | [] ->
                                                                    (match 
                                                                    asTrains l with
                                                                    | Some ts ->
                                                                    (match 
                                                                    asIdx ix with
                                                                    | Some i ->
                                                                    encRes
                                                                    encDf
                                                                    (spike_sync_profile_multi
                                                                    o eps cy
                                                                    rc mt m
                                                                    ts i)
                                                                    | None ->
                                                                    bad)
                                                                    | None ->
                                                                    bad)
                                                                    | _ :: _ ->
                                                                    bad)))
                                                                    | _ -> bad))
                                                                    | _ -> bad))
                                                                    | _ -> bad))
                                                                    | _ -> bad))
                                                                    | S n66 ->
                                                                    (match n66 with
                                                                    | O ->
                                                                    (match args with
                                                                    | [] ->
                                                                    bad
                                                                    | v :: l0 ->
                                                                    (match v with
                                                                    | VB cy ->
                                                                    (match l0 with
                                                                    | [] ->
                                                                    bad
                                                                    | v0 :: l1 ->
                                                                    (match v0 with
                                                                    | VB rc ->
                                                                    (match l1 with
                                                                    | [] ->
                                                                    bad
                                                                    | v1 :: l2 ->
                                                                    (match v1 with
                                                                    | VQ mt ->
                                                                    (match l2 with
                                                                    | [] ->
                                                                    bad
                                                                    | v2 :: l3 ->
                                                                    (match v2 with
                                                                    | VQ m ->
                                                                    (match l3 with
                                                                    | [] ->
                                                                    bad
                                                                    | l :: l4 ->
                                                                    (match l4 with
                                                                    | [] ->
                                                                    bad
                                                                    | ix :: l5 ->
                                                                    (match l5 with
                                                                    | [] ->
                                                                    (match 
                                                                    asTrains l with
                                                                    | Some ts ->
                                                                    (match 
                                                                    asIdx ix with
                                                                    | Some i ->
                                                                    encRes
                                                                    encDf
                                                                    (order_profile_multi
                                                                    o eps cy
                                                                    rc mt m
                                                                    ts i)
                                                                    | None ->
                                                                    bad)
                                                                    | None ->
                                                                    bad)
                                                                    | _ :: _ ->
                                                                    bad)))
                                                                    | _ -> bad))
                                                                    | _ -> bad))
                                                                    | _ -> bad))
                                                                    | _ -> bad))
                                                                    | S n67 ->
                                                                    (match n67 with
                                                                    | O ->
                                                                    (match args with
                                                                    | [] ->
                                                                    bad
                                                                    | v :: l0 ->
                                                                    (match v with
                                                                    | VB cy ->
                                                                    (match l0 with
                                                                    | [] ->
                                                                    bad
                                                                    | v0 :: l1 ->
                                                                    (match v0 with
                                                                    | VB rc ->
                                                                    (match l1 with
                                                                    | [] ->
                                                                    bad
                                                                    | v1 :: l2 ->
                                                                    (match v1 with
                                                                    | VQ m ->
                                                                    (match l2 with
                                                                    | [] ->
                                                                    bad
                                                                    | iv :: l3 ->
                                                                    (match l3 with
                                                                    | [] ->
                                                                    bad
                                                                    | l :: l4 ->
                                                                    (match l4 with
                                                                    | [] ->
                                                                    bad
                                                                    | ix :: l5 ->
                                                                    (match l5 with
                                                                    | [] ->
                                                                    (match 
                                                                    asIv iv with
                                                                    | Some v2 ->
                                                                    (match 
                                                                    asTrains l with
                                                                    | Some ts ->
                                                                    (match 
                                                                    asIdx ix with
                                                                    | Some i ->
                                                                    encRes
                                                                    (fun x ->
                                                                    VQ x)
                                                                    (isi_distance_multi
                                                                    o eps cy
                                                                    rc m v2
                                                                    ts i)
                                                                    | None ->
                                                                    bad)
                                                                    | None ->
                                                                    bad)
                                                                    | None ->
                                                                    bad)
                                                                    | _ :: _ ->
                                                                    bad))))
                                                                    | _ -> bad))
                                                                    | _ -> bad))
                                                                    | _ -> bad))
                                                                    | S n68 ->
                                                                    (match n68 with
                                                                    | O ->
                                                                    (match args with
                                                                    | [] ->
                                                                    bad
                                                                    | v :: l0 ->
                                                                    (match v with
                                                                    | VB cy ->
                                                                    (match l0 with
                                                                    | [] ->
                                                                    bad
                                                                    | v0 :: l1 ->
                                                                    (match v0 with
                                                                    | VB rc ->
                                                                    (match l1 with
                                                                    | [] ->
                                                                    bad
                                                                    | v1 :: l2 ->
                                                                    (match v1 with
                                                                    | VQ m ->
                                                                    (match l2 with
                                                                    | [] ->
                                                                    bad
                                                                    | v2 :: l3 ->
                                                                    (match v2 with
                                                                    | VB ri ->
                                                                    (match l3 with
                                                                    | [] ->
                                                                    bad
                                                                    | iv :: l4 ->
                                                                    (match l4 with
                                                                    | [] ->
                                                                    bad
                                                                    | l :: l5 ->
                                                                    (match l5 with
                                                                    | [] ->
                                                                    bad
                                                                    | ix :: l6 ->
                                                                    (match l6 with
                                                                    | [] ->
                                                                    (match 
                                                                    asIv iv with
                                                                    | Some v3 ->
                                                                    (match 
                                                                    asTrains l with
                                                                    | Some ts ->
                                                                    (match 
                                                                    asIdx ix with
                                                                    | Some i ->
                                                                    encRes
                                                                    (fun x ->
                                                                    VQ x)
                                                                    (spike_distance_multi
                                                                    o eps cy
                                                                    rc m ri
                                                                    v3 ts i)
                                                                    | None ->
                                                                    bad)
                                                                    | None ->
                                                                    bad)
                                                                    | None ->
                                                                    bad)
                                                                    | _ :: _ ->
                                                                    bad))))
                                                                    | _ -> bad))
                                                                    | _ -> bad))
                                                                    | _ -> bad))
                                                                    | _ -> bad))
                                                                    | S n69 ->
                                                                    (match n69 with
                                                                    | O ->
                                                                    (match args with
                                                                    | [] ->
                                                                    bad
                                                                    | v :: l0 ->
                                                                    (match v with
                                                                    | VB cy ->
                                                                    (match l0 with
                                                                    | [] ->
                                                                    bad
                                                                    | v0 :: l1 ->
                                                                    (match v0 with
                                                                    | VB rc ->
                                                                    (match l1 with
                                                                    | [] ->
                                                                    bad
                                                                    | v1 :: l2 ->
                                                                    (match v1 with
                                                                    | VQ mt ->
                                                                    (match l2 with
                                                                    | [] ->
                                                                    bad
                                                                    | v2 :: l3 ->
                                                                    (match v2 with
                                                                    | VQ m ->
                                                                    (match l3 with
                                                                    | [] ->
                                                                    bad
                                                                    | iv :: l4 ->
                                                                    (match l4 with
                                                                    | [] ->
                                                                    bad
                                                                    | l :: l5 ->
                                                                    (match l5 with
                                                                    | [] ->
                                                                    bad
                                                                    | ix :: l6 ->
                                                                    (match l6 with
                                                                    | [] ->
                                                                    (match 
                                                                    asIv iv with
                                                                    | Some v3 ->
                                                                    (match 
                                                                    asTrains l with
                                                                    | Some ts ->
                                                                    (match 
                                                                    asIdx ix with
                                                                    | Some i ->
                                                                    encRes
                                                                    (fun x ->
                                                                    VQ x)
                                                                    (spike_sync_multi
                                                                    o eps cy
                                                                    rc mt m
                                                                    v3 ts i)
                                                                    | None ->
                                                                    bad)
                                                                    | None ->
                                                                    bad)
                                                                    | None ->
                                                                    bad)
                                                                    | _ :: _ ->
                                                                    bad))))
                                                                    | _ -> bad))
                                                                    | _ -> bad))
                                                                    | _ -> bad))
                                                                    | _ -> bad))
                                                                    | S n70 ->
                                                                    (match n70 with
                                                                    | O ->
                                                                    (match args with
                                                                    | [] ->
                                                                    bad
                                                                    | v :: l0 ->
                                                                    (match v with
                                                                    | VB cy ->
                                                                    (match l0 with
                                                                    | [] ->
                                                                    bad
                                                                    | v0 :: l1 ->
                                                                    (match v0 with
                                                                    | VB rc ->
                                                                    (match l1 with
                                                                    | [] ->
                                                                    bad
                                                                    | v1 :: l2 ->
                                                                    (match v1 with
                                                                    | VQ m ->
                                                                    (match l2 with
                                                                    | [] ->
                                                                    bad
                                                                    | iv :: l3 ->
                                                                    (match l3 with
                                                                    | [] ->
                                                                    bad
                                                                    | l :: l4 ->
                                                                    (match l4 with
                                                                    | [] ->
                                                                    bad
                                                                    | ix :: l5 ->
                                                                    (match l5 with
                                                                    | [] ->
                                                                    (match 
                                                                    asIv iv with
                                                                    | Some v2 ->
                                                                    (match 
                                                                    asTrains l with
                                                                    | Some ts ->
                                                                    (match 
                                                                    asIdx ix with
                                                                    | Some i ->
                                                                    encRes
                                                                    encMatrix
                                                                    (isi_distance_matrix
                                                                    o eps cy
                                                                    rc m v2
                                                                    ts i)
                                                                    | None ->
                                                                    bad)
                                                                    | None ->
                                                                    bad)
                                                                    | None ->
                                                                    bad)
                                                                    | _ :: _ ->
                                                                    bad))))
                                                                    | _ -> bad))
                                                                    | _ -> bad))
                                                                    | _ -> bad))
                                                                    | S n71 ->
                                                                    (match n71 with
                                                                    | O ->
                                                                    (match args with
                                                                    | [] ->
                                                                    bad
                                                                    | v :: l0 ->
                                                                    (match v with
                                                                    | VB cy ->
                                                                    (match l0 with
                                                                    | [] ->
                                                                    bad
                                                                    | v0 :: l1 ->
                                                                    (match v0 with
                                                                    | VB rc ->
                                                                    (match l1 with
                                                                    | [] ->
                                                                    bad
                                                                    | v1 :: l2 ->
                                                                    (match v1 with
                                                                    | VQ m ->
                                                                    (match l2 with
                                                                    | [] ->
                                                                    bad
                                                                    | v2 :: l3 ->
                                                                    (match v2 with
                                                                    | VB ri ->
                                                                    (match l3 with
                                                                    | [] ->
                                                                    bad
                                                                    | iv :: l4 ->
                                                                    (match l4 with
                                                                    | [] ->
                                                                    bad
                                                                    | l :: l5 ->
                                                                    (match l5 with
                                                                    | [] ->
                                                                    bad
                                                                    | ix :: l6 ->
                                                                    (match l6 with
                                                                    | [] ->
                                                                    (match 
                                                                    asIv iv with
                                                                    | Some v3 ->
                                                                    (match 
                                                                    asTrains l with
                                                                    | Some ts ->
                                                                    (match 
                                                                    asIdx ix with
                                                                    | Some i ->
                                                                    encRes
                                                                    encMatrix
                                                                    (spike_distance_matrix
                                                                    o eps cy
                                                                    rc m ri
                                                                    v3 ts i)
                                                                    | None ->
                                                                    bad)
                                                                    | None ->
                                                                    bad)
                                                                    | None ->
                                                                    bad)
                                                                    | _ :: _ ->
                                                                    bad))))
                                                                    | _ -> bad))
                                                                    | _ -> bad))
                                                                    | _ -> bad))
                                                                    | _ -> bad))
                                                                    | S n72 ->
                                                                    (match n72 with
                                                                    | O ->
                                                                    (match args with
                                                                    | [] ->
                                                                    bad
                                                                    | v :: l0 ->
                                                                    (match v with
                                                                    | VB cy ->
                                                                    (match l0 with
                                                                    | [] ->
                                                                    bad
                                                                    | v0 :: l1 ->
                                                                    (match v0 with
                                                                    | VB rc ->
                                                                    (match l1 with
                                                                    | [] ->
                                                                    bad
                                                                    | v1 :: l2 ->
                                                                    (match v1 with
                                                                    | VQ mt ->
                                                                    (match l2 with
                                                                    | [] ->
                                                                    bad
                                                                    | v2 :: l3 ->
                                                                    (match v2 with
                                                                    | VQ m ->
                                                                    (match l3 with
                                                                    | [] ->
                                                                    bad
                                                                    | iv :: l4 ->
                                                                    (match l4 with
                                                                    | [] ->
                                                                    bad
                                                                    | l :: l5 ->
                                                                    (match l5 with
                                                                    | [] ->
                                                                    bad
                                                                    | ix :: l6 ->
                                                                    (match l6 with
                                                                    | [] ->
                                                                    (match 
                                                                    asIv iv with
                                                                    | Some v3 ->
                                                                    (match 
                                                                    asTrains l with
                                                                    | Some ts ->
                                                                    (match 
                                                                    asIdx ix with
                                                                    | Some i ->
                                                                    encRes
                                                                    encMatrix
                                                                    (spike_sync_matrix
                                                                    o eps cy
                                                                    rc mt m
                                                                    v3 ts i)
                                                                    | None ->
                                                                    bad)
                                                                    | None ->
                                                                    bad)
                                                                    | None ->
                                                                    bad)
                                                                    | _ :: _ ->
                                                                    bad))))
                                                                    | _ -> bad))
                                                                    | _ -> bad))
                                                                    | _ -> bad))
                                                                    | _ -> bad))
                                                                    | S n73 ->
                                                                    (match n73 with
                                                                    | O ->
                                                                    (match args with
                                                                    | [] ->
                                                                    bad
                                                                    | v :: l0 ->
                                                                    (match v with
                                                                    | VB cy ->
                                                                    (match l0 with
                                                                    | [] ->
                                                                    bad
                                                                    | v0 :: l1 ->
                                                                    (match v0 with
                                                                    | VB rc ->
                                                                    (match l1 with
                                                                    | [] ->
                                                                    bad
                                                                    | v1 :: l2 ->
                                                                    (match v1 with
                                                                    | VQ mt ->
                                                                    (match l2 with
                                                                    | [] ->
                                                                    bad
                                                                    | v2 :: l3 ->
                                                                    (match v2 with
                                                                    | VQ m ->
                                                                    (match l3 with
                                                                    | [] ->
                                                                    bad
                                                                    | v3 :: l4 ->
                                                                    (match v3 with
                                                                    | VQ thr ->
                                                                    (match l4 with
                                                                    | [] ->
                                                                    bad
                                                                    | l :: l5 ->
                                                                    (match l5 with
                                                                    | [] ->
                                                                    (match 
                                                                    asTrains l with
                                                                    | Some ts ->
                                                                    VL
                                                                    (map
                                                                    (fun kr ->
                                                                    VL
                                                                    ((encTrain
                                                                    (fst kr)) :: (
                                                                    (encTrain
                                                                    (snd kr)) :: [])))
                                                                    (filter_by_spike_sync
                                                                    o eps cy
                                                                    rc mt m
                                                                    thr ts))
                                                                    | None ->
                                                                    bad)
                                                                    | _ :: _ ->
                                                                    bad))
                                                                    | _ -> bad))
                                                                    | _ -> bad))
                                                                    | _ -> bad))
                                                                    | _ -> bad))
                                                                    | _ -> bad))
                                                                    | S n74 ->
                                                                    (match n74 with
                                                                    | O ->
                                                                    (match args with
                                                                    | [] ->
                                                                    bad
                                                                    | v :: l ->
                                                                    (match v with
                                                                    | VB cy ->
                                                                    (match l with
                                                                    | [] ->
                                                                    bad
                                                                    | v0 :: l0 ->
                                                                    (match v0 with
                                                                    | VB rc ->
                                                                    (match l0 with
                                                                    | [] ->
                                                                    bad
                                                                    | v1 :: l1 ->
                                                                    (match v1 with
                                                                    | VB nrm ->
                                                                    (match l1 with
                                                                    | [] ->
                                                                    bad
                                                                    | v2 :: l2 ->
                                                                    (match v2 with
                                                                    | VQ mt ->
                                                                    (match l2 with
                                                                    | [] ->
                                                                    bad
                                                                    | v3 :: l3 ->
                                                                    (match v3 with
                                                                    | VQ m ->
                                                                    (match l3 with
                                                                    | [] ->
                                                                    bad
                                                                    | a :: l4 ->
                                                                    (match l4 with
                                                                    | [] ->
                                                                    bad
                                                                    | b :: l5 ->
                                                                    (match l5 with
                                                                    | [] ->
                                                                    (match 
                                                                    asTrain a with
                                                                    | Some x ->
                                                                    (match 
                                                                    asTrain b with
                                                                    | Some y ->
                                                                    encRes
                                                                    (fun x0 ->
                                                                    VQ x0)
                                                                    (spike_train_order_bi
                                                                    o eps cy
                                                                    rc nrm mt
                                                                    m x y)
                                                                    | None ->
                                                                    bad)
                                                                    | None ->
                                                                    bad)
                                                                    | _ :: _ ->
                                                                    bad)))
                                                                    | _ -> bad))
                                                                    | _ -> bad))
                                                                    | _ -> bad))
                                                                    | _ -> bad))
                                                                    | _ -> bad))
                                                                    | S n75 ->
                                                                    (match n75 with
                                                                    | O ->
                                                                    (match args with
                                                                    | [] ->
                                                                    bad
                                                                    | v :: l0 ->
                                                                    (match v with
                                                                    | VB cy ->
                                                                    (match l0 with
                                                                    | [] ->
                                                                    bad
                                                                    | v0 :: l1 ->
                                                                    (match v0 with
                                                                    | VB rc ->
                                                                    (match l1 with
                                                                    | [] ->
                                                                    bad
                                                                    | v1 :: l2 ->
                                                                    (match v1 with
                                                                    | VB nrm ->
                                                                    (match l2 with
                                                                    | [] ->
                                                                    bad
                                                                    | v2 :: l3 ->
                                                                    (match v2 with
                                                                    | VQ mt ->
                                                                    (match l3 with
                                                                    | [] ->
                                                                    bad
                                                                    | v3 :: l4 ->
                                                                    (match v3 with
                                                                    | VQ m ->
                                                                    (match l4 with
                                                                    | [] ->
                                                                    bad
                                                                    | l :: l5 ->
                                                                    (match l5 with
                                                                    | [] ->
                                                                    bad
                                                                    | ix :: l6 ->
                                                                    (match l6 with
                                                                    | [] ->
                                                                    (match 
                                                                    asTrains l with
                                                                    | Some ts ->
                                                                    (match 
                                                                    asIdx ix with
                                                                    | Some i ->
                                                                    encRes
                                                                    (fun x ->
                                                                    VQ x)
                                                                    (spike_train_order_multi
                                                                    o eps cy
                                                                    rc nrm mt
                                                                    m ts i)
                                                                    | None ->
                                                                    bad)
                                                                    | None ->
                                                                    bad)
                                                                    | _ :: _ ->
                                                                    bad)))
                                                                    | _ -> bad))
                                                                    | _ -> bad))
                                                                    | _ -> bad))
                                                                    | _ -> bad))
                                                                    | _ -> bad))
                                                                    | S n76 ->
                                                                    (match n76 with
                                                                    | O ->
                                                                    (match args with
                                                                    | [] ->
                                                                    bad
                                                                    | v :: l0 ->
                                                                    (match v with
                                                                    | VB cy ->
                                                                    (match l0 with
                                                                    | [] ->
                                                                    bad
                                                                    | v0 :: l1 ->
                                                                    (match v0 with
                                                                    | VB rc ->
                                                                    (match l1 with
                                                                    | [] ->
                                                                    bad
                                                                    | v1 :: l2 ->
                                                                    (match v1 with
                                                                    | VQ mt ->
                                                                    (match l2 with
                                                                    | [] ->
                                                                    bad
                                                                    | v2 :: l3 ->
                                                                    (match v2 with
                                                                    | VQ m ->
                                                                    (match l3 with
                                                                    | [] ->
                                                                    bad
                                                                    | l :: l4 ->
                                                                    (match l4 with
                                                                    | [] ->
                                                                    bad
                                                                    | ix :: l5 ->
                                                                    (match l5 with
                                                                    | [] ->
                                                                    (match 
                                                                    asTrains l with
                                                                    | Some ts ->
                                                                    (match 
                                                                    asIdx ix with
                                                                    | Some i ->
                                                                    encRes
                                                                    encMatrix
                                                                    (directionality_values
                                                                    o eps cy
                                                                    rc mt m
                                                                    ts i)
                                                                    | None ->
                                                                    bad)
                                                                    | None ->
                                                                    bad)
                                                                    | _ :: _ ->
                                                                    bad)))
                                                                    | _ -> bad))
                                                                    | _ -> bad))
                                                                    | _ -> bad))
                                                                    | _ -> bad))
                                                                    | S n77 ->
                                                                    (match n77 with
                                                                    | O ->
                                                                    (match args with
                                                                    | [] ->
                                                                    bad
                                                                    | v :: l ->
                                                                    (match v with
                                                                    | VB cy ->
                                                                    (match l with
                                                                    | [] ->
                                                                    bad
                                                                    | v0 :: l0 ->
                                                                    (match v0 with
                                                                    | VB rc ->
                                                                    (match l0 with
                                                                    | [] ->
                                                                    bad
                                                                    | v1 :: l1 ->
                                                                    (match v1 with
                                                                    | VB nrm ->
                                                                    (match l1 with
                                                                    | [] ->
                                                                    bad
                                                                    | v2 :: l2 ->
                                                                    (match v2 with
                                                                    | VQ mt ->
                                                                    (match l2 with
                                                                    | [] ->
                                                                    bad
                                                                    | v3 :: l3 ->
                                                                    (match v3 with
                                                                    | VQ m ->
                                                                    (match l3 with
                                                                    | [] ->
                                                                    bad
                                                                    | a :: l4 ->
                                                                    (match l4 with
                                                                    | [] ->
                                                                    bad
                                                                    | b :: l5 ->
                                                                    (match l5 with
                                                                    | [] ->
                                                                    (match 
                                                                    asTrain a with
                                                                    | Some x ->
                                                                    (match 
                                                                    asTrain b with
                                                                    | Some y ->
                                                                    encRes
                                                                    (fun x0 ->
                                                                    VQ x0)
                                                                    (spike_directionality
                                                                    o eps cy
                                                                    rc nrm mt
                                                                    m x y)
                                                                    | None ->
                                                                    bad)
                                                                    | None ->
                                                                    bad)
                                                                    | _ :: _ ->
                                                                    bad)))
                                                                    | _ -> bad))
                                                                    | _ -> bad))
                                                                    | _ -> bad))
                                                                    | _ -> bad))
                                                                    | _ -> bad))
                                                                    | S n78 ->
                                                                    (match n78 with
                                                                    | O ->
                                                                    (match args with
                                                                    | [] ->
                                                                    bad
                                                                    | v :: l0 ->
                                                                    (match v with
                                                                    | VB cy ->
                                                                    (match l0 with
                                                                    | [] ->
                                                                    bad
                                                                    | v0 :: l1 ->
                                                                    (match v0 with
                                                                    | VB rc ->
                                                                    (match l1 with
                                                                    | [] ->
                                                                    bad
                                                                    | v1 :: l2 ->
                                                                    (match v1 with
                                                                    | VB nrm ->
                                                                    (match l2 with
                                                                    | [] ->
                                                                    bad
                                                                    | v2 :: l3 ->
                                                                    (match v2 with
                                                                    | VQ mt ->
                                                                    (match l3 with
                                                                    | [] ->
                                                                    bad
                                                                    | v3 :: l4 ->
                                                                    (match v3 with
                                                                    | VQ m ->
                                                                    (match l4 with
                                                                    | [] ->
                                                                    bad
                                                                    | l :: l5 ->
                                                                    (match l5 with
                                                                    | [] ->
                                                                    bad
                                                                    | ix :: l6 ->
                                                                    (match l6 with
                                                                    | [] ->
                                                                    (match 
                                                                    asTrains l with
                                                                    | Some ts ->
                                                                    (match 
                                                                    asIdx ix with
                                                                    | Some i ->
                                                                    encRes
                                                                    encMatrix
                                                                    (spike_directionality_matrix
                                                                    o eps cy
                                                                    rc nrm mt
                                                                    m ts i)
                                                                    | None ->
                                                                    bad)
                                                                    | None ->
                                                                    bad)
                                                                    | _ :: _ ->
                                                                    bad)))
                                                                    | _ -> bad))
                                                                    | _ -> bad))
                                                                    | _ -> bad))
                                                                    | _ -> bad))
                                                                    | _ -> bad))
                                                                    | S n79 ->
                                                                    (match n79 with
                                                                    | O -> bad
                                                                    | S n80 ->
                                                                    (match n80 with
                                                                    | O -> bad
                                                                    | S n81 ->
                                                                    (match n81 with
                                                                    | O -> bad
                                                                    | S n82 ->
                                                                    (match n82 with
                                                                    | O -> bad
                                                                    | S n83 ->
                                                                    (match n83 with
                                                                    | O ->
                                                                    (match args with
                                                                    | [] ->
                                                                    bad
                                                                    | l :: l0 ->
                                                                    (match l0 with
                                                                    | [] ->
                                                                    (match 
                                                                    asTrains l with
                                                                    | Some ts ->
                                                                    encTrain
                                                                    (merge_spike_trains
                                                                    o ts)
                                                                    | None ->
                                                                    bad)
                                                                    | _ :: _ ->
                                                                    bad))
                                                                    | S n84 ->
                                                                    (match n84 with
                                                                    | O ->
                                                                    (match args with
                                                                    | [] ->
                                                                    bad
                                                                    | v :: l ->
                                                                    (match v with
                                                                    | VQ start ->
                                                                    (match l with
                                                                    | [] ->
                                                                    bad
                                                                    | v0 :: l0 ->
                                                                    (match v0 with
                                                                    | VQ bin ->
                                                                    (match l0 with
                                                                    | [] ->
                                                                    bad
                                                                    | row :: l1 ->
                                                                    (match l1 with
                                                                    | [] ->
                                                                    (match 
                                                                    asBs row with
                                                                    | Some r ->
                                                                    encTrain
                                                                    (time_series_row
                                                                    o start
                                                                    bin r)
                                                                    | None ->
                                                                    bad)
                                                                    | _ :: _ ->
                                                                    bad))
                                                                    | _ -> bad))
                                                                    | _ -> bad))
                                                                    | S n85 ->
                                                                    (match n85 with
                                                                    | O ->
                                                                    (match args with
                                                                    | [] ->
                                                                    bad
                                                                    | edges :: l ->
                                                                    (match l with
                                                                    | [] ->
                                                                    bad
                                                                    | xs :: l0 ->
                                                                    (match l0 with
                                                                    | [] ->
                                                                    (match 
                                                                    asQs edges with
                                                                    | Some e ->
                                                                    (match 
                                                                    asQs xs with
                                                                    | Some x ->
                                                                    encQs
                                                                    (hist_counts
                                                                    o e x)
                                                                    | None ->
                                                                    bad)
                                                                    | None ->
                                                                    bad)
                                                                    | _ :: _ ->
                                                                    bad)))
                                                                    | S n86 ->
                                                                    (match n86 with
                                                                    | O -> bad
                                                                    | S n87 ->
                                                                    (match n87 with
                                                                    | O -> bad
                                                                    | S n88 ->
                                                                    (match n88 with
                                                                    | O -> bad
                                                                    | S n89 ->
                                                                    (match n89 with
                                                                    | O -> bad
                                                                    | S n90 ->
                                                                    (match n90 with
                                                                    | O -> bad
                                                                    | S n91 ->
                                                                    (match n91 with
                                                                    | O -> bad
                                                                    | S n92 ->
                                                                    (match n92 with
                                                                    | O -> bad
                                                                    | S n93 ->
                                                                    (match n93 with
                                                                    | O ->
                                                                    (match args with
                                                                    | [] ->
                                                                    bad
                                                                    | sep :: l ->
                                                                    (match l with
                                                                    | [] ->
                                                                    bad
                                                                    | trains :: l0 ->
                                                                    (match l0 with
                                                                    | [] ->
                                                                    (match 
                                                                    asNs sep with
                                                                    | Some sp ->
                                                                    (match 
                                                                    asStrsL
                                                                    trains with
                                                                    | Some ts ->
                                                                    VL
                                                                    (map
                                                                    encStr
                                                                    (save_lines
                                                                    sp ts))
                                                                    | None ->
                                                                    bad)
                                                                    | None ->
                                                                    bad)
                                                                    | _ :: _ ->
                                                                    bad)))
                                                                    | S n94 ->
                                                                    (match n94 with
                                                                    | O ->
                                                                    (match args with
                                                                    | [] ->
                                                                    bad
                                                                    | sep :: l ->
                                                                    (match l with
                                                                    | [] ->
                                                                    bad
                                                                    | comment :: l0 ->
                                                                    (match l0 with
                                                                    | [] ->
                                                                    bad
                                                                    | v :: l1 ->
                                                                    (match v with
                                                                    | VB ie ->
                                                                    (match l1 with
                                                                    | [] ->
                                                                    bad
                                                                    | lines :: l2 ->
                                                                    (match l2 with
                                                                    | [] ->
                                                                    (match 
                                                                    asNs sep with
                                                                    | Some sp ->
                                                                    (match 
                                                                    asNs
                                                                    comment with
                                                                    | Some cm ->
                                                                    (match 
                                                                    asStrs
                                                                    lines with
                                                                    | Some ls ->
                                                                    VL
                                                                    (map
                                                                    (fun t ->
                                                                    VL
                                                                    (map
                                                                    encStr t))
                                                                    (load_lines
                                                                    sp cm ie
                                                                    ls))
                                                                    | None ->
                                                                    bad)
                                                                    | None ->
                                                                    bad)
                                                                    | None ->
                                                                    bad)
                                                                    | _ :: _ ->
                                                                    bad))
                                                                    | _ -> bad))))
                                                                    | S n95 ->
                                                                    (match n95 with
                                                                    | O ->
                                                                    (match args with
                                                                    | [] ->
                                                                    bad
                                                                    | v :: l ->
                                                                    (match v with
                                                                    | VQ ts ->
                                                                    (match l with
                                                                    | [] ->
                                                                    bad
                                                                    | v0 :: l0 ->
                                                                    (match v0 with
                                                                    | VQ te ->
                                                                    (match l0 with
                                                                    | [] ->
                                                                    bad
                                                                    | v1 :: l1 ->
                                                                    (match v1 with
                                                                    | VN n ->
                                                                    (match l1 with
                                                                    | [] ->
                                                                    bad
                                                                    | xs :: l2 ->
                                                                    (match l2 with
                                                                    | [] ->
                                                                    (match 
                                                                    asQs xs with
                                                                    | Some x ->
                                                                    VL
                                                                    ((encQs
                                                                    (psth_edges
                                                                    o ts te n)) :: (
                                                                    (encQs
                                                                    (psth_counts
                                                                    o ts te n
                                                                    x)) :: []))
                                                                    | None ->
                                                                    bad)
                                                                    | _ :: _ ->
                                                                    bad))
                                                                    | _ -> bad))
                                                                    | _ -> bad))
                                                                    | _ -> bad))
                                                                    | S n ->
                                                                    (match n with
                                                                    | O ->
                                                                    (match args with
                                                                    | [] ->
                                                                    bad
                                                                    | v :: l ->
                                                                    (match v with
                                                                    | VQ t0 ->
                                                                    (match l with
                                                                    | [] ->
                                                                    bad
                                                                    | v0 :: l0 ->
                                                                    (match v0 with
                                                                    | VQ t1 ->
                                                                    (match l0 with
                                                                    | [] ->
                                                                    bad
                                                                    | draws :: l1 ->
                                                                    (match l1 with
                                                                    | [] ->
                                                                    (match 
                                                                    asQs draws with
                                                                    | Some d ->
                                                                    encQs
                                                                    (poisson_spikes
                                                                    o t0 t1 d)
                                                                    | None ->
                                                                    bad)
                                                                    | _ :: _ ->
                                                                    bad))
                                                                    | _ -> bad))
                                                                    | _ -> bad))
                                                                    | S n96 ->
                                                                    (match n96 with
                                                                    | O ->
                                                                    (match args with
                                                                    | [] ->
                                                                    bad
                                                                    | bases :: l ->
                                                                    (match l with
                                                                    | [] ->
                                                                    bad
                                                                    | ops :: l0 ->
                                                                    (match l0 with
                                                                    | [] ->
                                                                    (match 
                                                                    asPwcs
                                                                    bases with
                                                                    | Some bs ->
                                                                    (match 
                                                                    asOps ops with
                                                                    | Some os ->
                                                                    let st =
                                                                    run o
                                                                    (app
                                                                    (map
                                                                    (fun b ->
                                                                    ONew
                                                                    ((fst b),
                                                                    (snd b)))
                                                                    bs) os)
                                                                    empty_state
                                                                    in
                                                                    VL ((VL
                                                                    (map
                                                                    (fun k ->
                                                                    match 
                                                                    denote st
                                                                    k with
                                                                    | Some f ->
                                                                    encPwc f
                                                                    | None ->
                                                                    VNone)
                                                                    (seq O
                                                                    (length
                                                                    st.st_objs)))) :: ((VL
                                                                    (map
                                                                    (fun x ->
                                                                    VE x)
                                                                    st.st_errs)) :: []))
                                                                    | None ->
                                                                    bad)
                                                                    | None ->
                                                                    bad)
                                                                    | _ :: _ ->
                                                                    bad)))
                                                                    | S n97 ->
                                                                    (match n97 with
                                                                    | O ->
                                                                    (match args with
                                                                    | [] ->
                                                                    bad
                                                                    | m :: l ->
                                                                    (match l with
                                                                    | [] ->
                                                                    bad
                                                                    | pat :: l0 ->
                                                                    (match l0 with
                                                                    | [] ->
                                                                    (match 
                                                                    asQss m with
                                                                    | Some d ->
                                                                    (match 
                                                                    asNs pat with
                                                                    | Some pt ->
                                                                    (match 
                                                                    sorting_from_matrix
                                                                    o
                                                                    (cyc pt)
                                                                    metro_script
                                                                    d (S (S
                                                                    (S (S (S
                                                                    (S (S (S
                                                                    (S (S (S
                                                                    (S (S (S
                                                                    (S (S (S
                                                                    (S (S (S
                                                                    (S (S (S
                                                                    (S (S (S
                                                                    (S (S (S
                                                                    (S (S (S
                                                                    (S (S (S
                                                                    (S (S (S
                                                                    (S (S (S
                                                                    (S (S (S
                                                                    (S (S (S
                                                                    (S (S (S
                                                                    (S (S (S
                                                                    (S (S (S
                                                                    (S (S (S
                                                                    (S (S (S
                                                                    (S (S (S
                                                                    (S (S (S
                                                                    (S (S (S
                                                                    (S (S (S
                                                                    (S (S (S
                                                                    (S (S (S
                                                                    (S (S (S
                                                                    (S (S (S
                                                                    (S (S (S
                                                                    (S (S (S
                                                                    (S (S (S
                                                                    (S (S (S
                                                                    (S (S (S
                                                                    (S (S (S
                                                                    (S (S (S
                                                                    (S (S (S
                                                                    (S (S (S
                                                                    (S (S (S
                                                                    (S (S (S
                                                                    (S
                                                                    O)))))))))))))))))))))))))))))))))))))))))))))))))))))))))))))))))))))))))))))))))))))))))))))))))))))))))))))))))))))))) with
                                                                    | Some p0 ->
                                                                    let (
                                                                    p1, it) =
                                                                    p0
                                                                    in
                                                                    let (
                                                                    p, a) = p1
                                                                    in
                                                                    VL ((VL
                                                                    (map
                                                                    (fun x ->
                                                                    VN x) p)) :: ((VQ
                                                                    a) :: ((VN
                                                                    it) :: [])))
                                                                    | None ->
                                                                    bad)
                                                                    | None ->
                                                                    bad)
                                                                    | None ->
                                                                    bad)
                                                                    | _ :: _ ->
                                                                    bad)))
                                                                    | S n98 ->
                                                                    (match n98 with
                                                                    | O ->
                                                                    (match args with
                                                                    | [] ->
                                                                    bad
                                                                    | m :: l ->
                                                                    (match l with
                                                                    | [] ->
                                                                    bad
                                                                    | p :: l0 ->
                                                                    (match l0 with
                                                                    | [] ->
                                                                    (match 
                                                                    asQss m with
                                                                    | Some d ->
                                                                    (match 
                                                                    asNs p with
                                                                    | Some pp ->
                                                                    VL
                                                                    ((encMatrix
                                                                    (permutate_matrix
                                                                    o d pp)) :: ((VQ
                                                                    (triu_sum
                                                                    o d)) :: []))
                                                                    | None ->
                                                                    bad)
                                                                    | None ->
                                                                    bad)
                                                                    | _ :: _ ->
                                                                    bad)))
                                                                    | S _ ->
                                                                    bad))))))))))))))))))))))))))))))))))))))))))))))))))))))))))))))))))))))))))))))))))))))))))))))))

(** val eff : 'a1 -> 'a1 -> 'a1 list -> 'a1 list **)

let eff ts te s = match s with
| [] -> ts :: (te :: [])
| _ :: _ -> s

(** val breaks :
    'a1 numOps -> 'a1 -> 'a1 -> 'a1 list -> 'a1 list -> 'a1 list **)

let breaks o0 ts te s1 s2 =
  ts :: (app
          (sort_unique o0
            (filter (fun x -> (&&) (o0.nltb ts x) (o0.nltb x te)) (app s1 s2)))
          (te :: []))

(** val pieces : 'a1 list -> ('a1 * 'a1) list **)

let rec pieces = function
| [] -> []
| a :: r -> (match r with
             | [] -> []
             | b :: _ -> (a, b) :: (pieces r))

(** val mid : 'a1 numOps -> ('a1 * 'a1) -> 'a1 **)

let mid o0 p =
  o0.ndiv (o0.nadd (fst p) (snd p)) (n2 o0)

(** val prev_of :
    'a1 numOps -> 'a1 -> 'a1 list -> 'a1 option -> 'a1 option **)

let rec prev_of o0 t u acc =
  match u with
  | [] -> acc
  | x :: r -> if nleb o0 x t then prev_of o0 t r (Some x) else acc

(** val next_of : 'a1 numOps -> 'a1 -> 'a1 list -> 'a1 option **)

let rec next_of o0 t = function
| [] -> None
| x :: r -> if o0.nltb t x then Some x else next_of o0 t r

(** val before : 'a1 numOps -> 'a1 -> 'a1 list -> 'a1 option **)

let before o0 p u =
  prev_of o0 p (filter (fun x -> o0.nltb x p) u) None

(** val after : 'a1 numOps -> 'a1 -> 'a1 list -> 'a1 option **)

let after =
  next_of

(** val isi_len_at : 'a1 numOps -> 'a1 -> 'a1 -> 'a1 list -> 'a1 -> 'a1 **)

let isi_len_at o0 ts te u t =
  match prev_of o0 t u None with
  | Some p ->
    (match next_of o0 t u with
     | Some f -> o0.nsub f p
     | None ->
       (match before o0 p u with
        | Some p0 -> nmax o0 (o0.nsub te p) (o0.nsub p p0)
        | None -> o0.nsub te p))
  | None ->
    (match next_of o0 t u with
     | Some f ->
       (match after o0 f u with
        | Some f2 -> nmax o0 (o0.nsub f ts) (o0.nsub f2 f)
        | None -> o0.nsub f ts)
     | None -> o0.n0)

(** val isi_spec :
    'a1 numOps -> 'a1 list -> 'a1 list -> 'a1 -> 'a1 -> 'a1 -> 'a1 list * 'a1
    list **)

let isi_spec o0 s1 s2 ts te m =
  let bs = breaks o0 ts te s1 s2 in
  let u1 = eff ts te s1 in
  let u2 = eff ts te s2 in
  (bs,
  (map (fun p ->
    let t = mid o0 p in
    let v1 = isi_len_at o0 ts te u1 t in
    let v2 = isi_len_at o0 ts te u2 t in
    o0.ndiv (nabs o0 (o0.nsub v1 v2)) (nmax o0 (nmax o0 v1 v2) m))
    (pieces bs)))

(** val aux_of : 'a1 numOps -> 'a1 -> 'a1 -> 'a1 list -> 'a1 * 'a1 **)

let aux_of o0 ts te = function
| [] -> (ts, te)
| x0 :: l ->
  (match l with
   | [] -> (ts, te)
   | x1 :: l0 ->
     (match rev (x0 :: (x1 :: l0)) with
      | [] -> (ts, te)
      | a :: l1 ->
        (match l1 with
         | [] -> (ts, te)
         | b :: _ ->
           ((nmin o0 ts (o0.nsub x0 (o0.nsub x1 x0))),
             (nmax o0 te (o0.nadd a (o0.nsub a b)))))))

(** val nearest : 'a1 numOps -> ('a1 * 'a1) -> 'a1 list -> 'a1 -> 'a1 **)

let nearest o0 aux w x =
  fold_left (fun d c -> nmin o0 d (nabs o0 (o0.nsub x c)))
    (app w ((snd aux) :: [])) (nabs o0 (o0.nsub x (fst aux)))

(** val contrib :
    'a1 numOps -> 'a1 -> 'a1 -> 'a1 list -> 'a1 list -> 'a1 -> 'a1 ->
    'a1 * 'a1 **)

let contrib o0 ts te u w tm t =
  let auxw = aux_of o0 ts te w in
  let isi = isi_len_at o0 ts te u tm in
  (match prev_of o0 tm u None with
   | Some p ->
     (match next_of o0 tm u with
      | Some f ->
        ((o0.ndiv
           (o0.nadd (o0.nmul (nearest o0 auxw w p) (o0.nsub f t))
             (o0.nmul (nearest o0 auxw w f) (o0.nsub t p))) (o0.nsub f p)),
          isi)
      | None -> ((nearest o0 auxw w p), isi))
   | None ->
     (match next_of o0 tm u with
      | Some f -> ((nearest o0 auxw w f), isi)
      | None -> (o0.n0, isi)))

(** val spike_at :
    'a1 numOps -> 'a1 -> 'a1 -> 'a1 -> bool -> 'a1 list -> 'a1 list -> 'a1 ->
    'a1 -> 'a1 **)

let spike_at o0 ts te m ri u1 u2 tm t =
  let (c1, i1) = contrib o0 ts te u1 u2 tm t in
  let (c2, i2) = contrib o0 ts te u2 u1 tm t in
  let mean = o0.ndiv (o0.nadd i1 i2) (n2 o0) in
  let lim = nmax o0 m mean in
  if ri
  then o0.ndiv (o0.ndiv (o0.nadd c1 c2) (n2 o0)) lim
  else o0.ndiv (o0.ndiv (o0.nadd (o0.nmul c1 i2) (o0.nmul c2 i1)) (n2 o0))
         (o0.nmul mean lim)

(** val spike_spec :
    'a1 numOps -> 'a1 list -> 'a1 list -> 'a1 -> 'a1 -> 'a1 -> bool -> ('a1
    list * 'a1 list) * 'a1 list **)

let spike_spec o0 s1 s2 ts te m ri =
  let bs = breaks o0 ts te s1 s2 in
  let u1 = eff ts te s1 in
  let u2 = eff ts te s2 in
  ((bs,
  (map (fun p -> spike_at o0 ts te m ri u1 u2 (mid o0 p) (fst p)) (pieces bs))),
  (map (fun p -> spike_at o0 ts te m ri u1 u2 (mid o0 p) (snd p)) (pieces bs)))

(** val contexts_from : 'a1 option -> 'a1 list -> 'a1 ctx list **)

let rec contexts_from prev = function
| [] -> []
| x :: r ->
  { c_prev = prev; c_cur = x; c_next =
    (hd_error r) } :: (contexts_from (Some x) r)

(** val contexts : 'a1 list -> 'a1 ctx list **)

let contexts s =
  contexts_from None s

(** val tau_spec : 'a1 numOps -> 'a1 -> 'a1 -> 'a1 ctx -> 'a1 ctx -> 'a1 **)

let tau_spec o0 lim mrts c1 c2 =
  let m = o0.ndiv mrts (n4 o0) in
  if nleb o0 c1.c_cur c2.c_cur
  then let h = fun c -> o0.ndiv c (n2 o0) in
       nmin o0
         (nmin o0
           (interp o0 (h (gapP o0 lim (Some c1))) (h (gapF o0 lim (Some c1)))
             m)
           (interp o0 (h (gapF o0 lim (Some c2))) (h (gapP o0 lim (Some c2)))
             m)) (h lim)
  else let h = fun c -> o0.ndiv c (n2 o0) in
       nmin o0
         (nmin o0
           (interp o0 (h (gapP o0 lim (Some c2))) (h (gapF o0 lim (Some c2)))
             m)
           (interp o0 (h (gapF o0 lim (Some c1))) (h (gapP o0 lim (Some c1)))
             m)) (h lim)

(** val lim_of : 'a1 numOps -> 'a1 -> 'a1 -> 'a1 -> 'a1 **)

let lim_of o0 ts te mt =
  let tm = o0.nsub te ts in
  if o0.nltb o0.n0 mt then nmin o0 tm (o0.nmul (n2 o0) mt) else tm

(** val coinc : 'a1 numOps -> 'a1 -> 'a1 -> 'a1 ctx -> 'a1 ctx -> bool **)

let coinc o0 lim mrts c1 c2 =
  (&&) (negb (o0.neqb c1.c_cur c2.c_cur))
    (o0.nltb (nabs o0 (o0.nsub c1.c_cur c2.c_cur))
      (tau_spec o0 lim mrts c1 c2))

(** val has_partner :
    'a1 numOps -> 'a1 -> 'a1 -> 'a1 ctx -> 'a1 ctx list -> bool **)

let has_partner o0 lim mrts c others0 =
  existsb (coinc o0 lim mrts c) others0

(** val is_shared : 'a1 numOps -> 'a1 ctx -> 'a1 ctx list -> bool **)

let is_shared o0 c others0 =
  existsb (fun d -> o0.neqb c.c_cur d.c_cur) others0

(** val event_entries :
    'a1 numOps -> ('a1 ctx -> 'a1 ctx list -> 'a1) -> ('a1 ctx -> 'a1 ctx
    list -> 'a1) -> 'a1 -> 'a1 list -> 'a1 list -> (('a1 * 'a1) * 'a1) list **)

let event_entries o0 v1 v2 vboth s1 s2 =
  let k1 = contexts s1 in
  let k2 = contexts s2 in
  map (fun t ->
    match find (fun c -> o0.neqb c.c_cur t) k1 with
    | Some c ->
      (match find (fun c0 -> o0.neqb c0.c_cur t) k2 with
       | Some _ -> ((t, vboth), (n2 o0))
       | None -> ((t, (v1 c k2)), o0.n1))
    | None ->
      (match find (fun c -> o0.neqb c.c_cur t) k2 with
       | Some c -> ((t, (v2 c k1)), o0.n1)
       | None -> ((t, o0.n0), o0.n1))) (sort_unique o0 (app s1 s2))

(** val framed :
    'a1 numOps -> 'a1 -> 'a1 -> (('a1 * 'a1) * 'a1) list ->
    (('a1 * 'a1) * 'a1) list **)

let framed o0 ts te entries = match entries with
| [] -> ((ts, o0.n1), o0.n1) :: (((te, o0.n1), o0.n1) :: [])
| e0 :: _ ->
  let el = last entries e0 in
  ((ts, (snd (fst e0))),
  (snd e0)) :: (app entries (((te, (snd (fst el))), (snd el)) :: []))

(** val sync_spec :
    'a1 numOps -> 'a1 list -> 'a1 list -> 'a1 -> 'a1 -> 'a1 -> 'a1 ->
    (('a1 * 'a1) * 'a1) list **)

let sync_spec o0 s1 s2 ts te mt mrts =
  let lim = lim_of o0 ts te mt in
  let v = fun c others0 ->
    if has_partner o0 lim mrts c others0 then o0.n1 else o0.n0
  in
  framed o0 ts te (event_entries o0 v v (n2 o0) s1 s2)

(** val single_spec :
    'a1 numOps -> 'a1 list -> 'a1 list -> 'a1 -> 'a1 -> 'a1 -> 'a1 -> 'a1 list **)

let single_spec o0 s1 s2 ts te mt mrts =
  let lim = lim_of o0 ts te mt in
  let k2 = contexts s2 in
  map (fun c ->
    if (||) (has_partner o0 lim mrts c k2) (is_shared o0 c k2)
    then o0.n1
    else o0.n0) (contexts s1)

(** val lead_sign :
    'a1 numOps -> 'a1 -> 'a1 -> 'a1 ctx -> 'a1 ctx list -> 'a1 **)

let lead_sign o0 lim mrts c others0 =
  match find (coinc o0 lim mrts c) others0 with
  | Some d -> if o0.nltb c.c_cur d.c_cur then o0.n1 else o0.nsub o0.n0 o0.n1
  | None -> o0.n0

(** val order_spec :
    'a1 numOps -> 'a1 list -> 'a1 list -> 'a1 -> 'a1 -> 'a1 -> 'a1 ->
    (('a1 * 'a1) * 'a1) list **)

let order_spec o0 s1 s2 ts te mt mrts =
  let lim = lim_of o0 ts te mt in
  framed o0 ts te
    (event_entries o0 (fun c k2 -> lead_sign o0 lim mrts c k2) (fun c k1 ->
      o0.nsub o0.n0 (lead_sign o0 lim mrts c k1)) o0.n0 s1 s2)

(** val dir_spec :
    'a1 numOps -> 'a1 list -> 'a1 list -> 'a1 -> 'a1 -> 'a1 -> 'a1 -> 'a1
    list * 'a1 list **)

let dir_spec o0 s1 s2 ts te mt mrts =
  let lim = lim_of o0 ts te mt in
  let k1 = contexts s1 in
  let k2 = contexts s2 in
  ((map (fun c -> lead_sign o0 lim mrts c k2) k1),
  (map (fun c -> lead_sign o0 lim mrts c k1) k2))

(** val filter_spec :
    'a1 numOps -> 'a1 -> 'a1 -> 'a1 -> (('a1 list * 'a1) * 'a1) list -> ('a1
    list * 'a1 list) list **)

let filter_spec o0 mt mrts thr l =
  let n = length l in
  map (fun i ->
    let st = nth i l (([], o0.n0), o0.n0) in
    let s = fst (fst st) in
    let ts = snd (fst st) in
    let te = snd st in
    let cnt =
      fold_left (fun acc t ->
        map (fun p -> o0.nadd (fst p) (snd p))
          (combine acc (single_spec o0 s (fst (fst t)) ts te mt mrts)))
        (app (firstn i l) (skipn (S i) l)) (repeat o0.n0 (length s))
    in
    let lim = o0.nmul thr (nofnat o0 (sub n (S O))) in
    let tagged = combine s cnt in
    ((map fst (filter (fun p -> o0.nltb lim (snd p)) tagged)),
    (map fst (filter (fun p -> negb (o0.nltb lim (snd p))) tagged))))
    (seq O n)

(** val pwc_at : 'a1 numOps -> 'a1 list -> 'a1 list -> 'a1 -> 'a1 option **)

let rec pwc_at o0 xs ys tm =
  match xs with
  | [] -> None
  | a :: xs' ->
    (match xs' with
     | [] -> None
     | b :: _ ->
       (match ys with
        | [] -> None
        | y :: ys' ->
          if (&&) (o0.nltb a tm) (o0.nltb tm b)
          then Some y
          else pwc_at o0 xs' ys' tm))

(** val pwc_right :
    'a1 numOps -> 'a1 list -> 'a1 list -> 'a1 -> 'a1 option **)

let rec pwc_right o0 xs ys t =
  match xs with
  | [] -> None
  | a :: xs' ->
    (match xs' with
     | [] -> None
     | b :: _ ->
       (match ys with
        | [] -> None
        | y :: ys' ->
          if (&&) (nleb o0 a t) (o0.nltb t b)
          then Some y
          else pwc_right o0 xs' ys' t))

(** val pwc_left : 'a1 numOps -> 'a1 list -> 'a1 list -> 'a1 -> 'a1 option **)

let rec pwc_left o0 xs ys t =
  match xs with
  | [] -> None
  | a :: xs' ->
    (match xs' with
     | [] -> None
     | b :: _ ->
       (match ys with
        | [] -> None
        | y :: ys' ->
          if (&&) (o0.nltb a t) (nleb o0 t b)
          then Some y
          else pwc_left o0 xs' ys' t))

(** val lin : 'a1 numOps -> 'a1 -> 'a1 -> 'a1 -> 'a1 -> 'a1 -> 'a1 **)

let lin o0 a b ya yb t =
  o0.nadd ya (o0.ndiv (o0.nmul (o0.nsub yb ya) (o0.nsub t a)) (o0.nsub b a))

(** val pwl_right :
    'a1 numOps -> 'a1 list -> 'a1 list -> 'a1 list -> 'a1 -> 'a1 option **)

let rec pwl_right o0 xs y1 y2 t =
  match xs with
  | [] -> None
  | a :: xs' ->
    (match xs' with
     | [] -> None
     | b :: _ ->
       (match y1 with
        | [] -> None
        | ya :: y1' ->
          (match y2 with
           | [] -> None
           | yb :: y2' ->
             if (&&) (nleb o0 a t) (o0.nltb t b)
             then Some (lin o0 a b ya yb t)
             else pwl_right o0 xs' y1' y2' t)))

(** val pwl_left :
    'a1 numOps -> 'a1 list -> 'a1 list -> 'a1 list -> 'a1 -> 'a1 option **)

let rec pwl_left o0 xs y1 y2 t =
  match xs with
  | [] -> None
  | a :: xs' ->
    (match xs' with
     | [] -> None
     | b :: _ ->
       (match y1 with
        | [] -> None
        | ya :: y1' ->
          (match y2 with
           | [] -> None
           | yb :: y2' ->
             if (&&) (o0.nltb a t) (nleb o0 t b)
             then Some (lin o0 a b ya yb t)
             else pwl_left o0 xs' y1' y2' t)))

(** val eval_of : 'a1 numOps -> 'a1 option -> 'a1 option -> 'a1 option **)

let eval_of o0 l r =
  match l with
  | Some a ->
    (match r with
     | Some b -> Some (o0.ndiv (o0.nadd a b) (n2 o0))
     | None -> Some a)
  | None -> r

(** val pwc_eval :
    'a1 numOps -> ('a1 list * 'a1 list) -> 'a1 -> 'a1 option **)

let pwc_eval o0 f t =
  eval_of o0 (pwc_left o0 (fst f) (snd f) t) (pwc_right o0 (fst f) (snd f) t)

(** val pwl_eval :
    'a1 numOps -> (('a1 list * 'a1 list) * 'a1 list) -> 'a1 -> 'a1 option **)

let pwl_eval o0 f t =
  eval_of o0 (pwl_left o0 (fst (fst f)) (snd (fst f)) (snd f) t)
    (pwl_right o0 (fst (fst f)) (snd (fst f)) (snd f) t)

(** val pwc_overlap :
    'a1 numOps -> 'a1 list -> 'a1 list -> 'a1 -> 'a1 -> 'a1 **)

let rec pwc_overlap o0 xs ys a b =
  match xs with
  | [] -> o0.n0
  | x0 :: xs' ->
    (match xs' with
     | [] -> o0.n0
     | x1 :: _ ->
       (match ys with
        | [] -> o0.n0
        | y :: ys' ->
          let lo = nmax o0 a x0 in
          let hi = nmin o0 b x1 in
          o0.nadd
            (if o0.nltb lo hi then o0.nmul y (o0.nsub hi lo) else o0.n0)
            (pwc_overlap o0 xs' ys' a b)))

(** val pwl_overlap :
    'a1 numOps -> 'a1 list -> 'a1 list -> 'a1 list -> 'a1 -> 'a1 -> 'a1 **)

let rec pwl_overlap o0 xs y1 y2 a b =
  match xs with
  | [] -> o0.n0
  | x0 :: xs' ->
    (match xs' with
     | [] -> o0.n0
     | x1 :: _ ->
       (match y1 with
        | [] -> o0.n0
        | ya :: y1' ->
          (match y2 with
           | [] -> o0.n0
           | yb :: y2' ->
             let lo = nmax o0 a x0 in
             let hi = nmin o0 b x1 in
             o0.nadd
               (if o0.nltb lo hi
                then o0.nmul
                       (o0.ndiv
                         (o0.nadd (lin o0 x0 x1 ya yb lo)
                           (lin o0 x0 x1 ya yb hi)) (n2 o0)) (o0.nsub hi lo)
                else o0.n0) (pwl_overlap o0 xs' y1' y2' a b))))

(** val optsum : 'a1 numOps -> 'a1 option -> 'a1 option -> 'a1 **)

let optsum o0 a b =
  match a with
  | Some x -> (match b with
               | Some y -> o0.nadd x y
               | None -> x)
  | None -> (match b with
             | Some y -> y
             | None -> o0.n0)

(** val pwc_add_spec :
    'a1 numOps -> ('a1 list * 'a1 list) -> ('a1 list * 'a1 list) -> 'a1
    list * 'a1 list **)

let pwc_add_spec o0 f g =
  let bs = sort_unique o0 (app (fst f) (fst g)) in
  (bs,
  (map (fun p ->
    optsum o0 (pwc_at o0 (fst f) (snd f) (mid o0 p))
      (pwc_at o0 (fst g) (snd g) (mid o0 p))) (pieces bs)))

(** val pwl_add_spec :
    'a1 numOps -> (('a1 list * 'a1 list) * 'a1 list) -> (('a1 list * 'a1
    list) * 'a1 list) -> ('a1 list * 'a1 list) * 'a1 list **)

let pwl_add_spec o0 f g =
  let (p, b1) = f in
  let (x1, a1) = p in
  let (p0, b2) = g in
  let (x2, a2) = p0 in
  let bs = sort_unique o0 (app x1 x2) in
  ((bs,
  (map (fun p1 ->
    optsum o0 (pwl_right o0 x1 a1 b1 (fst p1))
      (pwl_right o0 x2 a2 b2 (fst p1))) (pieces bs))),
  (map (fun p1 ->
    optsum o0 (pwl_left o0 x1 a1 b1 (snd p1)) (pwl_left o0 x2 a2 b2 (snd p1)))
    (pieces bs)))

(** val interior_entries :
    (('a1 * 'a1) * 'a1) list -> (('a1 * 'a1) * 'a1) list **)

let interior_entries f =
  removelast (tl f)

(** val sum_at :
    'a1 numOps -> 'a1 -> (('a1 * 'a1) * 'a1) list -> 'a1 * 'a1 **)

let sum_at o0 t l =
  fold_left (fun acc e ->
    if o0.neqb (fst (fst e)) t
    then ((o0.nadd (fst acc) (snd (fst e))), (o0.nadd (snd acc) (snd e)))
    else acc) l (o0.n0, o0.n0)

(** val df_add_spec :
    'a1 numOps -> (('a1 * 'a1) * 'a1) list -> (('a1 * 'a1) * 'a1) list ->
    (('a1 * 'a1) * 'a1) list **)

let df_add_spec o0 f g =
  let ev = app (interior_entries f) (interior_entries g) in
  map (fun t -> let s = sum_at o0 t ev in ((t, (fst s)), (snd s)))
    (sort_unique o0 (map (fun e -> fst (fst e)) ev))

(** val df_integral_spec1 :
    'a1 numOps -> (('a1 * 'a1) * 'a1) list -> ('a1 * 'a1) option -> 'a1 * 'a1 **)

let df_integral_spec1 o0 f iv =
  let ev = interior_entries f in
  let sel =
    match iv with
    | Some p ->
      let (a, b) = p in
      filter (fun e ->
        (&&) (o0.nltb a (fst (fst e))) (o0.nltb (fst (fst e)) b)) ev
    | None -> ev
  in
  ((sumF o0 (map (fun e -> snd (fst e)) sel)), (sumF o0 (map snd sel)))

(** val df_integral_spec :
    'a1 numOps -> (('a1 * 'a1) * 'a1) list -> 'a1 ivspec -> 'a1 * 'a1 **)

let df_integral_spec o0 f = function
| IvNone -> df_integral_spec1 o0 f None
| IvOne (a, b) -> df_integral_spec1 o0 f (Some (a, b))
| IvMany l ->
  fold_right (fun p acc ->
    let v = df_integral_spec1 o0 f (Some p) in
    ((o0.nadd (fst v) (fst acc)), (o0.nadd (snd v) (snd acc)))) (o0.n0,
    o0.n0) l

(** val reconcile_spec :
    'a1 numOps -> 'a1 -> (('a1 list * 'a1) * 'a1) list -> (('a1
    list * 'a1) * 'a1) list **)

let reconcile_spec o0 eps0 l = match l with
| [] -> []
| t0 :: r ->
  let tS = fold_left (nmin o0) (map (fun t -> snd (fst t)) r) (snd (fst t0))
  in
  let tE = fold_left (nmax o0) (map snd r) (snd t0) in
  map (fun t ->
    (((sort_unique o0
        (filter (fun x ->
          (&&) (o0.nltb (o0.nsub tS eps0) x) (o0.nltb x (o0.nadd tE eps0)))
          (fst (fst t)))), tS), tE)) l

(** val isi_lengths_spec :
    'a1 numOps -> 'a1 list -> 'a1 -> 'a1 -> 'a1 list **)

let isi_lengths_spec o0 s ts te =
  match s with
  | [] -> (o0.nsub te ts) :: []
  | _ :: _ ->
    let bs = sort_unique o0 (ts :: (app s (te :: []))) in
    map (fun p -> isi_len_at o0 ts te s (mid o0 p)) (pieces bs)

(** val encOpt : q option -> val0 **)

let encOpt = function
| Some q0 -> VQ q0
| None -> VE AssertionError

(** val spec_dispatch : nat -> val0 list -> val0 **)

let spec_dispatch id args =
  match id with
  | O -> bad
  | S n ->
    (match n with
     | O -> bad
     | S n3 ->
       (match n3 with
        | O -> bad
        | S n5 ->
          (match n5 with
           | O -> bad
           | S n6 ->
             (match n6 with
              | O -> bad
              | S n7 ->
                (match n7 with
                 | O -> bad
                 | S n8 ->
                   (match n8 with
                    | O -> bad
                    | S n9 ->
                      (match n9 with
                       | O -> bad
                       | S n10 ->
                         (match n10 with
                          | O -> bad
                          | S n11 ->
                            (match n11 with
                             | O -> bad
                             | S n12 ->
                               (match n12 with
                                | O -> bad
                                | S n13 ->
                                  (match n13 with
                                   | O -> bad
                                   | S n14 ->
                                     (match n14 with
                                      | O -> bad
                                      | S n15 ->
                                        (match n15 with
                                         | O -> bad
                                         | S n16 ->
                                           (match n16 with
                                            | O -> bad
                                            | S n17 ->
                                              (match n17 with
                                               | O -> bad
                                               | S n18 ->
                                                 (match n18 with
                                                  | O -> bad
                                                  | S n19 ->
                                                    (match n19 with
                                                     | O -> bad
                                                     | S n20 ->
                                                       (match n20 with
                                                        | O -> bad
                                                        | S n21 ->
                                                          (match n21 with
                                                           | O -> bad
                                                           | S n22 ->
                                                             (match n22 with
                                                              | O -> bad
                                                              | S n23 ->
                                                                (match n23 with
                                                                 | O -> bad
                                                                 | S n24 ->
                                                                   (match n24 with
                                                                    | O -> bad
                                                                    | S n25 ->
                                                                    (match n25 with
                                                                    | O -> bad
                                                                    | S n26 ->
                                                                    (match n26 with
                                                                    | O -> bad
                                                                    | S n27 ->
                                                                    (match n27 with
                                                                    | O -> bad
                                                                    | S n28 ->
                                                                    (match n28 with
                                                                    | O -> bad
                                                                    | S n29 ->
                                                                    (match n29 with
                                                                    | O -> bad
                                                                    | S n30 ->
                                                                    (match n30 with
                                                                    | O -> bad
                                                                    | S n31 ->
                                                                    (match n31 with
                                                                    | O -> bad
                                                                    | S n32 ->
                                                                    (match n32 with
                                                                    | O -> bad
                                                                    | S n33 ->
                                                                    (match n33 with
                                                                    | O -> bad
                                                                    | S n34 ->
                                                                    (match n34 with
                                                                    | O -> bad
                                                                    | S n35 ->
                                                                    (match n35 with
                                                                    | O -> bad
                                                                    | S n36 ->
                                                                    (match n36 with
                                                                    | O -> bad
                                                                    | S n37 ->
                                                                    (match n37 with
                                                                    | O -> bad
                                                                    | S n38 ->
                                                                    (match n38 with
                                                                    | O -> bad
                                                                    | S n39 ->
                                                                    (match n39 with
                                                                    | O -> bad
                                                                    | S n40 ->
                                                                    (match n40 with
                                                                    | O -> bad
                                                                    | S n41 ->
                                                                    (match n41 with
                                                                    | O -> bad
                                                                    | S n42 ->
                                                                    (match n42 with
                                                                    | O -> bad
                                                                    | S n43 ->
                                                                    (match n43 with
                                                                    | O -> bad
                                                                    | S n44 ->
                                                                    (match n44 with
                                                                    | O -> bad
                                                                    | S n45 ->
                                                                    (match n45 with
                                                                    | O -> bad
                                                                    | S n46 ->
                                                                    (match n46 with
                                                                    | O -> bad
                                                                    | S n47 ->
                                                                    (match n47 with
                                                                    | O -> bad
                                                                    | S n48 ->
                                                                    (match n48 with
                                                                    | O -> bad
                                                                    | S n49 ->
                                                                    (match n49 with
                                                                    | O -> bad
                                                                    | S n50 ->
                                                                    (match n50 with
                                                                    | O -> bad
                                                                    | S n51 ->
                                                                    (match n51 with
                                                                    | O -> bad
                                                                    | S n52 ->
                                                                    (match n52 with
                                                                    | O -> bad
                                                                    | S n53 ->
                                                                    (match n53 with
                                                                    | O -> bad
                                                                    | S n54 ->
                                                                    (match n54 with
                                                                    | O -> bad
                                                                    | S n55 ->
                                                                    (match n55 with
                                                                    | O -> bad
                                                                    | S n56 ->
                                                                    (match n56 with
                                                                    | O -> bad
                                                                    | S n57 ->
                                                                    (match n57 with
                                                                    | O -> bad
                                                                    | S n58 ->
                                                                    (match n58 with
                                                                    | O -> bad
                                                                    | S n59 ->
                                                                    (match n59 with
                                                                    | O -> bad
                                                                    | S n60 ->
                                                                    (match n60 with
                                                                    | O -> bad
                                                                    | S n61 ->
                                                                    (match n61 with
                                                                    | O -> bad
                                                                    | S n62 ->
                                                                    (match n62 with
                                                                    | O -> bad
                                                                    | S n63 ->
                                                                    (match n63 with
                                                                    | O -> bad
                                                                    | S n64 ->
                                                                    (match n64 with
                                                                    | O -> bad
                                                                    | S n65 ->
                                                                    (match n65 with
                                                                    | O -> bad
                                                                    | S n66 ->
                                                                    (match n66 with
                                                                    | O -> bad
                                                                    | S n67 ->
                                                                    (match n67 with
                                                                    | O -> bad
                                                                    | S n68 ->
                                                                    (match n68 with
                                                                    | O -> bad
                                                                    | S n69 ->
                                                                    (match n69 with
                                                                    | O -> bad
                                                                    | S n70 ->
                                                                    (match n70 with
                                                                    | O -> bad
                                                                    | S n71 ->
                                                                    (match n71 with
                                                                    | O -> bad
                                                                    | S n72 ->
                                                                    (match n72 with
                                                                    | O -> bad
                                                                    | S n73 ->
                                                                    (match n73 with
                                                                    | O -> bad
                                                                    | S n74 ->
                                                                    (match n74 with
                                                                    | O -> bad
                                                                    | S n75 ->
                                                                    (match n75 with
                                                                    | O -> bad
                                                                    | S n76 ->
                                                                    (match n76 with
                                                                    | O -> bad
                                                                    | S n77 ->
                                                                    (match n77 with
                                                                    | O -> bad
                                                                    | S n78 ->
                                                                    (match n78 with
                                                                    | O -> bad
                                                                    | S n79 ->
                                                                    (match n79 with
                                                                    | O -> bad
                                                                    | S n80 ->
                                                                    (match n80 with
                                                                    | O -> bad
                                                                    | S n81 ->
                                                                    (match n81 with
                                                                    | O -> bad
                                                                    | S n82 ->
                                                                    (match n82 with
                                                                    | O -> bad
                                                                    | S n83 ->
                                                                    (match n83 with
                                                                    | O -> bad
                                                                    | S n84 ->
                                                                    (match n84 with
                                                                    | O -> bad
                                                                    | S n85 ->
                                                                    (match n85 with
                                                                    | O -> bad
                                                                    | S n86 ->
                                                                    (match n86 with
                                                                    | O -> bad
                                                                    | S n87 ->
                                                                    (match n87 with
                                                                    | O -> bad
                                                                    | S n88 ->
                                                                    (match n88 with
                                                                    | O -> bad
                                                                    | S n89 ->
                                                                    (match n89 with
                                                                    | O -> bad
                                                                    | S n90 ->
                                                                    (match n90 with
                                                                    | O -> bad
                                                                    | S n91 ->
                                                                    (match n91 with
                                                                    | O -> bad
                                                                    | S n92 ->
                                                                    (match n92 with
                                                                    | O -> bad
                                                                    | S n93 ->
                                                                    (match n93 with
                                                                    | O -> bad
                                                                    | S n94 ->
                                                                    (match n94 with
                                                                    | O -> bad
                                                                    | S n95 ->
                                                                    (match n95 with
                                                                    | O -> bad
                                                                    | S n96 ->
                                                                    (match n96 with
                                                                    | O -> bad
                                                                    | S n97 ->
                                                                    (match n97 with
                                                                    | O -> bad
                                                                    | S n98 ->
                                                                    (match n98 with
                                                                    | O -> bad
                                                                    | S n99 ->
                                                                    (match n99 with
                                                                    | O -> bad
                                                                    | S n100 ->
                                                                    (match n100 with
                                                                    | O -> bad
                                                                    | S n101 ->
                                                                    (match n101 with
                                                                    | O -> bad
                                                                    | S n102 ->
                                                                    (match n102 with
                                                                    | O ->
                                                                    (match args with
                                                                    | [] ->
                                                                    bad
                                                                    | a :: l ->
                                                                    (match l with
                                                                    | [] ->
                                                                    bad
                                                                    | b :: l0 ->
                                                                    (match l0 with
                                                                    | [] ->
                                                                    bad
                                                                    | v :: l1 ->
                                                                    (match v with
                                                                    | VQ ts ->
                                                                    (match l1 with
                                                                    | [] ->
                                                                    bad
                                                                    | v0 :: l2 ->
                                                                    (match v0 with
                                                                    | VQ te ->
                                                                    (match l2 with
                                                                    | [] ->
                                                                    bad
                                                                    | v1 :: l3 ->
                                                                    (match v1 with
                                                                    | VQ m ->
                                                                    (match l3 with
                                                                    | [] ->
                                                                    (match 
                                                                    asQs a with
                                                                    | Some s1 ->
                                                                    (match 
                                                                    asQs b with
                                                                    | Some s2 ->
                                                                    encPwc
                                                                    (isi_spec
                                                                    o s1 s2
                                                                    ts te m)
                                                                    | None ->
                                                                    bad)
                                                                    | None ->
                                                                    bad)
                                                                    | _ :: _ ->
                                                                    bad)
                                                                    | _ -> bad))
                                                                    | _ -> bad))
                                                                    | _ -> bad))))
                                                                    | S n103 ->
                                                                    (match n103 with
                                                                    | O ->
                                                                    (match args with
                                                                    | [] ->
                                                                    bad
                                                                    | a :: l ->
                                                                    (match l with
                                                                    | [] ->
                                                                    bad
                                                                    | b :: l0 ->
                                                                    (match l0 with
                                                                    | [] ->
                                                                    bad
                                                                    | v :: l1 ->
                                                                    (match v with
                                                                    | VQ ts ->
                                                                    (match l1 with
                                                                    | [] ->
                                                                    bad
                                                                    | v0 :: l2 ->
                                                                    (match v0 with
                                                                    | VQ te ->
                                                                    (match l2 with
                                                                    | [] ->
                                                                    bad
                                                                    | v1 :: l3 ->
                                                                    (match v1 with
                                                                    | VQ m ->
                                                                    (match l3 with
                                                                    | [] ->
                                                                    bad
                                                                    | v2 :: l4 ->
                                                                    (match v2 with
                                                                    | VB ri ->
                                                                    (match l4 with
                                                                    | [] ->
                                                                    (match 
                                                                    asQs a with
                                                                    | Some s1 ->
                                                                    (match 
                                                                    asQs b with
                                                                    | Some s2 ->
                                                                    encPwl
                                                                    (spike_spec
                                                                    o s1 s2
                                                                    ts te m
                                                                    ri)
                                                                    | None ->
                                                                    bad)
                                                                    | None ->
                                                                    bad)
                                                                    | _ :: _ ->
                                                                    bad)
                                                                    | _ -> bad))
                                                                    | _ -> bad))
                                                                    | _ -> bad))
                                                                    | _ -> bad))))
                                                                    | S n104 ->
                                                                    (match n104 with
                                                                    | O ->
                                                                    (match args with
                                                                    | [] ->
                                                                    bad
                                                                    | a :: l ->
                                                                    (match l with
                                                                    | [] ->
                                                                    bad
                                                                    | b :: l0 ->
                                                                    (match l0 with
                                                                    | [] ->
                                                                    bad
                                                                    | v :: l1 ->
                                                                    (match v with
                                                                    | VQ ts ->
                                                                    (match l1 with
                                                                    | [] ->
                                                                    bad
                                                                    | v0 :: l2 ->
                                                                    (match v0 with
                                                                    | VQ te ->
                                                                    (match l2 with
                                                                    | [] ->
                                                                    bad
                                                                    | v1 :: l3 ->
                                                                    (match v1 with
                                                                    | VQ mt ->
                                                                    (match l3 with
                                                                    | [] ->
                                                                    bad
                                                                    | v2 :: l4 ->
                                                                    (match v2 with
                                                                    | VQ m ->
                                                                    (match l4 with
                                                                    | [] ->
                                                                    (match 
                                                                    asQs a with
                                                                    | Some s1 ->
                                                                    (match 
                                                                    asQs b with
                                                                    | Some s2 ->
                                                                    encDf
                                                                    (sync_spec
                                                                    o s1 s2
                                                                    ts te mt
                                                                    m)
                                                                    | None ->
                                                                    bad)
                                                                    | None ->
                                                                    bad)
                                                                    | _ :: _ ->
                                                                    bad)
                                                                    | _ -> bad))
                                                                    | _ -> bad))
                                                                    | _ -> bad))
                                                                    | _ -> bad))))
                                                                    | S n105 ->
                                                                    (match n105 with
                                                                    | O ->
                                                                    (match args with
                                                                    | [] ->
                                                                    bad
                                                                    | a :: l ->
                                                                    (match l with
                                                                    | [] ->
                                                                    bad
                                                                    | b :: l0 ->
                                                                    (match l0 with
                                                                    | [] ->
                                                                    bad
                                                                    | v :: l1 ->
                                                                    (match v with
                                                                    | VQ ts ->
                                                                    (match l1 with
                                                                    | [] ->
                                                                    bad
                                                                    | v0 :: l2 ->
                                                                    (match v0 with
                                                                    | VQ te ->
                                                                    (match l2 with
                                                                    | [] ->
                                                                    bad
                                                                    | v1 :: l3 ->
                                                                    (match v1 with
                                                                    | VQ mt ->
                                                                    (match l3 with
                                                                    | [] ->
                                                                    bad
                                                                    | v2 :: l4 ->
                                                                    (match v2 with
                                                                    | VQ m ->
                                                                    (match l4 with
                                                                    | [] ->
                                                                    (match 
                                                                    asQs a with
                                                                    | Some s1 ->
                                                                    (match 
                                                                    asQs b with
                                                                    | Some s2 ->
                                                                    encQs
                                                                    (single_spec
                                                                    o s1 s2
                                                                    ts te mt
                                                                    m)
                                                                    | None ->
                                                                    bad)
                                                                    | None ->
                                                                    bad)
                                                                    | _ :: _ ->
                                                                    bad)
                                                                    | _ -> bad))
                                                                    | _ -> bad))
                                                                    | _ -> bad))
                                                                    | _ -> bad))))
                                                                    | S n106 ->
                                                                    (match n106 with
                                                                    | O ->
                                                                    (match args with
                                                                    | [] ->
                                                                    bad
                                                                    | a :: l ->
                                                                    (match l with
                                                                    | [] ->
                                                                    bad
                                                                    | b :: l0 ->
                                                                    (match l0 with
                                                                    | [] ->
                                                                    bad
                                                                    | v :: l1 ->
                                                                    (match v with
                                                                    | VQ ts ->
                                                                    (match l1 with
                                                                    | [] ->
                                                                    bad
                                                                    | v0 :: l2 ->
                                                                    (match v0 with
                                                                    | VQ te ->
                                                                    (match l2 with
                                                                    | [] ->
                                                                    bad
                                                                    | v1 :: l3 ->
                                                                    (match v1 with
                                                                    | VQ mt ->
                                                                    (match l3 with
                                                                    | [] ->
                                                                    bad
                                                                    | v2 :: l4 ->
                                                                    (match v2 with
                                                                    | VQ m ->
                                                                    (match l4 with
                                                                    | [] ->
                                                                    (match 
                                                                    asQs a with
                                                                    | Some s1 ->
                                                                    (match 
                                                                    asQs b with
                                                                    | Some s2 ->
                                                                    encDf
                                                                    (order_spec
                                                                    o s1 s2
                                                                    ts te mt
                                                                    m)
                                                                    | None ->
                                                                    bad)
                                                                    | None ->
                                                                    bad)
                                                                    | _ :: _ ->
                                                                    bad)
                                                                    | _ -> bad))
                                                                    | _ -> bad))
                                                                    | _ -> bad))
                                                                    | _ -> bad))))
                                                                    | S n107 ->
                                                                    (match n107 with
                                                                    | O ->
                                                                    (match args with
                                                                    | [] ->
                                                                    bad
                                                                    | a :: l ->
                                                                    (match l with
                                                                    | [] ->
                                                                    bad
                                                                    | b :: l0 ->
                                                                    (match l0 with
                                                                    | [] ->
                                                                    bad
                                                                    | v :: l1 ->
                                                                    (match v with
                                                                    | VQ ts ->
                                                                    (match l1 with
                                                                    | [] ->
                                                                    bad
                                                                    | v0 :: l2 ->
                                                                    (match v0 with
                                                                    | VQ te ->
                                                                    (match l2 with
                                                                    | [] ->
                                                                    bad
                                                                    | v1 :: l3 ->
                                                                    (match v1 with
                                                                    | VQ mt ->
                                                                    (match l3 with
                                                                    | [] ->
                                                                    bad
                                                                    | v2 :: l4 ->
                                                                    (match v2 with
                                                                    | VQ m ->
                                                                    (match l4 with
                                                                    | [] ->
                                                                    (match 
                                                                    asQs a with
                                                                    | Some s1 ->
                                                                    (match 
                                                                    asQs b with
                                                                    | Some s2 ->
                                                                    let d =
                                                                    dir_spec
                                                                    o s1 s2
                                                                    ts te mt m
                                                                    in
                                                                    VL
                                                                    (
                                                                    (encQs
                                                                    (fst d)) :: (
                                                                    (encQs
                                                                    (snd d)) :: []))
                                                                    | None ->
                                                                    bad)
                                                                    | None ->
                                                                    bad)
                                                                    | _ :: _ ->
                                                                    bad)
                                                                    | _ -> bad))
                                                                    | _ -> bad))
                                                                    | _ -> bad))
                                                                    | _ -> bad))))
                                                                    | S n108 ->
                                                                    (match n108 with
                                                                    | O ->
                                                                    (match args with
                                                                    | [] ->
                                                                    bad
                                                                    | v :: l0 ->
                                                                    (match v with
                                                                    | VQ mt ->
                                                                    (match l0 with
                                                                    | [] ->
                                                                    bad
                                                                    | v0 :: l1 ->
                                                                    (match v0 with
                                                                    | VQ m ->
                                                                    (match l1 with
                                                                    | [] ->
                                                                    bad
                                                                    | v1 :: l2 ->
                                                                    (match v1 with
                                                                    | VQ thr ->
                                                                    (match l2 with
                                                                    | [] ->
                                                                    bad
                                                                    | l :: l3 ->
                                                                    (match l3 with
                                                                    | [] ->
                                                                    (match 
                                                                    asTrains l with
                                                                    | Some ts ->
                                                                    VL
                                                                    (map
                                                                    (fun kr ->
                                                                    VL
                                                                    ((encQs
                                                                    (fst kr)) :: (
                                                                    (encQs
                                                                    (snd kr)) :: [])))
                                                                    (filter_spec
                                                                    o mt m
                                                                    thr ts))
                                                                    | None ->
                                                                    bad)
                                                                    | _ :: _ ->
                                                                    bad))
                                                                    | _ -> bad))
                                                                    | _ -> bad))
                                                                    | _ -> bad))
                                                                    | S n109 ->
                                                                    (match n109 with
                                                                    | O -> bad
                                                                    | S n110 ->
                                                                    (match n110 with
                                                                    | O -> bad
                                                                    | S n111 ->
                                                                    (match n111 with
                                                                    | O -> bad
                                                                    | S n112 ->
                                                                    (match n112 with
                                                                    | O ->
                                                                    (match args with
                                                                    | [] ->
                                                                    bad
                                                                    | x :: l ->
                                                                    (match l with
                                                                    | [] ->
                                                                    bad
                                                                    | y :: l0 ->
                                                                    (match l0 with
                                                                    | [] ->
                                                                    bad
                                                                    | v :: l1 ->
                                                                    (match v with
                                                                    | VL l2 ->
                                                                    (match l2 with
                                                                    | [] ->
                                                                    bad
                                                                    | v0 :: l3 ->
                                                                    (match v0 with
                                                                    | VQ a ->
                                                                    (match l3 with
                                                                    | [] ->
                                                                    bad
                                                                    | v1 :: l4 ->
                                                                    (match v1 with
                                                                    | VQ b ->
                                                                    (match l4 with
                                                                    | [] ->
                                                                    (match l1 with
                                                                    | [] ->
                                                                    (match 
                                                                    asQs x with
                                                                    | Some xs ->
                                                                    (match 
                                                                    asQs y with
                                                                    | Some ys ->
                                                                    VQ
                                                                    (pwc_overlap
                                                                    o xs ys a
                                                                    b)
                                                                    | None ->
                                                                    bad)
                                                                    | None ->
                                                                    bad)
                                                                    | _ :: _ ->
                                                                    bad)
                                                                    | _ :: _ ->
                                                                    bad)
                                                                    | _ -> bad))
                                                                    | _ -> bad))
                                                                    | _ -> bad))))
                                                                    | S n113 ->
                                                                    (match n113 with
                                                                    | O ->
                                                                    (match args with
                                                                    | [] ->
                                                                    bad
                                                                    | x :: l ->
                                                                    (match l with
                                                                    | [] ->
                                                                    bad
                                                                    | y1 :: l0 ->
                                                                    (match l0 with
                                                                    | [] ->
                                                                    bad
                                                                    | y2 :: l1 ->
                                                                    (match l1 with
                                                                    | [] ->
                                                                    bad
                                                                    | v :: l2 ->
                                                                    (match v with
                                                                    | VL l3 ->
                                                                    (match l3 with
                                                                    | [] ->
                                                                    bad
                                                                    | v0 :: l4 ->
                                                                    (match v0 with
                                                                    | VQ a ->
                                                                    (match l4 with
                                                                    | [] ->
                                                                    bad
                                                                    | v1 :: l5 ->
                                                                    (match v1 with
                                                                    | VQ b ->
                                                                    (match l5 with
                                                                    | [] ->
                                                                    (match l2 with
                                                                    | [] ->
                                                                    (match 
                                                                    asQs x with
                                                                    | Some xs ->
                                                                    (match 
                                                                    asQs y1 with
                                                                    | Some p ->
                                                                    (match 
                                                                    asQs y2 with
                                                                    | Some q0 ->
                                                                    VQ
                                                                    (pwl_overlap
                                                                    o xs p q0
                                                                    a b)
                                                                    | None ->
                                                                    bad)
                                                                    | None ->
                                                                    bad)
                                                                    | None ->
                                                                    bad)
                                                                    | _ :: _ ->
                                                                    bad)
                                                                    | _ :: _ ->
                                                                    bad)
                                                                    | _ -> bad))
                                                                    | _ -> bad))
                                                                    | _ -> bad)))))
                                                                    | S n114 ->
                                                                    (match n114 with
                                                                    | O ->
                                                                    (match args with
                                                                    | [] ->
                                                                    bad
                                                                    | x :: l ->
                                                                    (match l with
                                                                    | [] ->
                                                                    bad
                                                                    | y :: l0 ->
                                                                    (match l0 with
                                                                    | [] ->
                                                                    bad
                                                                    | v :: l1 ->
                                                                    (match v with
                                                                    | VQ t ->
                                                                    (match l1 with
                                                                    | [] ->
                                                                    (match 
                                                                    asQs x with
                                                                    | Some xs ->
                                                                    (match 
                                                                    asQs y with
                                                                    | Some ys ->
                                                                    encOpt
                                                                    (pwc_eval
                                                                    o (xs,
                                                                    ys) t)
                                                                    | None ->
                                                                    bad)
                                                                    | None ->
                                                                    bad)
                                                                    | _ :: _ ->
                                                                    bad)
                                                                    | _ -> bad))))
                                                                    | S n115 ->
                                                                    (match n115 with
                                                                    | O ->
                                                                    (match args with
                                                                    | [] ->
                                                                    bad
                                                                    | x :: l ->
                                                                    (match l with
                                                                    | [] ->
                                                                    bad
                                                                    | y1 :: l0 ->
                                                                    (match l0 with
                                                                    | [] ->
                                                                    bad
                                                                    | y2 :: l1 ->
                                                                    (match l1 with
                                                                    | [] ->
                                                                    bad
                                                                    | v :: l2 ->
                                                                    (match v with
                                                                    | VQ t ->
                                                                    (match l2 with
                                                                    | [] ->
                                                                    (match 
                                                                    asQs x with
                                                                    | Some xs ->
                                                                    (match 
                                                                    asQs y1 with
                                                                    | Some p ->
                                                                    (match 
                                                                    asQs y2 with
                                                                    | Some q0 ->
                                                                    encOpt
                                                                    (pwl_eval
                                                                    o ((xs,
                                                                    p), q0) t)
                                                                    | None ->
                                                                    bad)
                                                                    | None ->
                                                                    bad)
                                                                    | None ->
                                                                    bad)
                                                                    | _ :: _ ->
                                                                    bad)
                                                                    | _ -> bad)))))
                                                                    | S n116 ->
                                                                    (match n116 with
                                                                    | O -> bad
                                                                    | S n117 ->
                                                                    (match n117 with
                                                                    | O -> bad
                                                                    | S n118 ->
                                                                    (match n118 with
                                                                    | O -> bad
                                                                    | S n119 ->
                                                                    (match n119 with
                                                                    | O -> bad
                                                                    | S n120 ->
                                                                    (match n120 with
                                                                    | O -> bad
                                                                    | S n121 ->
                                                                    (match n121 with
                                                                    | O -> bad
                                                                    | S n122 ->
                                                                    (match n122 with
                                                                    | O ->
                                                                    (match args with
                                                                    | [] ->
                                                                    bad
                                                                    | x1 :: l ->
                                                                    (match l with
                                                                    | [] ->
                                                                    bad
                                                                    | y1 :: l0 ->
                                                                    (match l0 with
                                                                    | [] ->
                                                                    bad
                                                                    | x2 :: l1 ->
                                                                    (match l1 with
                                                                    | [] ->
                                                                    bad
                                                                    | y2 :: l2 ->
                                                                    (match l2 with
                                                                    | [] ->
                                                                    (match 
                                                                    asQs x1 with
                                                                    | Some a ->
                                                                    (match 
                                                                    asQs y1 with
                                                                    | Some b ->
                                                                    (match 
                                                                    asQs x2 with
                                                                    | Some c ->
                                                                    (match 
                                                                    asQs y2 with
                                                                    | Some d ->
                                                                    encPwc
                                                                    (pwc_add_spec
                                                                    o (a, b)
                                                                    (c, d))
                                                                    | None ->
                                                                    bad)
                                                                    | None ->
                                                                    bad)
                                                                    | None ->
                                                                    bad)
                                                                    | None ->
                                                                    bad)
                                                                    | _ :: _ ->
                                                                    bad)))))
                                                                    | S n123 ->
                                                                    (match n123 with
                                                                    | O ->
                                                                    (match args with
                                                                    | [] ->
                                                                    bad
                                                                    | x1 :: l ->
                                                                    (match l with
                                                                    | [] ->
                                                                    bad
                                                                    | y11 :: l0 ->
                                                                    (match l0 with
                                                                    | [] ->
                                                                    bad
                                                                    | y12 :: l1 ->
                                                                    (match l1 with
                                                                    | [] ->
                                                                    bad
                                                                    | x2 :: l2 ->
                                                                    (match l2 with
                                                                    | [] ->
                                                                    bad
                                                                    | y21 :: l3 ->
                                                                    (match l3 with
                                                                    | [] ->
                                                                    bad
                                                                    | y22 :: l4 ->
                                                                    (match l4 with
                                                                    | [] ->
                                                                    (match 
                                                                    asQs x1 with
                                                                    | Some a ->
                                                                    (match 
                                                                    asQs y11 with
                                                                    | Some b ->
                                                                    (match 
                                                                    asQs y12 with
                                                                    | Some c ->
                                                                    (match 
                                                                    asQs x2 with
                                                                    | Some d ->
                                                                    (match 
                                                                    asQs y21 with
                                                                    | Some e ->
                                                                    (match 
                                                                    asQs y22 with
                                                                    | Some f ->
                                                                    encPwl
                                                                    (pwl_add_spec
                                                                    o ((a,
                                                                    b), c)
                                                                    ((d, e),
                                                                    f))
                                                                    | None ->
                                                                    bad)
                                                                    | None ->
                                                                    bad)
                                                                    | None ->
                                                                    bad)
                                                                    | None ->
                                                                    bad)
                                                                    | None ->
                                                                    bad)
                                                                    | None ->
                                                                    bad)
                                                                    | _ :: _ ->
                                                                    bad)))))))
                                                                    | S n124 ->
                                                                    (match n124 with
                                                                    | O -> bad
                                                                    | S n125 ->
                                                                    (match n125 with
                                                                    | O -> bad
                                                                    | S n126 ->
                                                                    (match n126 with
                                                                    | O -> bad
                                                                    | S n127 ->
                                                                    (match n127 with
                                                                    | O -> bad
                                                                    | S n128 ->
                                                                    (match n128 with
                                                                    | O -> bad
                                                                    | S n129 ->
                                                                    (match n129 with
                                                                    | O -> bad
                                                                    | S n130 ->
                                                                    (match n130 with
                                                                    | O -> bad
                                                                    | S n131 ->
                                                                    (match n131 with
                                                                    | O -> bad
                                                                    | S n132 ->
                                                                    (match n132 with
                                                                    | O ->
                                                                    (match args with
                                                                    | [] ->
                                                                    bad
                                                                    | x1 :: l ->
                                                                    (match l with
                                                                    | [] ->
                                                                    bad
                                                                    | y1 :: l0 ->
                                                                    (match l0 with
                                                                    | [] ->
                                                                    bad
                                                                    | m1 :: l1 ->
                                                                    (match l1 with
                                                                    | [] ->
                                                                    bad
                                                                    | x2 :: l2 ->
                                                                    (match l2 with
                                                                    | [] ->
                                                                    bad
                                                                    | y2 :: l3 ->
                                                                    (match l3 with
                                                                    | [] ->
                                                                    bad
                                                                    | m2 :: l4 ->
                                                                    (match l4 with
                                                                    | [] ->
                                                                    (match 
                                                                    asEntries
                                                                    x1 y1 m1 with
                                                                    | Some f ->
                                                                    (match 
                                                                    asEntries
                                                                    x2 y2 m2 with
                                                                    | Some g ->
                                                                    encDf
                                                                    (df_add_spec
                                                                    o f g)
                                                                    | None ->
                                                                    bad)
                                                                    | None ->
                                                                    bad)
                                                                    | _ :: _ ->
                                                                    bad)))))))
                                                                    | S n133 ->
                                                                    (match n133 with
                                                                    | O ->
                                                                    (match args with
                                                                    | [] ->
                                                                    bad
                                                                    | x :: l ->
                                                                    (match l with
                                                                    | [] ->
                                                                    bad
                                                                    | y :: l0 ->
                                                                    (match l0 with
                                                                    | [] ->
                                                                    bad
                                                                    | mp :: l1 ->
                                                                    (match l1 with
                                                                    | [] ->
                                                                    bad
                                                                    | iv :: l2 ->
                                                                    (match l2 with
                                                                    | [] ->
                                                                    (match 
                                                                    asEntries
                                                                    x y mp with
                                                                    | Some f ->
                                                                    (match 
                                                                    asIvspec
                                                                    iv with
                                                                    | Some i ->
                                                                    encPairQ
                                                                    (df_integral_spec
                                                                    o f i)
                                                                    | None ->
                                                                    bad)
                                                                    | None ->
                                                                    bad)
                                                                    | _ :: _ ->
                                                                    bad)))))
                                                                    | S n134 ->
                                                                    (match n134 with
                                                                    | O -> bad
                                                                    | S n135 ->
                                                                    (match n135 with
                                                                    | O -> bad
                                                                    | S n136 ->
                                                                    (match n136 with
                                                                    | O -> bad
                                                                    | S n137 ->
                                                                    (match n137 with
                                                                    | O -> bad
                                                                    | S n138 ->
                                                                    (match n138 with
                                                                    | O -> bad
                                                                    | S n139 ->
                                                                    (match n139 with
                                                                    | O -> bad
                                                                    | S n140 ->
                                                                    (match n140 with
                                                                    | O -> bad
                                                                    | S n141 ->
                                                                    (match n141 with
                                                                    | O -> bad
                                                                    | S n142 ->
                                                                    (match n142 with
                                                                    | O ->
                                                                    (match args with
                                                                    | [] ->
                                                                    bad
                                                                    | l :: l0 ->
                                                                    (match l0 with
                                                                    | [] ->
                                                                    (match 
                                                                    asTrains l with
                                                                    | Some ts ->
                                                                    VL
                                                                    (map
                                                                    encTrain
                                                                    (reconcile_spec
                                                                    o eps ts))
                                                                    | None ->
                                                                    bad)
                                                                    | _ :: _ ->
                                                                    bad))
                                                                    | S n143 ->
                                                                    (match n143 with
                                                                    | O ->
                                                                    (match args with
                                                                    | [] ->
                                                                    bad
                                                                    | l :: l0 ->
                                                                    (match l0 with
                                                                    | [] ->
                                                                    bad
                                                                    | v :: l1 ->
                                                                    (match v with
                                                                    | VQ ts ->
                                                                    (match l1 with
                                                                    | [] ->
                                                                    bad
                                                                    | v0 :: l2 ->
                                                                    (match v0 with
                                                                    | VQ te ->
                                                                    (match l2 with
                                                                    | [] ->
                                                                    (match 
                                                                    asQs l with
                                                                    | Some s ->
                                                                    encQs
                                                                    (isi_lengths_spec
                                                                    o s ts te)
                                                                    | None ->
                                                                    bad)
                                                                    | _ :: _ ->
                                                                    bad)
                                                                    | _ -> bad))
                                                                    | _ -> bad)))
                                                                    | S _ ->
                                                                    bad)))))))))))))))))))))))))))))))))))))))))))))))))))))))))))))))))))))))))))))))))))))))))))))))))))))))))))))))))))))))))))))))))))))))))))))

(** val dispatch_all : nat -> val0 list -> val0 **)

let dispatch_all id args =
  if Nat.ltb id (S (S (S (S (S (S (S (S (S (S (S (S (S (S (S (S (S (S (S (S
       (S (S (S (S (S (S (S (S (S (S (S (S (S (S (S (S (S (S (S (S (S (S (S
       (S (S (S (S (S (S (S (S (S (S (S (S (S (S (S (S (S (S (S (S (S (S (S
       (S (S (S (S (S (S (S (S (S (S (S (S (S (S (S (S (S (S (S (S (S (S (S
       (S (S (S (S (S (S (S (S (S (S (S
       O))))))))))))))))))))))))))))))))))))))))))))))))))))))))))))))))))))))))))))))))))))))))))))))))))))
  then dispatch id args
  else spec_dispatch id args
