(* ModelAuto.v — which trains feed the automatic threshold (MRTS='auto') at each kind of entry
   point.  The threshold itself is sqrt (default_thresh_sq pool); the square root is not modelled,
   only the pool.  No proofs in this file. *)
From Coq Require Import List Bool Arith.
Import ListNotations.
From PS Require Import Num ModelKernels ModelFuncs ModelAPI.

Section Auto.
  Context {F : Type} (o : NumOps F).
  Variable eps : F.

  (* bivariate entry points: default_thresh([spike_train1, spike_train2]) after reconciling the pair *)
  Definition auto_pool_bi (rc : bool) (a b : @train F) : list (@train F) :=
    let '(a', b') := prep2 o eps rc a b in [a'; b'].

  (* multivariate entry points (profiles, scalars, matrices, order, directionality):
     default_thresh(spike_trains) of the WHOLE reconciled list - `indices` is not consulted *)
  Definition auto_pool_multi (rc : bool) (l : list (@train F)) (idx : option (list nat)) : list (@train F) :=
    if rc then reconcile o eps l else l.

  (* what C14 demands instead: the threshold of the selected sub-list *)
  Definition auto_pool_selected (rc : bool) (l : list (@train F)) (idx : option (list nat)) : list (@train F) :=
    let l' := if rc then reconcile o eps l else l in
    map (nth_train o l') (indices_or_all (length l') idx).
End Auto.
