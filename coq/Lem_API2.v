(* Lem_API2.v — API-level axioms of the SPIKE distance (C07), the ISI distance on a
   sub-interval, ranges of the multivariate scalars, and shift / scale invariance of
   the scalars (C08).  R instance. *)
From Coq Require Import List Bool Arith ZArith Reals Lra Lia Sorted Permutation.
Import ListNotations.
From PS Require Import Num RLemmas Valid ModelKernels ModelFuncs ModelAPI Spec SyncDefs.
From PS Require Import Lem_API.
From PS Require Lem_Isi Lem_IsiProps Lem_Spike Lem_Mrts Lem_Pwc Lem_Pwl Lem_WF Lem_Sync Lem_Order
                Lem_Multi Lem_MultiAPI Lem_MultiAPI2 Lem_Transform Lem_Transform2.
Local Open Scope R_scope.

Local Notation trainR := (@train R).

(* ------------------------------------------------------------------ *)
(* 0. clamps                                                           *)

Local Ltac mm := unfold Rmax, Rmin in *;
  repeat match goal with
         | |- context [Rle_dec ?a ?b] => destruct (Rle_dec a b)
         | H : context [Rle_dec ?a ?b] |- _ => destruct (Rle_dec a b)
         end; try lra.

Definition cl (x0 x1 t : R) : R := Lem_Pwl.clamp x0 x1 t.

Lemma cl_split x0 x1 xl t : x0 <= x1 -> x1 <= xl ->
  cl x0 xl t = cl x0 x1 t + cl x1 xl t - x1.
Proof. intros H1 H2. unfold cl, Lem_Pwl.clamp. mm. Qed.

Lemma cl_mono x0 x1 a b : x0 <= x1 -> a <= b -> x0 <= cl x0 x1 a /\ cl x0 x1 a <= cl x0 x1 b /\ cl x0 x1 b <= x1.
Proof. intros H1 H2. unfold cl, Lem_Pwl.clamp. mm. Qed.

Lemma cl_id x0 x1 t : x0 <= t -> t <= x1 -> cl x0 x1 t = t.
Proof. intros H1 H2. unfold cl, Lem_Pwl.clamp. mm. Qed.

Lemma cl_same x t : cl x x t = x.
Proof. unfold cl, Lem_Pwl.clamp. mm. Qed.

(* the line through (x0,ya) (x1,yb) stays between the bounds of its end values *)
Lemma lin_between x0 x1 ya yb lo hi t : x0 < x1 -> x0 <= t <= x1 ->
  lo <= ya <= hi -> lo <= yb <= hi -> lo <= lin ROps x0 x1 ya yb t <= hi.
Proof.
  intros Hx Ht Ha Hb. rewrite Lem_Pwl.lin_R.
  set (q := (t - x0) / (x1 - x0)).
  assert (Q : 0 <= q <= 1).
  { unfold q. split.
    - apply Rmult_le_reg_r with (x1 - x0); [lra|]. unfold Rdiv. rewrite Rmult_assoc, Rinv_l by lra. lra.
    - apply Rmult_le_reg_r with (x1 - x0); [lra|]. unfold Rdiv. rewrite Rmult_assoc, Rinv_l by lra. lra. }
  replace (ya + (yb - ya) * (t - x0) / (x1 - x0)) with (ya + (yb - ya) * q) by (unfold q, Rdiv; ring).
  split; nra.
Qed.

Lemma trap_between x0 x1 ya yb lo hi u v : x0 < x1 -> x0 <= u -> u <= v -> v <= x1 ->
  lo <= ya <= hi -> lo <= yb <= hi ->
  lo * (v - u) <= Lem_Pwl.trap x0 x1 ya yb u v <= hi * (v - u).
Proof.
  intros Hx Hu Huv Hv Ha Hb. unfold Lem_Pwl.trap.
  pose proof (lin_between x0 x1 ya yb lo hi u Hx ltac:(lra) Ha Hb) as Lu.
  pose proof (lin_between x0 x1 ya yb lo hi v Hx ltac:(lra) Ha Hb) as Lv.
  set (p := lin ROps x0 x1 ya yb u) in *. set (q := lin ROps x0 x1 ya yb v) in *.
  split; nra.
Qed.

(* ------------------------------------------------------------------ *)
(* 1. integral of a piecewise linear function with values in [lo, hi]   *)

Lemma pwl_overlap_bounds_gen : forall xs y1 y2 lo hi a b,
  ssorted xs -> length xs = S (length y1) -> length y1 = length y2 -> a <= b ->
  Forall (fun y => lo <= y <= hi) y1 -> Forall (fun y => lo <= y <= hi) y2 ->
  lo * (cl (hd 0 xs) (last xs 0) b - cl (hd 0 xs) (last xs 0) a)
  <= pwl_overlap ROps xs y1 y2 a b
  <= hi * (cl (hd 0 xs) (last xs 0) b - cl (hd 0 xs) (last xs 0) a).
Proof.
  induction xs as [|x0 xs IH]; intros y1 y2 lo hi a b Ss L1 L2 Hab F1 F2; [discriminate|].
  destruct xs as [|x1 r].
  - cbn [hd last]. rewrite Lem_Pwl.overlap_single, !cl_same. lra.
  - destruct y1 as [|ya y1]; [discriminate|]. destruct y2 as [|yb y2]; [discriminate|].
    rewrite Lem_Pwl.overlap_cons.
    pose proof Ss as Ss'. apply ssorted_cons_inv in Ss' as [S1 FF].
    assert (Hx : x0 < x1) by (inversion FF; auto).
    inversion F1 as [|? ? Ha F1']; subst. inversion F2 as [|? ? Hb F2']; subst.
    specialize (IH y1 y2 lo hi a b S1 ltac:(cbn [length] in *; lia) ltac:(cbn [length] in *; lia) Hab F1' F2').
    rewrite Lem_Pwl.pc_clamp by lra.
    change (hd 0 (x0 :: x1 :: r)) with x0. change (hd 0 (x1 :: r)) with x1 in IH.
    change (last (x0 :: x1 :: r) 0) with (last (x1 :: r) 0).
    set (xl := last (x1 :: r) 0) in *.
    assert (Hl : x1 <= xl).
    { unfold xl. apply (Lem_Pwl.ssorted_last_ge x1 r S1). }
    rewrite (cl_split x0 x1 xl b), (cl_split x0 x1 xl a) by lra.
    destruct (cl_mono x0 x1 a b ltac:(lra) Hab) as (C1 & C2 & C3).
    pose proof (trap_between x0 x1 ya yb lo hi _ _ Hx C1 C2 C3 Ha Hb) as T.
    fold (cl x0 x1 a) (cl x0 x1 b). lra.
Qed.

Theorem pwl_overlap_bounds : forall xs y1 y2 lo hi a b, wf_pwl (xs, y1, y2) ->
  Forall (fun y => lo <= y <= hi) y1 -> Forall (fun y => lo <= y <= hi) y2 ->
  nthF ROps xs 0 <= a -> a <= b -> b <= lastF ROps xs ->
  lo * (b - a) <= pwl_overlap ROps xs y1 y2 a b <= hi * (b - a).
Proof.
  intros xs y1 y2 lo hi a b W F1 F2 Ha Hab Hb.
  apply Lem_Pwl.wf_pwl_inv in W as (Ss & Hn & L1 & L2).
  pose proof (pwl_overlap_bounds_gen xs y1 y2 lo hi a b Ss ltac:(lia) ltac:(lia) Hab F1 F2) as B.
  rewrite Lem_API.nthF0_hd in Ha. unfold lastF in Hb. cbn [n0 ROps] in Hb.
  rewrite !cl_id in B by lra. exact B.
Qed.

(* the analogue for a piecewise constant function *)
Lemma pwc_piece_cl x0 x1 y a b : x0 < x1 -> a <= b ->
  (if Rltb (Rmax a x0) (Rmin b x1) then y * (Rmin b x1 - Rmax a x0) else 0)
  = y * (cl x0 x1 b - cl x0 x1 a).
Proof.
  intros Hx Hab. unfold cl, Lem_Pwl.clamp.
  destruct (Rltb_spec (Rmax a x0) (Rmin b x1)) as [H|H].
  - replace (Rmax x0 (Rmin a x1)) with (Rmax a x0) by mm.
    replace (Rmax x0 (Rmin b x1)) with (Rmin b x1) by mm. reflexivity.
  - replace (Rmax x0 (Rmin a x1)) with (Rmax x0 (Rmin b x1)) by mm. ring.
Qed.

Lemma pwc_overlap_bounds_gen : forall xs ys lo hi a b,
  ssorted xs -> length xs = S (length ys) -> a <= b ->
  Forall (fun y => lo <= y <= hi) ys ->
  lo * (cl (hd 0 xs) (last xs 0) b - cl (hd 0 xs) (last xs 0) a)
  <= pwc_overlap ROps xs ys a b
  <= hi * (cl (hd 0 xs) (last xs 0) b - cl (hd 0 xs) (last xs 0) a).
Proof.
  induction xs as [|x0 xs IH]; intros ys lo hi a b Ss L1 Hab F1; [discriminate|].
  destruct xs as [|x1 r].
  - cbn [hd last pwc_overlap]. rewrite !cl_same. cbn [n0 ROps]. lra.
  - destruct ys as [|y ys]; [discriminate|].
    rewrite Lem_Pwc.overlap_cons2.
    pose proof Ss as Ss'. apply ssorted_cons_inv in Ss' as [S1 FF].
    assert (Hx : x0 < x1) by (inversion FF; auto).
    inversion F1 as [|? ? Hy F1']; subst.
    specialize (IH ys lo hi a b S1 ltac:(cbn [length] in *; lia) Hab F1').
    rewrite pwc_piece_cl by lra.
    change (hd 0 (x0 :: x1 :: r)) with x0. change (hd 0 (x1 :: r)) with x1 in IH.
    change (last (x0 :: x1 :: r) 0) with (last (x1 :: r) 0).
    set (xl := last (x1 :: r) 0) in *.
    assert (Hl : x1 <= xl).
    { unfold xl. apply (Lem_Pwl.ssorted_last_ge x1 r S1). }
    rewrite (cl_split x0 x1 xl b), (cl_split x0 x1 xl a) by lra.
    destruct (cl_mono x0 x1 a b ltac:(lra) Hab) as (C1 & C2 & C3).
    assert (T : lo * (cl x0 x1 b - cl x0 x1 a) <= y * (cl x0 x1 b - cl x0 x1 a) <= hi * (cl x0 x1 b - cl x0 x1 a))
      by (split; nra).
    lra.
Qed.

Theorem pwc_overlap_bounds : forall xs ys lo hi a b, wf_pwc (xs, ys) ->
  Forall (fun y => lo <= y <= hi) ys ->
  nthF ROps xs 0 <= a -> a <= b -> b <= lastF ROps xs ->
  lo * (b - a) <= pwc_overlap ROps xs ys a b <= hi * (b - a).
Proof.
  intros xs ys lo hi a b [[Ss Hn] L1] F1 Ha Hab Hb. cbn [fst snd] in *.
  pose proof (pwc_overlap_bounds_gen xs ys lo hi a b Ss L1 Hab F1) as B.
  rewrite Lem_API.nthF0_hd in Ha. unfold lastF in Hb. cbn [n0 ROps] in Hb.
  rewrite !cl_id in B by lra. exact B.
Qed.

(* a quotient of a bounded integral by the positive length *)
Lemma avg_between lo hi v d : 0 < d -> lo * d <= v <= hi * d -> lo <= v / d <= hi.
Proof.
  intros Hd [H1 H2]. split.
  - apply Rmult_le_reg_r with d; [lra|]. unfold Rdiv. rewrite Rmult_assoc, Rinv_l by lra. lra.
  - apply Rmult_le_reg_r with d; [lra|]. unfold Rdiv. rewrite Rmult_assoc, Rinv_l by lra. lra.
Qed.

(* ------------------------------------------------------------------ *)
(* 2. the SPIKE distance: value, range, symmetry, identity (C07)        *)

Definition iv_ok := Lem_WF.iv_ok.
Definition iv_lo := Lem_WF.iv_lo.
Definition iv_hi := Lem_WF.iv_hi.

Lemma iv_bounds ts te iv : ts < te -> iv_ok ts te iv ->
  ts <= iv_lo ts iv /\ iv_lo ts iv < iv_hi te iv /\ iv_hi te iv <= te.
Proof.
  intros Hlt. destruct iv as [[x y]|]; cbn [iv_ok iv_lo iv_hi Lem_WF.iv_ok Lem_WF.iv_lo Lem_WF.iv_hi]; lra.
Qed.

(* the pair profile in py form on the edge-completed trains *)
Lemma spike_bi_py eps cy m ri ts te (a b : trainR) : vtrain ts te a -> vtrain ts te b ->
  spike_profile_bi ROps eps cy false m ri a b
  = spike_profile_py ROps (eff ts te (tr_spikes a)) (eff ts te (tr_spikes b)) ts te m ri.
Proof.
  intros Va Vb. unfold spike_profile_bi. rewrite prep2_false.
  rewrite (spikes_non_empty_eff Va), (spikes_non_empty_eff Vb).
  destruct Va as (_ & -> & ->).
  destruct cy; [apply Lem_Spike.spike_profile_cy_eq|reflexivity].
Qed.

(* value of the SPIKE distance on every code path *)
Lemma spike_distance_value eps cy m ri iv ts te (a b : trainR) :
  vtrain ts te a -> vtrain ts te b -> iv_ok ts te iv ->
  let p := spike_profile_py ROps (eff ts te (tr_spikes a)) (eff ts te (tr_spikes b)) ts te m ri in
  spike_distance_bi ROps eps cy false m ri iv a b
  = Ok (pwl_overlap ROps (fst (fst p)) (snd (fst p)) (snd p) (iv_lo ts iv) (iv_hi te iv)
        / (iv_hi te iv - iv_lo ts iv))
  /\ Lem_WF.good_pwl ts te p.
Proof.
  intros Va Vb Hiv p.
  pose proof (Lem_WF.spike_profile_bi_wf eps cy false m ri ts te a b (Lem_WF.rc_ok_false eps) Va Vb) as G.
  rewrite (spike_bi_py eps cy m ri ts te a b Va Vb) in G. fold p in G.
  split; [|exact G].
  rewrite (Lem_MultiAPI2.spike_bi_is_avrg eps cy m ri iv ts te a b
             (proj2 (Lem_MultiAPI2.wtrain_vtrain ts te a) Va)
             (proj2 (Lem_MultiAPI2.wtrain_vtrain ts te b) Vb)).
  rewrite (spike_bi_py eps cy m ri ts te a b Va Vb). fold p.
  apply (Lem_WF.pwl_avrg_ok ts te p iv G Hiv).
Qed.

Lemma Forall_and2 {A} (P Q : A -> Prop) l : Forall P l -> Forall Q l -> Forall (fun x => P x /\ Q x) l.
Proof. intros H1 H2. rewrite Forall_forall in *. intros x Hx. split; auto. Qed.

Theorem spike_distance_range : forall eps cy m ri iv a b ts te d,
  vtrain ts te a -> vtrain ts te b -> 0 <= m -> iv_ok ts te iv ->
  spike_distance_bi ROps eps cy false m ri iv a b = Ok d -> 0 <= d <= 1.
Proof.
  intros eps cy m ri iv a b ts te d Va Vb Hm Hiv E.
  destruct (spike_distance_value eps cy m ri iv ts te a b Va Vb Hiv) as [EV G]. cbv zeta in EV, G.
  rewrite EV in E. injection E as <-.
  pose proof Va as (V1 & _ & _). pose proof Vb as (V2 & _ & _).
  destruct (Lem_Mrts.spike_profile_nonneg _ _ _ _ m ri V1 V2 Hm) as [N1 N2].
  destruct (Lem_Mrts.spike_profile_le1 _ _ _ _ m ri V1 V2 Hm) as [U1 U2].
  set (p := spike_profile_py ROps (eff ts te (tr_spikes a)) (eff ts te (tr_spikes b)) ts te m ri) in *.
  destruct G as (W & F0 & FL).
  destruct (iv_bounds ts te iv (Lem_WF.vtrain_lt Va) Hiv) as (B1 & B2 & B3).
  apply avg_between; [lra|].
  destruct p as [[xs y1] y2]. cbn [fst snd] in *.
  apply pwl_overlap_bounds; auto; try lra.
  - apply Forall_and2; assumption.
  - apply Forall_and2; assumption.
Qed.

Theorem spike_profile_symmetric : forall eps cy m ri a b ts te, vtrain ts te a -> vtrain ts te b ->
  spike_profile_bi ROps eps cy false m ri a b = spike_profile_bi ROps eps cy false m ri b a.
Proof.
  intros eps cy m ri a b ts te Va Vb.
  rewrite (spike_bi_py eps cy m ri ts te a b Va Vb), (spike_bi_py eps cy m ri ts te b a Vb Va).
  apply Lem_Spike.spike_profile_sym.
Qed.

Theorem spike_distance_symmetric : forall eps cy m ri iv a b ts te,
  vtrain ts te a -> vtrain ts te b ->
  spike_distance_bi ROps eps cy false m ri iv a b = spike_distance_bi ROps eps cy false m ri iv b a.
Proof.
  intros eps cy m ri iv a b ts te Va Vb.
  pose proof (proj2 (Lem_MultiAPI2.wtrain_vtrain ts te a) Va) as Wa.
  pose proof (proj2 (Lem_MultiAPI2.wtrain_vtrain ts te b) Vb) as Wb.
  rewrite (Lem_MultiAPI2.spike_bi_is_avrg eps cy m ri iv ts te a b Wa Wb),
          (Lem_MultiAPI2.spike_bi_is_avrg eps cy m ri iv ts te b a Wb Wa),
          (spike_profile_symmetric eps cy m ri a b ts te Va Vb).
  reflexivity.
Qed.

Theorem spike_distance_self : forall eps cy m ri iv a ts te,
  vtrain ts te a -> iv_ok ts te iv ->
  spike_distance_bi ROps eps cy false m ri iv a a = Ok 0.
Proof.
  intros eps cy m ri iv a ts te Va Hiv.
  destruct (spike_distance_value eps cy m ri iv ts te a a Va Va Hiv) as [EV G]. cbv zeta in EV, G.
  rewrite EV. f_equal.
  pose proof Va as (V1 & _ & _).
  destruct (Lem_Mrts.spike_profile_self_zero _ _ _ m ri V1) as [Z1 Z2].
  set (p := spike_profile_py ROps (eff ts te (tr_spikes a)) (eff ts te (tr_spikes a)) ts te m ri) in *.
  destruct G as (W & F0 & FL).
  destruct (iv_bounds ts te iv (Lem_WF.vtrain_lt Va) Hiv) as (B1 & B2 & B3).
  destruct p as [[xs y1] y2]. cbn [fst snd] in *.
  assert (B : 0 * (iv_hi te iv - iv_lo ts iv)
              <= pwl_overlap ROps xs y1 y2 (iv_lo ts iv) (iv_hi te iv)
              <= 0 * (iv_hi te iv - iv_lo ts iv)).
  { apply pwl_overlap_bounds; auto; try lra.
    - eapply Forall_impl; [|exact Z1]. cbv beta. intros y ->. lra.
    - eapply Forall_impl; [|exact Z2]. cbv beta. intros y ->. lra. }
  replace (pwl_overlap ROps xs y1 y2 (iv_lo ts iv) (iv_hi te iv)) with 0 by lra.
  unfold Rdiv. ring.
Qed.

(* ------------------------------------------------------------------ *)
(* 3. the ISI distance on an admissible sub-interval                    *)

Lemma isi_bi_py eps cy m ts te (a b : trainR) : vtrain ts te a -> vtrain ts te b ->
  isi_profile_bi ROps eps cy false m a b
  = isi_profile_py ROps (spikes_non_empty ROps a) (spikes_non_empty ROps b) ts te m.
Proof. intros Va Vb. apply Lem_WF.isi_bi_py; auto. apply Lem_WF.rc_ok_false. Qed.

Lemma isi_distance_value eps cy m iv ts te (a b : trainR) :
  vtrain ts te a -> vtrain ts te b -> iv_ok ts te iv ->
  let p := isi_profile_py ROps (spikes_non_empty ROps a) (spikes_non_empty ROps b) ts te m in
  isi_distance_bi ROps eps cy false m iv a b
  = Ok (pwc_overlap ROps (fst p) (snd p) (iv_lo ts iv) (iv_hi te iv) / (iv_hi te iv - iv_lo ts iv))
  /\ Lem_WF.good_pwc ts te p.
Proof.
  intros Va Vb Hiv p.
  pose proof (Lem_WF.isi_profile_bi_wf eps cy false m ts te a b (Lem_WF.rc_ok_false eps) Va Vb) as G.
  rewrite (isi_bi_py eps cy m ts te a b Va Vb) in G. fold p in G.
  split; [|exact G].
  rewrite (isi_distance_is_profile_average eps cy m iv Va Vb).
  rewrite (isi_bi_py eps cy m ts te a b Va Vb). fold p.
  apply (Lem_WF.pwc_avrg_ok ts te p iv G Hiv).
Qed.

Theorem isi_distance_range_iv : forall eps cy m iv a b ts te d,
  vtrain ts te a -> vtrain ts te b -> iv_ok ts te iv ->
  isi_distance_bi ROps eps cy false m iv a b = Ok d -> 0 <= d <= 1.
Proof.
  intros eps cy m iv a b ts te d Va Vb Hiv E.
  destruct (isi_distance_value eps cy m iv ts te a b Va Vb Hiv) as [EV G]. cbv zeta in EV, G.
  rewrite EV in E. injection E as <-.
  pose proof (isi_profile_range_any m (sne_valid Va) (sne_valid Vb)) as HR.
  set (p := isi_profile_py ROps (spikes_non_empty ROps a) (spikes_non_empty ROps b) ts te m) in *.
  destruct G as (W & F0 & FL).
  destruct (iv_bounds ts te iv (Lem_WF.vtrain_lt Va) Hiv) as (B1 & B2 & B3).
  apply avg_between; [lra|].
  destruct p as [xs ys]. cbn [fst snd] in *.
  apply pwc_overlap_bounds; auto; lra.
Qed.

Theorem isi_distance_self_iv : forall eps cy m iv a ts te,
  vtrain ts te a -> iv_ok ts te iv ->
  isi_distance_bi ROps eps cy false m iv a a = Ok 0.
Proof.
  intros eps cy m iv a ts te Va Hiv.
  destruct (isi_distance_value eps cy m iv ts te a a Va Va Hiv) as [EV G]. cbv zeta in EV, G.
  rewrite EV. f_equal.
  pose proof (Lem_IsiProps.isi_profile_self (spikes_non_empty ROps a) ts te m) as HR.
  set (p := isi_profile_py ROps (spikes_non_empty ROps a) (spikes_non_empty ROps a) ts te m) in *.
  destruct G as (W & F0 & FL).
  destruct (iv_bounds ts te iv (Lem_WF.vtrain_lt Va) Hiv) as (B1 & B2 & B3).
  destruct p as [xs ys]. cbn [fst snd] in *.
  assert (B : 0 * (iv_hi te iv - iv_lo ts iv)
              <= pwc_overlap ROps xs ys (iv_lo ts iv) (iv_hi te iv)
              <= 0 * (iv_hi te iv - iv_lo ts iv)).
  { apply pwc_overlap_bounds; auto; try lra.
    eapply Forall_impl; [|exact HR]. cbv beta. intros y ->. lra. }
  replace (pwc_overlap ROps xs ys (iv_lo ts iv) (iv_hi te iv)) with 0 by lra.
  unfold Rdiv. ring.
Qed.

(* ------------------------------------------------------------------ *)
(* 4. shift / scale of the time axis and the integrals                  *)

Import Lem_Transform.

Theorem pwc_int_all_shift : forall c xs ys,
  pwc_int_all ROps (map (sh c) xs) ys = pwc_int_all ROps xs ys.
Proof.
  intros c. induction xs as [|x0 xs IH]; intros ys; [reflexivity|].
  destruct xs as [|x1 r]; [reflexivity|].
  destruct ys as [|y ys]; [reflexivity|].
  change (map (sh c) (x0 :: x1 :: r)) with (sh c x0 :: sh c x1 :: map (sh c) r).
  rewrite !Lem_Pwc.int_all_cons2.
  change (sh c x1 :: map (sh c) r) with (map (sh c) (x1 :: r)). rewrite IH.
  unfold sh. ring.
Qed.

Theorem pwc_int_all_scale : forall k xs ys,
  pwc_int_all ROps (map (sc k) xs) ys = k * pwc_int_all ROps xs ys.
Proof.
  intros k. induction xs as [|x0 xs IH]; intros ys; [cbn; lra|].
  destruct xs as [|x1 r]; [cbn; lra|].
  destruct ys as [|y ys]; [cbn; lra|].
  change (map (sc k) (x0 :: x1 :: r)) with (sc k x0 :: sc k x1 :: map (sc k) r).
  rewrite !Lem_Pwc.int_all_cons2.
  change (sc k x1 :: map (sc k) r) with (map (sc k) (x1 :: r)). rewrite IH.
  unfold sc. ring.
Qed.

Theorem pwl_int_all_shift : forall c xs y1 y2,
  pwl_int_all ROps (map (sh c) xs) y1 y2 = pwl_int_all ROps xs y1 y2.
Proof.
  intros c. induction xs as [|x0 xs IH]; intros y1 y2; [reflexivity|].
  destruct xs as [|x1 r]; [reflexivity|].
  destruct y1 as [|ya y1]; [reflexivity|].
  destruct y2 as [|yb y2]; [reflexivity|].
  change (map (sh c) (x0 :: x1 :: r)) with (sh c x0 :: sh c x1 :: map (sh c) r).
  rewrite !Lem_Pwl.int_all_cons.
  change (sh c x1 :: map (sh c) r) with (map (sh c) (x1 :: r)). rewrite IH.
  unfold sh. ring.
Qed.

Theorem pwl_int_all_scale : forall k xs y1 y2,
  pwl_int_all ROps (map (sc k) xs) y1 y2 = k * pwl_int_all ROps xs y1 y2.
Proof.
  intros k. induction xs as [|x0 xs IH]; intros y1 y2; [cbn; lra|].
  destruct xs as [|x1 r]; [cbn; lra|].
  destruct y1 as [|ya y1]; [cbn; lra|].
  destruct y2 as [|yb y2]; [cbn; lra|].
  change (map (sc k) (x0 :: x1 :: r)) with (sc k x0 :: sc k x1 :: map (sc k) r).
  rewrite !Lem_Pwl.int_all_cons.
  change (sc k x1 :: map (sc k) r) with (map (sc k) (x1 :: r)). rewrite IH.
  unfold sc. ring.
Qed.

(* ------------------------------------------------------------------ *)
(* 5. shift / scale invariance of the bivariate distances (C08)         *)

Definition shift_train (c : R) (t : trainR) : trainR :=
  (map (sh c) (tr_spikes t), tr_start t + c, tr_end t + c).
Definition scale_train (k : R) (t : trainR) : trainR :=
  (map (sc k) (tr_spikes t), k * tr_start t, k * tr_end t).

Lemma vtrain_shift c ts te t : vtrain ts te t -> vtrain (ts + c) (te + c) (shift_train c t).
Proof.
  intros (V & Hs & He). unfold vtrain, shift_train. cbn [tr_spikes tr_start tr_end fst snd].
  fold (tr_spikes t) (tr_start t) (tr_end t). rewrite Hs, He.
  split; [apply Lem_Transform2.valid_shift; exact V|split; reflexivity].
Qed.

Lemma vtrain_scale k ts te t : 0 < k -> vtrain ts te t -> vtrain (k * ts) (k * te) (scale_train k t).
Proof.
  intros Hk (V & Hs & He). unfold vtrain, scale_train. cbn [tr_spikes tr_start tr_end fst snd].
  fold (tr_spikes t) (tr_start t) (tr_end t). rewrite Hs, He.
  split; [apply Lem_Transform2.valid_scale; assumption|split; reflexivity].
Qed.

Lemma sne_shift c ts te t : vtrain ts te t ->
  spikes_non_empty ROps (shift_train c t) = map (sh c) (spikes_non_empty ROps t).
Proof.
  intros V. rewrite (spikes_non_empty_eff (vtrain_shift c ts te t V)), (spikes_non_empty_eff V).
  apply Lem_Transform2.eff_shift.
Qed.

Lemma sne_scale k ts te t : 0 < k -> vtrain ts te t ->
  spikes_non_empty ROps (scale_train k t) = map (sc k) (spikes_non_empty ROps t).
Proof.
  intros Hk V. rewrite (spikes_non_empty_eff (vtrain_scale k ts te t Hk V)), (spikes_non_empty_eff V).
  apply Lem_Transform2.eff_scale.
Qed.

Theorem isi_distance_shift : forall eps cy m c a b ts te, vtrain ts te a -> vtrain ts te b ->
  isi_distance_bi ROps eps cy false m None (shift_train c a) (shift_train c b)
  = isi_distance_bi ROps eps cy false m None a b.
Proof.
  intros eps cy m c a b ts te Va Vb.
  rewrite (isi_distance_none_value eps cy m (vtrain_shift c ts te a Va) (vtrain_shift c ts te b Vb)).
  rewrite (isi_distance_none_value eps cy m Va Vb). cbv zeta.
  rewrite (sne_shift c ts te a Va), (sne_shift c ts te b Vb).
  pose proof (Lem_IsiProps.isi_profile_shift c (spikes_non_empty ROps a) (spikes_non_empty ROps b) ts te m) as E.
  change (fun x : R => x + c) with (sh c) in E. rewrite E. cbn [fst snd].
  rewrite pwc_int_all_shift. f_equal. f_equal. ring.
Qed.

Theorem isi_distance_scale : forall eps cy m k a b ts te, 0 < k -> vtrain ts te a -> vtrain ts te b ->
  isi_distance_bi ROps eps cy false (k * m) None (scale_train k a) (scale_train k b)
  = isi_distance_bi ROps eps cy false m None a b.
Proof.
  intros eps cy m k a b ts te Hk Va Vb.
  rewrite (isi_distance_none_value eps cy (k * m) (vtrain_scale k ts te a Hk Va) (vtrain_scale k ts te b Hk Vb)).
  rewrite (isi_distance_none_value eps cy m Va Vb). cbv zeta.
  rewrite (sne_scale k ts te a Hk Va), (sne_scale k ts te b Hk Vb).
  pose proof (Lem_IsiProps.isi_profile_scale k (spikes_non_empty ROps a) (spikes_non_empty ROps b) ts te m Hk) as E.
  change (map (Rmult k)) with (map (sc k)) in E. rewrite E. cbn [fst snd].
  rewrite pwc_int_all_scale. f_equal.
  pose proof (Lem_WF.vtrain_lt Va) as Hlt. field. nra.
Qed.

(* the SPIKE distance over the whole recording as the plain sum of trapezoids *)
Lemma spike_distance_none_value eps cy m ri ts te (a b : trainR) :
  vtrain ts te a -> vtrain ts te b ->
  let p := spike_profile_py ROps (eff ts te (tr_spikes a)) (eff ts te (tr_spikes b)) ts te m ri in
  spike_distance_bi ROps eps cy false m ri None a b
  = Ok (pwl_int_all ROps (fst (fst p)) (snd (fst p)) (snd p) / (te - ts)).
Proof.
  intros Va Vb p.
  pose proof (Lem_WF.spike_profile_bi_wf eps cy false m ri ts te a b (Lem_WF.rc_ok_false eps) Va Vb) as G.
  rewrite (spike_bi_py eps cy m ri ts te a b Va Vb) in G. fold p in G.
  rewrite (Lem_MultiAPI2.spike_bi_is_avrg eps cy m ri None ts te a b
             (proj2 (Lem_MultiAPI2.wtrain_vtrain ts te a) Va)
             (proj2 (Lem_MultiAPI2.wtrain_vtrain ts te b) Vb)).
  rewrite (spike_bi_py eps cy m ri ts te a b Va Vb). fold p.
  destruct G as (_ & F0 & FL).
  unfold pwl_avrg, avrg_gen, iv_of. cbv zeta. rewrite F0, FL.
  destruct p as [[xs y1] y2]. reflexivity.
Qed.

Theorem spike_distance_shift : forall eps cy m ri c a b ts te, vtrain ts te a -> vtrain ts te b ->
  spike_distance_bi ROps eps cy false m ri None (shift_train c a) (shift_train c b)
  = spike_distance_bi ROps eps cy false m ri None a b.
Proof.
  intros eps cy m ri c a b ts te Va Vb.
  rewrite (spike_distance_none_value eps cy m ri (ts + c) (te + c) _ _
             (vtrain_shift c ts te a Va) (vtrain_shift c ts te b Vb)).
  rewrite (spike_distance_none_value eps cy m ri ts te a b Va Vb). cbv zeta.
  change (tr_spikes (shift_train c a)) with (map (sh c) (tr_spikes a)).
  change (tr_spikes (shift_train c b)) with (map (sh c) (tr_spikes b)).
  pose proof Va as (V1 & _ & _). pose proof Vb as (V2 & _ & _).
  rewrite (Lem_Transform2.spike_profile_shift c _ _ ts te m ri V1 V2). cbn [fst snd].
  rewrite pwl_int_all_shift. f_equal. f_equal. ring.
Qed.

Theorem spike_distance_scale : forall eps cy m ri k a b ts te, 0 < k -> vtrain ts te a -> vtrain ts te b ->
  spike_distance_bi ROps eps cy false (k * m) ri None (scale_train k a) (scale_train k b)
  = spike_distance_bi ROps eps cy false m ri None a b.
Proof.
  intros eps cy m ri k a b ts te Hk Va Vb.
  rewrite (spike_distance_none_value eps cy (k * m) ri (k * ts) (k * te) _ _
             (vtrain_scale k ts te a Hk Va) (vtrain_scale k ts te b Hk Vb)).
  rewrite (spike_distance_none_value eps cy m ri ts te a b Va Vb). cbv zeta.
  change (tr_spikes (scale_train k a)) with (map (sc k) (tr_spikes a)).
  change (tr_spikes (scale_train k b)) with (map (sc k) (tr_spikes b)).
  pose proof Va as (V1 & _ & _). pose proof Vb as (V2 & _ & _).
  rewrite (Lem_Transform2.spike_profile_scale k _ _ ts te m ri Hk V1 V2). cbn [fst snd].
  rewrite pwl_int_all_scale. f_equal.
  pose proof (Lem_WF.vtrain_lt Va) as Hlt. field. nra.
Qed.

(* ------------------------------------------------------------------ *)
(* 6. ranges of the multivariate scalars                                *)

Lemma mean_range {A} (val : A -> R) (ps : list A) : (forall p, In p ps -> 0 <= val p <= 1) ->
  0 <= sumF ROps (map val ps) <= INR (length ps).
Proof.
  induction ps as [|p ps IH]; intros H.
  - cbn [map length INR]. rewrite Lem_MultiAPI2.sumF_nil. lra.
  - cbn [map length]. rewrite Lem_MultiAPI.sumF_cons1. rewrite (S_INR (length ps)).
    pose proof (H p (or_introl eq_refl)) as Hp.
    specialize (IH (fun q Hq => H q (or_intror Hq))). lra.
Qed.

Lemma pairs_vtrain ts te (l : list trainR) p : (2 <= length l)%nat -> Forall (vtrain ts te) l ->
  In p (pairs_of (seq 0 (length l))) ->
  vtrain ts te (nth_train ROps l (fst p)) /\ vtrain ts te (nth_train ROps l (snd p)).
Proof.
  intros H2 HF Hp. apply (Lem_WF.pair_trains ts te l None p HF (Lem_WF.idx_ok_none _ H2)). exact Hp.
Qed.

Lemma pairs_count_pos (l : list trainR) : (2 <= length l)%nat ->
  0 < INR (length (pairs_of (seq 0 (length l)))).
Proof. intros H2. apply lt_0_INR. apply Lem_WF.pairs_pos. rewrite seq_length. exact H2. Qed.

(* a mean of pair values in [0,1] *)
Lemma distance_multi_range eps (bi : trainR -> trainR -> res R) ts te (l : list trainR) :
  (2 <= length l)%nat -> Forall (vtrain ts te) l ->
  (forall a b, vtrain ts te a -> vtrain ts te b -> exists v, bi a b = Ok v /\ 0 <= v <= 1) ->
  exists d, distance_multi_gen ROps eps bi false l None = Ok d /\ 0 <= d <= 1.
Proof.
  intros H2 HF Hbi.
  set (val := fun p : nat * nat =>
                Lem_Multi.valOf (bi (nth_train ROps l (fst p)) (nth_train ROps l (snd p)))).
  assert (Hv : forall p, In p (pairs_of (seq 0 (length l))) ->
             bi (nth_train ROps l (fst p)) (nth_train ROps l (snd p)) = Ok (val p) /\ 0 <= val p <= 1).
  { intros p Hp. destruct (pairs_vtrain ts te l p H2 HF Hp) as [Va Vb].
    destruct (Hbi _ _ Va Vb) as (v & E & R). unfold val. rewrite E. cbn [Lem_Multi.valOf]. auto. }
  rewrite (Lem_MultiAPI.distance_multi_val eps bi val l (fun p Hp => proj1 (Hv p Hp))).
  eexists. split; [reflexivity|].
  apply avg_between; [apply pairs_count_pos; exact H2|].
  pose proof (mean_range val _ (fun p Hp => proj2 (Hv p Hp))). lra.
Qed.

Theorem isi_distance_multi_range : forall eps cy m iv l ts te,
  (2 <= length l)%nat -> Forall (vtrain ts te) l -> iv_ok ts te iv ->
  exists d, isi_distance_multi ROps eps cy false m iv l None = Ok d /\ 0 <= d <= 1.
Proof.
  intros eps cy m iv l ts te H2 HF Hiv. unfold isi_distance_multi.
  apply (distance_multi_range eps _ ts te l H2 HF). intros a b Va Vb.
  destruct (Lem_WF.isi_distance_bi_ok eps cy false m iv ts te a b (Lem_WF.rc_ok_false eps) Va Vb Hiv) as (v & E).
  exists v. split; [exact E|]. apply (isi_distance_range_iv eps cy m iv a b ts te v Va Vb Hiv E).
Qed.

Theorem spike_distance_multi_range : forall eps cy m ri iv l ts te,
  (2 <= length l)%nat -> Forall (vtrain ts te) l -> iv_ok ts te iv -> 0 <= m ->
  exists d, spike_distance_multi ROps eps cy false m ri iv l None = Ok d /\ 0 <= d <= 1.
Proof.
  intros eps cy m ri iv l ts te H2 HF Hiv Hm. unfold spike_distance_multi.
  apply (distance_multi_range eps _ ts te l H2 HF). intros a b Va Vb.
  destruct (Lem_WF.spike_distance_bi_ok eps cy false m ri iv ts te a b (Lem_WF.rc_ok_false eps) Va Vb Hiv) as (v & E).
  exists v. split; [exact E|]. apply (spike_distance_range eps cy m ri iv a b ts te v Va Vb Hm Hiv E).
Qed.

(* the pair counts of SPIKE-Sync: 0 <= coincidences <= number of events *)
Lemma sync_values_range eps cy mt m iv ts te (a b : trainR) cm :
  vtrain ts te a -> vtrain ts te b ->
  spike_sync_values ROps eps cy mt m iv a b = Ok cm -> 0 <= fst cm <= snd cm.
Proof.
  intros Va Vb E. rewrite (sync_values_are_profile_sums eps cy mt m iv Va Vb) in E.
  apply (@df_integral_range _ iv cm) in E; [exact E|].
  unfold spike_sync_profile_bi. rewrite prep2_false, gt_of_eq.
  destruct Va as (V1 & Hs & He), Vb as (V2 & _ & _). rewrite Hs, He.
  unfold coincidence_profile_gen. rewrite R_n2. rops.
  apply frame_profile_Forall.
  - intros t t' y mp H; exact H.
  - unfold e_y, e_mp; cbn [fst snd]; lra.
  - apply Lem_Order.mark_range. apply (Lem_Sync.scan_clean _ _ _ _ mt m V1 V2).
Qed.

Lemma pair_sums_range {A} (val : A -> R * R) (ps : list A) :
  (forall p, In p ps -> 0 <= fst (val p) <= snd (val p)) ->
  0 <= sumF ROps (map (fun p => fst (val p)) ps) <= sumF ROps (map (fun p => snd (val p)) ps).
Proof.
  induction ps as [|p ps IH]; intros H.
  - cbn [map]. rewrite Lem_MultiAPI2.sumF_nil. lra.
  - cbn [map]. rewrite !Lem_MultiAPI.sumF_cons1.
    pose proof (H p (or_introl eq_refl)) as Hp.
    specialize (IH (fun q Hq => H q (or_intror Hq))). lra.
Qed.

Theorem spike_sync_multi_range : forall eps cy mt m iv l ts te,
  (2 <= length l)%nat -> Forall (vtrain ts te) l -> iv_ok ts te iv ->
  exists d, spike_sync_multi ROps eps cy false mt m iv l None = Ok d /\ 0 <= d <= 1.
Proof.
  intros eps cy mt m iv l ts te H2 HF Hiv.
  set (f := fun p : nat * nat => spike_sync_values ROps eps cy mt m iv
                                   (nth_train ROps l (fst p)) (nth_train ROps l (snd p))).
  set (val := fun p : nat * nat => Lem_Multi.valOf2 (f p)).
  assert (Hv : forall p, In p (pairs_of (seq 0 (length l))) ->
             f p = Ok (val p) /\ 0 <= fst (val p) <= snd (val p)).
  { intros p Hp. destruct (pairs_vtrain ts te l p H2 HF Hp) as [Va Vb].
    destruct (Lem_WF.sync_values_ok eps cy mt m iv ts te _ _ Va Vb Hiv) as (v & E).
    unfold val, f. rewrite E. cbn [Lem_Multi.valOf2]. split; [reflexivity|].
    apply (sync_values_range eps cy mt m iv ts te _ _ v Va Vb E). }
  unfold spike_sync_multi. cbn [indices_or_all]. rewrite Lem_Multi.check_indices_seq. cbn [negb].
  fold f.
  rewrite (Lem_MultiAPI2.pair_fold_val f val _ _ (fun p Hp => proj1 (Hv p Hp))).
  cbn [rmap fst snd]. eexists. split; [reflexivity|].
  pose proof (pair_sums_range val _ (fun p Hp => proj2 (Hv p Hp))) as SR.
  set (c := sumF ROps (map (fun p => fst (val p)) (pairs_of (seq 0 (length l))))) in *.
  set (mp := sumF ROps (map (fun p => snd (val p)) (pairs_of (seq 0 (length l))))) in *.
  apply (ratio1_range (n0 ROps + c, n0 ROps + mp)). cbn [fst snd n0 ROps]. lra.
Qed.

Theorem multi_ranges : forall eps cy m mt ri iv l ts te,
  (2 <= length l)%nat -> Forall (vtrain ts te) l -> iv_ok ts te iv -> 0 <= m ->
  (exists d, isi_distance_multi ROps eps cy false m iv l None = Ok d /\ 0 <= d <= 1) /\
  (exists d, spike_distance_multi ROps eps cy false m ri iv l None = Ok d /\ 0 <= d <= 1) /\
  (exists d, spike_sync_multi ROps eps cy false mt m iv l None = Ok d /\ 0 <= d <= 1).
Proof.
  intros eps cy m mt ri iv l ts te H2 HF Hiv Hm. split; [|split].
  - apply (isi_distance_multi_range eps cy m iv l ts te H2 HF Hiv).
  - apply (spike_distance_multi_range eps cy m ri iv l ts te H2 HF Hiv Hm).
  - apply (spike_sync_multi_range eps cy mt m iv l ts te H2 HF Hiv).
Qed.

(* ------------------------------------------------------------------ *)
(* 7. shift / scale invariance on an admissible sub-interval (the interval
      is transformed with the trains)                                   *)

Lemma Rmax_shift c a b : Rmax (a + c) (b + c) = Rmax a b + c.
Proof. mm. Qed.
Lemma Rmin_shift c a b : Rmin (a + c) (b + c) = Rmin a b + c.
Proof. mm. Qed.
Lemma Rmax_scale k a b : 0 < k -> Rmax (k * a) (k * b) = k * Rmax a b.
Proof. intros Hk. unfold Rmax. destruct (Rle_dec (k * a) (k * b)), (Rle_dec a b); try reflexivity; nra. Qed.

Lemma pwc_overlap_shift : forall c xs ys a b,
  pwc_overlap ROps (map (sh c) xs) ys (a + c) (b + c) = pwc_overlap ROps xs ys a b.
Proof.
  intros c. induction xs as [|x0 xs IH]; intros ys a b; [reflexivity|].
  destruct xs as [|x1 r]; [reflexivity|].
  destruct ys as [|y ys]; [reflexivity|].
  change (map (sh c) (x0 :: x1 :: r)) with (sh c x0 :: sh c x1 :: map (sh c) r).
  rewrite !Lem_Pwc.overlap_cons2.
  change (sh c x1 :: map (sh c) r) with (map (sh c) (x1 :: r)). rewrite IH.
  unfold sh. rewrite Rmax_shift, Rmin_shift, Rltb_shift.
  destruct (Rltb (Rmax a x0) (Rmin b x1)); ring.
Qed.

Lemma pwc_overlap_scale : forall k xs ys a b, 0 < k ->
  pwc_overlap ROps (map (sc k) xs) ys (k * a) (k * b) = k * pwc_overlap ROps xs ys a b.
Proof.
  intros k xs ys a b Hk. revert ys. induction xs as [|x0 xs IH]; intros ys; [cbn; lra|].
  destruct xs as [|x1 r]; [cbn; lra|].
  destruct ys as [|y ys]; [cbn; lra|].
  change (map (sc k) (x0 :: x1 :: r)) with (sc k x0 :: sc k x1 :: map (sc k) r).
  rewrite !Lem_Pwc.overlap_cons2.
  change (sc k x1 :: map (sc k) r) with (map (sc k) (x1 :: r)). rewrite IH.
  unfold sc. rewrite Rmax_scale, Rmin_scale, Rltb_scale by exact Hk.
  destruct (Rltb (Rmax a x0) (Rmin b x1)); ring.
Qed.

Lemma lin_shift c x0 x1 ya yb t :
  lin ROps (x0 + c) (x1 + c) ya yb (t + c) = lin ROps x0 x1 ya yb t.
Proof.
  rewrite !Lem_Pwl.lin_R.
  replace (t + c - (x0 + c)) with (t - x0) by ring.
  replace (x1 + c - (x0 + c)) with (x1 - x0) by ring. reflexivity.
Qed.

Lemma lin_scale k x0 x1 ya yb t : 0 < k -> x0 < x1 ->
  lin ROps (k * x0) (k * x1) ya yb (k * t) = lin ROps x0 x1 ya yb t.
Proof. intros Hk Hx. rewrite !Lem_Pwl.lin_R. field. split; nra. Qed.

Lemma pc_shift c x0 x1 ya yb a b :
  Lem_Pwl.pc (x0 + c) (x1 + c) ya yb (a + c) (b + c) = Lem_Pwl.pc x0 x1 ya yb a b.
Proof.
  unfold Lem_Pwl.pc, Lem_Pwl.trap. rewrite Rmax_shift, Rmin_shift, Rltb_shift, !lin_shift.
  destruct (Rltb (Rmax a x0) (Rmin b x1)); [|reflexivity]. unfold Rdiv. ring.
Qed.

Lemma pc_scale k x0 x1 ya yb a b : 0 < k -> x0 < x1 ->
  Lem_Pwl.pc (k * x0) (k * x1) ya yb (k * a) (k * b) = k * Lem_Pwl.pc x0 x1 ya yb a b.
Proof.
  intros Hk Hx. unfold Lem_Pwl.pc, Lem_Pwl.trap.
  rewrite Rmax_scale, Rmin_scale, Rltb_scale, !lin_scale by assumption.
  destruct (Rltb (Rmax a x0) (Rmin b x1)); [|ring]. unfold Rdiv. ring.
Qed.

Lemma pwl_overlap_shift : forall c xs y1 y2 a b,
  pwl_overlap ROps (map (sh c) xs) y1 y2 (a + c) (b + c) = pwl_overlap ROps xs y1 y2 a b.
Proof.
  intros c. induction xs as [|x0 xs IH]; intros y1 y2 a b; [reflexivity|].
  destruct xs as [|x1 r]; [reflexivity|].
  destruct y1 as [|ya y1]; [reflexivity|].
  destruct y2 as [|yb y2]; [reflexivity|].
  change (map (sh c) (x0 :: x1 :: r)) with (sh c x0 :: sh c x1 :: map (sh c) r).
  rewrite !Lem_Pwl.overlap_cons.
  change (sh c x1 :: map (sh c) r) with (map (sh c) (x1 :: r)). rewrite IH.
  unfold sh. rewrite pc_shift. reflexivity.
Qed.

Lemma pwl_overlap_scale : forall k xs y1 y2 a b, 0 < k -> ssorted xs ->
  pwl_overlap ROps (map (sc k) xs) y1 y2 (k * a) (k * b) = k * pwl_overlap ROps xs y1 y2 a b.
Proof.
  intros k xs y1 y2 a b Hk. revert y1 y2. induction xs as [|x0 xs IH]; intros y1 y2 Ss; [cbn; lra|].
  destruct xs as [|x1 r]; [cbn; lra|].
  destruct y1 as [|ya y1]; [cbn; lra|].
  destruct y2 as [|yb y2]; [cbn; lra|].
  apply ssorted_cons_inv in Ss as [S1 FF]. assert (Hx : x0 < x1) by (inversion FF; auto).
  change (map (sc k) (x0 :: x1 :: r)) with (sc k x0 :: sc k x1 :: map (sc k) r).
  rewrite !Lem_Pwl.overlap_cons.
  change (sc k x1 :: map (sc k) r) with (map (sc k) (x1 :: r)). rewrite (IH y1 y2 S1).
  unfold sc. rewrite pc_scale by assumption. ring.
Qed.

Definition shift_iv (c : R) (iv : option (R * R)) : option (R * R) :=
  match iv with None => None | Some (x, y) => Some (x + c, y + c) end.
Definition scale_iv (k : R) (iv : option (R * R)) : option (R * R) :=
  match iv with None => None | Some (x, y) => Some (k * x, k * y) end.

Lemma iv_ok_shift c ts te iv : iv_ok ts te iv -> iv_ok (ts + c) (te + c) (shift_iv c iv)
  /\ iv_lo (ts + c) (shift_iv c iv) = iv_lo ts iv + c /\ iv_hi (te + c) (shift_iv c iv) = iv_hi te iv + c.
Proof.
  destruct iv as [[x y]|];
    cbn [shift_iv iv_ok iv_lo iv_hi Lem_WF.iv_ok Lem_WF.iv_lo Lem_WF.iv_hi]; intros H; repeat split; lra.
Qed.

Lemma iv_ok_scale k ts te iv : 0 < k -> iv_ok ts te iv -> iv_ok (k * ts) (k * te) (scale_iv k iv)
  /\ iv_lo (k * ts) (scale_iv k iv) = k * iv_lo ts iv /\ iv_hi (k * te) (scale_iv k iv) = k * iv_hi te iv.
Proof.
  intros Hk. destruct iv as [[x y]|];
    cbn [scale_iv iv_ok iv_lo iv_hi Lem_WF.iv_ok Lem_WF.iv_lo Lem_WF.iv_hi]; intros H; repeat split; nra.
Qed.

Theorem isi_distance_shift_iv : forall eps cy m iv c a b ts te,
  vtrain ts te a -> vtrain ts te b -> iv_ok ts te iv ->
  isi_distance_bi ROps eps cy false m (shift_iv c iv) (shift_train c a) (shift_train c b)
  = isi_distance_bi ROps eps cy false m iv a b.
Proof.
  intros eps cy m iv c a b ts te Va Vb Hiv.
  destruct (iv_ok_shift c ts te iv Hiv) as (Hiv' & EL & EH).
  destruct (isi_distance_value eps cy m _ _ _ _ _ (vtrain_shift c ts te a Va) (vtrain_shift c ts te b Vb) Hiv')
    as [E1 _].
  destruct (isi_distance_value eps cy m iv ts te a b Va Vb Hiv) as [E2 _]. cbv zeta in E1, E2.
  rewrite E1, E2, EL, EH.
  rewrite (sne_shift c ts te a Va), (sne_shift c ts te b Vb).
  pose proof (Lem_IsiProps.isi_profile_shift c (spikes_non_empty ROps a) (spikes_non_empty ROps b) ts te m) as E.
  change (fun x : R => x + c) with (sh c) in E. rewrite E. cbn [fst snd].
  rewrite pwc_overlap_shift. f_equal. f_equal. ring.
Qed.

Theorem isi_distance_scale_iv : forall eps cy m iv k a b ts te, 0 < k ->
  vtrain ts te a -> vtrain ts te b -> iv_ok ts te iv ->
  isi_distance_bi ROps eps cy false (k * m) (scale_iv k iv) (scale_train k a) (scale_train k b)
  = isi_distance_bi ROps eps cy false m iv a b.
Proof.
  intros eps cy m iv k a b ts te Hk Va Vb Hiv.
  destruct (iv_ok_scale k ts te iv Hk Hiv) as (Hiv' & EL & EH).
  destruct (isi_distance_value eps cy (k * m) _ _ _ _ _
              (vtrain_scale k ts te a Hk Va) (vtrain_scale k ts te b Hk Vb) Hiv') as [E1 _].
  destruct (isi_distance_value eps cy m iv ts te a b Va Vb Hiv) as [E2 _]. cbv zeta in E1, E2.
  rewrite E1, E2, EL, EH.
  rewrite (sne_scale k ts te a Hk Va), (sne_scale k ts te b Hk Vb).
  pose proof (Lem_IsiProps.isi_profile_scale k (spikes_non_empty ROps a) (spikes_non_empty ROps b) ts te m Hk) as E.
  change (map (Rmult k)) with (map (sc k)) in E. rewrite E. cbn [fst snd].
  rewrite pwc_overlap_scale by exact Hk. f_equal.
  destruct (iv_bounds ts te iv (Lem_WF.vtrain_lt Va) Hiv) as (B1 & B2 & B3). field. nra.
Qed.

Theorem spike_distance_shift_iv : forall eps cy m ri iv c a b ts te,
  vtrain ts te a -> vtrain ts te b -> iv_ok ts te iv ->
  spike_distance_bi ROps eps cy false m ri (shift_iv c iv) (shift_train c a) (shift_train c b)
  = spike_distance_bi ROps eps cy false m ri iv a b.
Proof.
  intros eps cy m ri iv c a b ts te Va Vb Hiv.
  destruct (iv_ok_shift c ts te iv Hiv) as (Hiv' & EL & EH).
  destruct (spike_distance_value eps cy m ri _ _ _ _ _
              (vtrain_shift c ts te a Va) (vtrain_shift c ts te b Vb) Hiv') as [E1 _].
  destruct (spike_distance_value eps cy m ri iv ts te a b Va Vb Hiv) as [E2 _]. cbv zeta in E1, E2.
  rewrite E1, E2, EL, EH.
  change (tr_spikes (shift_train c a)) with (map (sh c) (tr_spikes a)).
  change (tr_spikes (shift_train c b)) with (map (sh c) (tr_spikes b)).
  pose proof Va as (V1 & _ & _). pose proof Vb as (V2 & _ & _).
  rewrite (Lem_Transform2.spike_profile_shift c _ _ ts te m ri V1 V2). cbn [fst snd].
  rewrite pwl_overlap_shift. f_equal. f_equal. ring.
Qed.

Theorem spike_distance_scale_iv : forall eps cy m ri iv k a b ts te, 0 < k ->
  vtrain ts te a -> vtrain ts te b -> iv_ok ts te iv ->
  spike_distance_bi ROps eps cy false (k * m) ri (scale_iv k iv) (scale_train k a) (scale_train k b)
  = spike_distance_bi ROps eps cy false m ri iv a b.
Proof.
  intros eps cy m ri iv k a b ts te Hk Va Vb Hiv.
  destruct (iv_ok_scale k ts te iv Hk Hiv) as (Hiv' & EL & EH).
  destruct (spike_distance_value eps cy (k * m) ri _ _ _ _ _
              (vtrain_scale k ts te a Hk Va) (vtrain_scale k ts te b Hk Vb) Hiv') as [E1 _].
  destruct (spike_distance_value eps cy m ri iv ts te a b Va Vb Hiv) as [E2 G]. cbv zeta in E1, E2, G.
  rewrite E1, E2, EL, EH.
  change (tr_spikes (scale_train k a)) with (map (sc k) (tr_spikes a)).
  change (tr_spikes (scale_train k b)) with (map (sc k) (tr_spikes b)).
  pose proof Va as (V1 & _ & _). pose proof Vb as (V2 & _ & _).
  rewrite (Lem_Transform2.spike_profile_scale k _ _ ts te m ri Hk V1 V2). cbn [fst snd].
  destruct G as (((Ss & _) & _) & _).
  rewrite pwl_overlap_scale by assumption. f_equal.
  destruct (iv_bounds ts te iv (Lem_WF.vtrain_lt Va) Hiv) as (B1 & B2 & B3). field. nra.
Qed.

(* ------------------------------------------------------------------ *)
Print Assumptions pwl_overlap_bounds.
Print Assumptions pwc_overlap_bounds.
Print Assumptions spike_distance_range.
Print Assumptions spike_distance_symmetric.
Print Assumptions spike_distance_self.
Print Assumptions isi_distance_range_iv.
Print Assumptions isi_distance_self_iv.
Print Assumptions multi_ranges.
Print Assumptions pwc_int_all_scale.
Print Assumptions pwl_int_all_scale.
Print Assumptions isi_distance_shift.
Print Assumptions isi_distance_scale.
Print Assumptions spike_distance_shift.
Print Assumptions spike_distance_scale.
Print Assumptions spike_distance_scale_iv.
Print Assumptions isi_distance_scale_iv.
