(* ModelSort.v — optimal_spike_train_sorting: the simulated annealing over adjacent
   transpositions (pyspike/cython/cython_simulated_annealing.pyx, sim_ann_cython) and
   permutate_matrix (pyspike/spike_directionality.py).

   Outside the twenty listed properties; modelled because it is the only remaining numeric
   routine of the library.  Only the .pyx exists (the Python wrapper raises without it), so the
   correspondence runs the de-cythonised source with a scripted [rand].

   The two sources of randomness are C's rand():
     ind1    = rand() % (N-1)
     accept  = delta_A > 0.0  or  exp(delta_A/T) > (1.0*rand())/RAND_MAX     (short-circuit!)
   The model reads the raw stream [rnd : nat -> nat] (k-th value returned by rand()) and leaves
   the Metropolis comparison to an oracle [metro delta T u] (the model has no exp).  Every theorem
   in Lem_Sort.v holds for all [rnd] and all [metro].  For execution [metro] is instantiated by
   [u =? 0]: exp(x) > 0 always, and the harness scripts only u = 0 (accept) and u = RAND_MAX
   (exp(x) <= 1 for x <= 0: reject), the two draws whose outcome does not depend on exp. *)

From Coq Require Import List Bool ZArith Lia.
Import ListNotations.
From PS Require Import Num.

Section Sort.
  Context {F : Type} (o : NumOps F).

  Definition mrow (D : list (list F)) (i : nat) : list F := nth i D [].
  Definition mget (D : list (list F)) (i j : nat) : F := nth j (mrow D i) (n0 o).

  (* np.sum(np.triu(D, 0)) for an N x N matrix: entries with column >= row *)
  Definition triu_row (D : list (list F)) (N i : nat) : F :=
    nsum o (map (mget D i) (seq i (N - i))).
  Definition triu_sum (D : list (list F)) : F :=
    let N := length D in nsum o (map (triu_row D N) (seq 0 N)).

  (* permutate_matrix: D'[n][m] = D[p[n]][p[m]] *)
  Definition permutate_matrix (D : list (list F)) (p : list nat) : list (list F) :=
    map (fun n => map (fun m => mget D n m) p) p.

  (* p[i], p[i+1] = p[i+1], p[i] *)
  Definition swap_adj (p : list nat) (i : nat) : list nat :=
    firstn i p ++ match skipn i p with
                  | a :: b :: r => b :: a :: r
                  | r => r
                  end.

  (* np.max(D) of a non-empty matrix *)
  Definition row_max (r : list F) (a : F) : F := fold_left (nmax o) r a.
  Definition mat_max (D : list (list F)) : F :=
    match D with
    | (x :: r) :: rows => fold_left (fun a row => row_max row a) rows (row_max r x)
    | _ => n0 o
    end.

  Variable rnd : nat -> nat.                   (* the rand() stream *)
  Variable metro : F -> F -> nat -> bool.      (* exp(delta/T) > u/RAND_MAX *)

  Record sa := mkSa { sa_p : list nat; sa_A : F; sa_k : nat (* draws consumed *) }.

  (* one proposal *)
  Definition sa_step (D : list (list F)) (N : nat) (T : F) (s : sa) : sa * bool :=
    let ind1 := Nat.modulo (rnd (sa_k s)) (N - 1) in
    let a := nth ind1 (sa_p s) 0%nat in
    let b := nth (S ind1) (sa_p s) 0%nat in
    let delta := nmul o (nofZ o (-2)%Z) (mget D a b) in
    if ngtb o delta (n0 o)
    then (mkSa (swap_adj (sa_p s) ind1) (nadd o (sa_A s) delta) (S (sa_k s)), true)
    else if metro delta T (rnd (S (sa_k s)))
         then (mkSa (swap_adj (sa_p s) ind1) (nadd o (sa_A s) delta) (S (S (sa_k s))), true)
         else (mkSa (sa_p s) (sa_A s) (S (S (sa_k s))), false).

  (* while iterations < 100*N and succ_iter < 10*N; [fuel] = 100*N - iterations *)
  Fixpoint sa_equil (D : list (list F)) (N : nat) (T : F) (fuel : nat) (succ its : nat) (s : sa)
    : sa * nat * nat :=
    match fuel with
    | O => (s, succ, its)
    | S fuel' =>
        if Nat.ltb succ (10 * N) then
          let '(s', ok) := sa_step D N T s in
          sa_equil D N T fuel' (if ok then S succ else succ) (S its) s'
        else (s, succ, its)
    end.

  (* while T > T_end: equilibrate; T *= alpha; break when nothing was accepted.
     [fuel] bounds the number of temperatures; None = fuel exhausted *)
  Fixpoint sa_cool (D : list (list F)) (N : nat) (T_end alpha : F) (fuel : nat) (T : F)
           (total : nat) (s : sa) : option (sa * nat) :=
    if ngtb o T T_end then
      match fuel with
      | O => None
      | S fuel' =>
          let '(s', succ, its) := sa_equil D N T (100 * N) 0 0 s in
          if Nat.eqb succ 0 then Some (s', (total + its)%nat)
          else sa_cool D N T_end alpha fuel' (nmul o T alpha) (total + its)%nat s'
      end
    else Some (s, total).

  (* sim_ann_cython(D, T_start, T_end, alpha) -> (p, A, total_iter) *)
  Definition sim_ann (D : list (list F)) (T_start T_end alpha : F) (fuel : nat)
    : option (list nat * F * nat) :=
    let N := length D in
    match sa_cool D N T_end alpha fuel T_start 0 (mkSa (seq 0 N) (triu_sum D) 0) with
    | Some (s, total) => Some (sa_p s, sa_A s, total)
    | None => None
    end.

  (* _optimal_spike_train_sorting_from_matrix: T_start = 2*max(D), T_end = 1e-5*T_start,
     alpha = 0.9 (the model takes the two constants as exact rationals) *)
  Definition sorting_from_matrix (D : list (list F)) (fuel : nat) : option (list nat * F * nat) :=
    let T_start := nmul o (n2 o) (mat_max D) in
    let T_end := nmul o (ndiv o (n1 o) (nofZ o 100000%Z)) T_start in
    sim_ann D T_start T_end (ndiv o (nofZ o 9%Z) (nofZ o 10%Z)) fuel.
End Sort.

(* executable oracle: the Metropolis draw accepts iff u = 0 (see the header) *)
Definition metro_script {F : Type} (_ _ : F) (u : nat) : bool := Nat.eqb u 0.

(* the scripted stream: the pattern repeated for ever *)
Definition cyc (pat : list nat) (k : nat) : nat :=
  match pat with [] => 0%nat | _ => nth (Nat.modulo k (length pat)) pat 0%nat end.
