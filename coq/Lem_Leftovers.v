(* Lem_Leftovers.v — remaining API-level facts (R instance):
   C10  average of a piecewise linear function over several intervals,
   C13  the bivariate entry points reconcile exactly once,
   C14  a list holding two trains gives the bivariate result. *)
From Coq Require Import List Bool Arith ZArith Reals Lra Lia Sorted Permutation.
Import ListNotations.
From PS Require Import Num RLemmas Valid ModelKernels ModelFuncs ModelAPI Spec SyncDefs.
From PS Require Lem_Pwl Lem_Pwc Lem_Lists Lem_API.
Local Open Scope R_scope.

Local Notation trainR := (@train R).

(* ================================================================== *)
(* 1. C10: pwl average over several intervals                          *)

Lemma sum_res_pwl_integrals f l : wf_pwl f ->
  Forall (fun p => nthF ROps (fst (fst f)) 0 <= fst p /\ fst p < snd p
                   /\ snd p <= lastF ROps (fst (fst f))) l ->
  sum_res ROps (map (fun p => pwl_integral ROps f (Some p)) l) =
  Ok (sumF ROps (map (fun p => pwl_overlap ROps (fst (fst f)) (snd (fst f)) (snd f) (fst p) (snd p)) l)).
Proof.
  intros Hw. induction 1 as [|[a b] l (H0 & Hab & Hb) _ IH]; [reflexivity|].
  cbn [map sum_res fst snd] in *. rewrite Lem_Pwl.pwl_integral_overlap by auto.
  rewrite IH. reflexivity.
Qed.

Theorem pwl_avrg_many : forall f l, wf_pwl f ->
  Forall (fun p => nthF ROps (fst (fst f)) 0 <= fst p /\ fst p < snd p
                   /\ snd p <= lastF ROps (fst (fst f))) l ->
  pwl_avrg ROps f (IvMany l) =
  Ok (sumF ROps (map (fun p => pwl_overlap ROps (fst (fst f)) (snd (fst f)) (snd f) (fst p) (snd p)) l)
      / sumF ROps (map (fun p => snd p - fst p) l)).
Proof.
  intros f l Hw H. unfold pwl_avrg, avrg_gen. rewrite sum_res_pwl_integrals by auto. reflexivity.
Qed.

(* ================================================================== *)
(* 2. C13: generic facts about prep2                                   *)

Definition rec0 (eps : R) (a b : trainR) : trainR := nth 0 (reconcile ROps eps [a; b]) a.
Definition rec1 (eps : R) (a b : trainR) : trainR := nth 1 (reconcile ROps eps [a; b]) b.

Lemma reconcile_two eps (a b : trainR) :
  reconcile ROps eps [a; b] = [rec0 eps a b; rec1 eps a b].
Proof.
  unfold rec0, rec1. pose proof (Lem_Lists.reconcile_length eps [a; b]) as HL.
  destruct (reconcile ROps eps [a; b]) as [|a' [|b' [|c r]]]; cbn [length] in HL; try discriminate.
  reflexivity.
Qed.

Lemma prep2_true_eq eps (a b : trainR) :
  prep2 ROps eps true a b = (rec0 eps a b, rec1 eps a b).
Proof. unfold prep2. rewrite reconcile_two. reflexivity. Qed.

Lemma prep2_valid eps (a b : trainR) ts te : 0 < eps ->
  Lem_API.vtrain ts te a -> Lem_API.vtrain ts te b -> prep2 ROps eps true a b = (a, b).
Proof. intros; eapply Lem_API.prep2_true_valid; eauto. Qed.

Lemma prep2_messy eps (a b a2 b2 : trainR) :
  Lem_Lists.same_train a a2 -> Lem_Lists.same_train b b2 ->
  prep2 ROps eps true a b = prep2 ROps eps true a2 b2.
Proof.
  intros Ha Hb. unfold prep2.
  rewrite (Lem_Lists.reconcile_messy eps [a; b] [a2; b2]).
  - pose proof (reconcile_two eps a2 b2) as E. rewrite E. reflexivity.
  - constructor; [exact Ha | constructor; [exact Hb | constructor]].
Qed.

Lemma rec_valid eps (a b : trainR) ts te : 0 < eps ->
  Lem_API.vtrain ts te a -> Lem_API.vtrain ts te b -> rec0 eps a b = a /\ rec1 eps a b = b.
Proof.
  intros He Va Vb. pose proof (prep2_valid eps a b ts te He Va Vb) as E.
  rewrite prep2_true_eq in E. injection E as E0 E1. split; assumption.
Qed.

(* ------------------------------------------------------------------ *)
(* the nine rc-taking bivariate entry points                           *)

Section Once.
  Variable eps : R.

  (* --- isi_profile_bi --- *)
  Theorem bi_reconciles_once_isi_profile_bi : forall cy m a b,
    isi_profile_bi ROps eps cy true m a b
    = isi_profile_bi ROps eps cy false m (rec0 eps a b) (rec1 eps a b).
  Proof. intros. unfold isi_profile_bi. rewrite prep2_true_eq. reflexivity. Qed.

  Corollary bi_valid_reconcile_irrelevant_isi_profile_bi : forall cy m a b ts te, 0 < eps ->
    Lem_API.vtrain ts te a -> Lem_API.vtrain ts te b ->
    isi_profile_bi ROps eps cy true m a b = isi_profile_bi ROps eps cy false m a b.
  Proof.
    intros cy m a b ts te He Va Vb. rewrite bi_reconciles_once_isi_profile_bi.
    destruct (rec_valid eps a b ts te He Va Vb) as [-> ->]. reflexivity.
  Qed.

  Corollary bi_messy_isi_profile_bi : forall cy m a b a2 b2,
    Lem_Lists.same_train a a2 -> Lem_Lists.same_train b b2 ->
    isi_profile_bi ROps eps cy true m a b = isi_profile_bi ROps eps cy true m a2 b2.
  Proof.
    intros cy m a b a2 b2 Ha Hb. unfold isi_profile_bi.
    rewrite (prep2_messy eps a b a2 b2 Ha Hb). reflexivity.
  Qed.

  (* --- spike_profile_bi --- *)
  Theorem bi_reconciles_once_spike_profile_bi : forall cy m ri a b,
    spike_profile_bi ROps eps cy true m ri a b
    = spike_profile_bi ROps eps cy false m ri (rec0 eps a b) (rec1 eps a b).
  Proof. intros. unfold spike_profile_bi. rewrite prep2_true_eq. reflexivity. Qed.

  Corollary bi_valid_reconcile_irrelevant_spike_profile_bi : forall cy m ri a b ts te, 0 < eps ->
    Lem_API.vtrain ts te a -> Lem_API.vtrain ts te b ->
    spike_profile_bi ROps eps cy true m ri a b = spike_profile_bi ROps eps cy false m ri a b.
  Proof.
    intros cy m ri a b ts te He Va Vb. rewrite bi_reconciles_once_spike_profile_bi.
    destruct (rec_valid eps a b ts te He Va Vb) as [-> ->]. reflexivity.
  Qed.

  Corollary bi_messy_spike_profile_bi : forall cy m ri a b a2 b2,
    Lem_Lists.same_train a a2 -> Lem_Lists.same_train b b2 ->
    spike_profile_bi ROps eps cy true m ri a b = spike_profile_bi ROps eps cy true m ri a2 b2.
  Proof.
    intros cy m ri a b a2 b2 Ha Hb. unfold spike_profile_bi.
    rewrite (prep2_messy eps a b a2 b2 Ha Hb). reflexivity.
  Qed.

  (* --- spike_sync_profile_bi --- *)
  Theorem bi_reconciles_once_spike_sync_profile_bi : forall cy mt m a b,
    spike_sync_profile_bi ROps eps cy true mt m a b
    = spike_sync_profile_bi ROps eps cy false mt m (rec0 eps a b) (rec1 eps a b).
  Proof. intros. unfold spike_sync_profile_bi. rewrite prep2_true_eq. reflexivity. Qed.

  Corollary bi_valid_reconcile_irrelevant_spike_sync_profile_bi : forall cy mt m a b ts te, 0 < eps ->
    Lem_API.vtrain ts te a -> Lem_API.vtrain ts te b ->
    spike_sync_profile_bi ROps eps cy true mt m a b = spike_sync_profile_bi ROps eps cy false mt m a b.
  Proof.
    intros cy mt m a b ts te He Va Vb. rewrite bi_reconciles_once_spike_sync_profile_bi.
    destruct (rec_valid eps a b ts te He Va Vb) as [-> ->]. reflexivity.
  Qed.

  Corollary bi_messy_spike_sync_profile_bi : forall cy mt m a b a2 b2,
    Lem_Lists.same_train a a2 -> Lem_Lists.same_train b b2 ->
    spike_sync_profile_bi ROps eps cy true mt m a b = spike_sync_profile_bi ROps eps cy true mt m a2 b2.
  Proof.
    intros cy mt m a b a2 b2 Ha Hb. unfold spike_sync_profile_bi.
    rewrite (prep2_messy eps a b a2 b2 Ha Hb). reflexivity.
  Qed.

  (* --- order_profile_bi --- *)
  Theorem bi_reconciles_once_order_profile_bi : forall cy mt m a b,
    order_profile_bi ROps eps cy true mt m a b
    = order_profile_bi ROps eps cy false mt m (rec0 eps a b) (rec1 eps a b).
  Proof. intros. unfold order_profile_bi. rewrite prep2_true_eq. reflexivity. Qed.

  Corollary bi_valid_reconcile_irrelevant_order_profile_bi : forall cy mt m a b ts te, 0 < eps ->
    Lem_API.vtrain ts te a -> Lem_API.vtrain ts te b ->
    order_profile_bi ROps eps cy true mt m a b = order_profile_bi ROps eps cy false mt m a b.
  Proof.
    intros cy mt m a b ts te He Va Vb. rewrite bi_reconciles_once_order_profile_bi.
    destruct (rec_valid eps a b ts te He Va Vb) as [-> ->]. reflexivity.
  Qed.

  Corollary bi_messy_order_profile_bi : forall cy mt m a b a2 b2,
    Lem_Lists.same_train a a2 -> Lem_Lists.same_train b b2 ->
    order_profile_bi ROps eps cy true mt m a b = order_profile_bi ROps eps cy true mt m a2 b2.
  Proof.
    intros cy mt m a b a2 b2 Ha Hb. unfold order_profile_bi.
    rewrite (prep2_messy eps a b a2 b2 Ha Hb). reflexivity.
  Qed.

  (* --- isi_distance_bi --- *)
  Theorem bi_reconciles_once_isi_distance_bi : forall cy m iv a b,
    isi_distance_bi ROps eps cy true m iv a b
    = isi_distance_bi ROps eps cy false m iv (rec0 eps a b) (rec1 eps a b).
  Proof. intros. unfold isi_distance_bi. rewrite prep2_true_eq. reflexivity. Qed.

  Corollary bi_valid_reconcile_irrelevant_isi_distance_bi : forall cy m iv a b ts te, 0 < eps ->
    Lem_API.vtrain ts te a -> Lem_API.vtrain ts te b ->
    isi_distance_bi ROps eps cy true m iv a b = isi_distance_bi ROps eps cy false m iv a b.
  Proof.
    intros cy m iv a b ts te He Va Vb. rewrite bi_reconciles_once_isi_distance_bi.
    destruct (rec_valid eps a b ts te He Va Vb) as [-> ->]. reflexivity.
  Qed.

  Corollary bi_messy_isi_distance_bi : forall cy m iv a b a2 b2,
    Lem_Lists.same_train a a2 -> Lem_Lists.same_train b b2 ->
    isi_distance_bi ROps eps cy true m iv a b = isi_distance_bi ROps eps cy true m iv a2 b2.
  Proof.
    intros cy m iv a b a2 b2 Ha Hb. unfold isi_distance_bi.
    rewrite (prep2_messy eps a b a2 b2 Ha Hb). reflexivity.
  Qed.

  (* --- spike_distance_bi --- *)
  Theorem bi_reconciles_once_spike_distance_bi : forall cy m ri iv a b,
    spike_distance_bi ROps eps cy true m ri iv a b
    = spike_distance_bi ROps eps cy false m ri iv (rec0 eps a b) (rec1 eps a b).
  Proof. intros. unfold spike_distance_bi. rewrite prep2_true_eq. reflexivity. Qed.

  Corollary bi_valid_reconcile_irrelevant_spike_distance_bi : forall cy m ri iv a b ts te, 0 < eps ->
    Lem_API.vtrain ts te a -> Lem_API.vtrain ts te b ->
    spike_distance_bi ROps eps cy true m ri iv a b = spike_distance_bi ROps eps cy false m ri iv a b.
  Proof.
    intros cy m ri iv a b ts te He Va Vb. rewrite bi_reconciles_once_spike_distance_bi.
    destruct (rec_valid eps a b ts te He Va Vb) as [-> ->]. reflexivity.
  Qed.

  Corollary bi_messy_spike_distance_bi : forall cy m ri iv a b a2 b2,
    Lem_Lists.same_train a a2 -> Lem_Lists.same_train b b2 ->
    spike_distance_bi ROps eps cy true m ri iv a b = spike_distance_bi ROps eps cy true m ri iv a2 b2.
  Proof.
    intros cy m ri iv a b a2 b2 Ha Hb. unfold spike_distance_bi.
    rewrite (prep2_messy eps a b a2 b2 Ha Hb). reflexivity.
  Qed.

  (* --- spike_sync_bi --- *)
  Theorem bi_reconciles_once_spike_sync_bi : forall cy mt m iv a b,
    spike_sync_bi ROps eps cy true mt m iv a b
    = spike_sync_bi ROps eps cy false mt m iv (rec0 eps a b) (rec1 eps a b).
  Proof. intros. unfold spike_sync_bi. rewrite prep2_true_eq. reflexivity. Qed.

  Corollary bi_valid_reconcile_irrelevant_spike_sync_bi : forall cy mt m iv a b ts te, 0 < eps ->
    Lem_API.vtrain ts te a -> Lem_API.vtrain ts te b ->
    spike_sync_bi ROps eps cy true mt m iv a b = spike_sync_bi ROps eps cy false mt m iv a b.
  Proof.
    intros cy mt m iv a b ts te He Va Vb. rewrite bi_reconciles_once_spike_sync_bi.
    destruct (rec_valid eps a b ts te He Va Vb) as [-> ->]. reflexivity.
  Qed.

  Corollary bi_messy_spike_sync_bi : forall cy mt m iv a b a2 b2,
    Lem_Lists.same_train a a2 -> Lem_Lists.same_train b b2 ->
    spike_sync_bi ROps eps cy true mt m iv a b = spike_sync_bi ROps eps cy true mt m iv a2 b2.
  Proof.
    intros cy mt m iv a b a2 b2 Ha Hb. unfold spike_sync_bi.
    rewrite (prep2_messy eps a b a2 b2 Ha Hb). reflexivity.
  Qed.

  (* --- spike_train_order_bi --- *)
  Theorem bi_reconciles_once_spike_train_order_bi : forall cy nz mt m a b,
    spike_train_order_bi ROps eps cy true nz mt m a b
    = spike_train_order_bi ROps eps cy false nz mt m (rec0 eps a b) (rec1 eps a b).
  Proof. intros. unfold spike_train_order_bi. rewrite prep2_true_eq. reflexivity. Qed.

  Corollary bi_valid_reconcile_irrelevant_spike_train_order_bi : forall cy nz mt m a b ts te, 0 < eps ->
    Lem_API.vtrain ts te a -> Lem_API.vtrain ts te b ->
    spike_train_order_bi ROps eps cy true nz mt m a b = spike_train_order_bi ROps eps cy false nz mt m a b.
  Proof.
    intros cy nz mt m a b ts te He Va Vb. rewrite bi_reconciles_once_spike_train_order_bi.
    destruct (rec_valid eps a b ts te He Va Vb) as [-> ->]. reflexivity.
  Qed.

  Corollary bi_messy_spike_train_order_bi : forall cy nz mt m a b a2 b2,
    Lem_Lists.same_train a a2 -> Lem_Lists.same_train b b2 ->
    spike_train_order_bi ROps eps cy true nz mt m a b = spike_train_order_bi ROps eps cy true nz mt m a2 b2.
  Proof.
    intros cy nz mt m a b a2 b2 Ha Hb. unfold spike_train_order_bi.
    rewrite (prep2_messy eps a b a2 b2 Ha Hb). reflexivity.
  Qed.

  (* --- spike_directionality --- *)
  Theorem bi_reconciles_once_spike_directionality : forall cy nz mt m a b,
    spike_directionality ROps eps cy true nz mt m a b
    = spike_directionality ROps eps cy false nz mt m (rec0 eps a b) (rec1 eps a b).
  Proof. intros. unfold spike_directionality. rewrite prep2_true_eq. reflexivity. Qed.

  Corollary bi_valid_reconcile_irrelevant_spike_directionality : forall cy nz mt m a b ts te, 0 < eps ->
    Lem_API.vtrain ts te a -> Lem_API.vtrain ts te b ->
    spike_directionality ROps eps cy true nz mt m a b = spike_directionality ROps eps cy false nz mt m a b.
  Proof.
    intros cy nz mt m a b ts te He Va Vb. rewrite bi_reconciles_once_spike_directionality.
    destruct (rec_valid eps a b ts te He Va Vb) as [-> ->]. reflexivity.
  Qed.

  Corollary bi_messy_spike_directionality : forall cy nz mt m a b a2 b2,
    Lem_Lists.same_train a a2 -> Lem_Lists.same_train b b2 ->
    spike_directionality ROps eps cy true nz mt m a b = spike_directionality ROps eps cy true nz mt m a2 b2.
  Proof.
    intros cy nz mt m a b a2 b2 Ha Hb. unfold spike_directionality.
    rewrite (prep2_messy eps a b a2 b2 Ha Hb). reflexivity.
  Qed.
End Once.

(* ================================================================== *)
(* 3. C14: a list of two trains gives the bivariate result             *)

Lemma pwc_mul_one (P : @pwc R) : pwc_mul ROps P (1 / 1) = P.
Proof.
  destruct P as [xs ys]. unfold pwc_mul. cbn [fst snd]. f_equal.
  rewrite <- (map_id ys) at 2. apply map_ext. intros y. cbn [nmul ROps]. field.
Qed.

Lemma pwl_mul_one (P : @pwl R) : pwl_mul ROps P (1 / 1) = P.
Proof.
  destruct P as [[xs y1] y2]. unfold pwl_mul. f_equal; [f_equal|].
  - rewrite <- (map_id y1) at 2. apply map_ext. intros y. cbn [nmul ROps]. field.
  - rewrite <- (map_id y2) at 2. apply map_ext. intros y. cbn [nmul ROps]. field.
Qed.

Lemma nofnat_one : nofnat ROps 1 = 1.
Proof. reflexivity. Qed.

Section TwoList.
  Variable eps : R.

  Lemma distance_multi_two_eps : forall (bi : trainR -> trainR -> res R) a b,
    distance_multi_gen ROps eps bi false [a; b] None = bi a b.
  Proof. intros bi a b. exact (Lem_Lists.distance_multi_two_id bi a b). Qed.

  Theorem isi_distance_two_list : forall cy m iv a b,
    isi_distance_multi ROps eps cy false m iv [a; b] None = isi_distance_bi ROps eps cy false m iv a b.
  Proof. intros. unfold isi_distance_multi. apply distance_multi_two_eps. Qed.

  Theorem spike_distance_two_list : forall cy m ri iv a b,
    spike_distance_multi ROps eps cy false m ri iv [a; b] None
    = spike_distance_bi ROps eps cy false m ri iv a b.
  Proof. intros. unfold spike_distance_multi. apply distance_multi_two_eps. Qed.

  Lemma ratio_pair_zero (v : R * R) :
    (0 + fst v, 0 + snd v) = v.
  Proof. destruct v as [c mp]. cbn [fst snd]. f_equal; lra. Qed.

  Theorem sync_two_list : forall cy mt m iv a b,
    spike_sync_multi ROps eps cy false mt m iv [a; b] None = spike_sync_bi ROps eps cy false mt m iv a b.
  Proof.
    intros cy mt m iv a b. unfold spike_sync_multi, spike_sync_bi. cbv zeta.
    cbn [prep2 length indices_or_all seq check_indices forallb Nat.ltb Nat.leb andb negb
         pairs_of map app fold_left fst snd nth_train nth rbind].
    destruct (spike_sync_values ROps eps cy mt m iv a b) as [v|e]; cbn [rmap]; [|reflexivity].
    cbn [fst snd nadd n0 ROps]. rewrite !Rplus_0_l. reflexivity.
  Qed.

  Theorem order_two_list : forall cy nrm mt m a b,
    spike_train_order_multi ROps eps cy false nrm mt m [a; b] None
    = spike_train_order_bi ROps eps cy false nrm mt m a b.
  Proof.
    intros cy nrm mt m a b. unfold spike_train_order_multi, spike_train_order_bi. cbv zeta.
    cbn [prep2 length indices_or_all seq check_indices forallb Nat.ltb Nat.leb andb negb
         pairs_of map app fold_left fst snd nth_train nth rbind].
    destruct (order_impl ROps eps cy mt m a b) as [v|e]; cbn [rmap]; [|reflexivity].
    cbn [fst snd nadd n0 ROps]. rewrite !Rplus_0_l. reflexivity.
  Qed.

  (* the generic profile routine on a list of two trains: one pair, [dc] returns it *)
  Lemma profile_multi_two : forall (P : Type) (padd : P -> P -> res P)
      (bi : trainR -> trainR -> res P) a b,
    profile_multi_gen ROps eps padd bi false [a; b] None = rmap (fun p => (p, 1%nat)) (bi a b).
  Proof.
    intros P padd bi a b. unfold profile_multi_gen. cbv zeta.
    cbn [length indices_or_all seq check_indices forallb Nat.ltb Nat.leb andb negb
         pairs_of map app dc fst snd nth_train nth].
    reflexivity.
  Qed.

  Theorem isi_profile_two_list_mul : forall cy m a b,
    isi_profile_multi ROps eps cy false m [a; b] None
    = Ok (pwc_mul ROps (isi_profile_bi ROps eps cy false m a b) (1 / 1)).
  Proof.
    intros. unfold isi_profile_multi. rewrite profile_multi_two. reflexivity.
  Qed.

  Theorem isi_profile_two_list : forall cy m a b,
    isi_profile_multi ROps eps cy false m [a; b] None = Ok (isi_profile_bi ROps eps cy false m a b).
  Proof. intros. rewrite isi_profile_two_list_mul, pwc_mul_one. reflexivity. Qed.

  Theorem spike_profile_two_list_mul : forall cy m ri a b,
    spike_profile_multi ROps eps cy false m ri [a; b] None
    = Ok (pwl_mul ROps (spike_profile_bi ROps eps cy false m ri a b) (1 / 1)).
  Proof.
    intros. unfold spike_profile_multi. rewrite profile_multi_two. reflexivity.
  Qed.

  Theorem spike_profile_two_list : forall cy m ri a b,
    spike_profile_multi ROps eps cy false m ri [a; b] None
    = Ok (spike_profile_bi ROps eps cy false m ri a b).
  Proof. intros. rewrite spike_profile_two_list_mul, pwl_mul_one. reflexivity. Qed.

  Theorem sync_profile_two_list : forall cy mt m a b,
    spike_sync_profile_multi ROps eps cy false mt m [a; b] None
    = Ok (spike_sync_profile_bi ROps eps cy false mt m a b).
  Proof.
    intros. unfold spike_sync_profile_multi. rewrite profile_multi_two. reflexivity.
  Qed.

  Theorem order_profile_two_list : forall cy mt m a b,
    order_profile_multi ROps eps cy false mt m [a; b] None
    = order_profile_bi ROps eps cy false mt m a b.
  Proof.
    intros. unfold order_profile_multi. rewrite profile_multi_two.
    destruct (order_profile_bi ROps eps cy false mt m a b); reflexivity.
  Qed.

  (* ================================================================ *)
  (* 4. the same identities with rc = true on both sides               *)

  Theorem isi_distance_two_list_rc : forall cy m iv a b,
    isi_distance_multi ROps eps cy true m iv [a; b] None = isi_distance_bi ROps eps cy true m iv a b.
  Proof.
    intros cy m iv a b. rewrite bi_reconciles_once_isi_distance_bi.
    rewrite <- isi_distance_two_list. unfold isi_distance_multi, distance_multi_gen. cbv zeta.
    rewrite reconcile_two. reflexivity.
  Qed.

  Theorem spike_distance_two_list_rc : forall cy m ri iv a b,
    spike_distance_multi ROps eps cy true m ri iv [a; b] None
    = spike_distance_bi ROps eps cy true m ri iv a b.
  Proof.
    intros cy m ri iv a b. rewrite bi_reconciles_once_spike_distance_bi.
    rewrite <- spike_distance_two_list. unfold spike_distance_multi, distance_multi_gen. cbv zeta.
    rewrite reconcile_two. reflexivity.
  Qed.

  Theorem sync_two_list_rc : forall cy mt m iv a b,
    spike_sync_multi ROps eps cy true mt m iv [a; b] None = spike_sync_bi ROps eps cy true mt m iv a b.
  Proof.
    intros cy mt m iv a b. rewrite bi_reconciles_once_spike_sync_bi.
    rewrite <- sync_two_list. unfold spike_sync_multi. cbv zeta.
    rewrite reconcile_two. reflexivity.
  Qed.

  Theorem order_two_list_rc : forall cy nrm mt m a b,
    spike_train_order_multi ROps eps cy true nrm mt m [a; b] None
    = spike_train_order_bi ROps eps cy true nrm mt m a b.
  Proof.
    intros cy nrm mt m a b. rewrite bi_reconciles_once_spike_train_order_bi.
    rewrite <- order_two_list. unfold spike_train_order_multi. cbv zeta.
    rewrite reconcile_two. reflexivity.
  Qed.

  Lemma profile_multi_rc : forall (P : Type) (padd : P -> P -> res P)
      (bi : trainR -> trainR -> res P) l idx,
    profile_multi_gen ROps eps padd bi true l idx
    = profile_multi_gen ROps eps padd bi false (reconcile ROps eps l) idx.
  Proof. reflexivity. Qed.

  Theorem isi_profile_two_list_rc : forall cy m a b,
    isi_profile_multi ROps eps cy true m [a; b] None = Ok (isi_profile_bi ROps eps cy true m a b).
  Proof.
    intros cy m a b. rewrite bi_reconciles_once_isi_profile_bi, <- isi_profile_two_list.
    unfold isi_profile_multi. rewrite profile_multi_rc, reconcile_two. reflexivity.
  Qed.

  Theorem spike_profile_two_list_rc : forall cy m ri a b,
    spike_profile_multi ROps eps cy true m ri [a; b] None
    = Ok (spike_profile_bi ROps eps cy true m ri a b).
  Proof.
    intros cy m ri a b. rewrite bi_reconciles_once_spike_profile_bi, <- spike_profile_two_list.
    unfold spike_profile_multi. rewrite profile_multi_rc, reconcile_two. reflexivity.
  Qed.

  Theorem sync_profile_two_list_rc : forall cy mt m a b,
    spike_sync_profile_multi ROps eps cy true mt m [a; b] None
    = Ok (spike_sync_profile_bi ROps eps cy true mt m a b).
  Proof.
    intros cy mt m a b. rewrite bi_reconciles_once_spike_sync_profile_bi, <- sync_profile_two_list.
    unfold spike_sync_profile_multi. rewrite profile_multi_rc, reconcile_two. reflexivity.
  Qed.

  Theorem order_profile_two_list_rc : forall cy mt m a b,
    order_profile_multi ROps eps cy true mt m [a; b] None
    = order_profile_bi ROps eps cy true mt m a b.
  Proof.
    intros cy mt m a b. rewrite bi_reconciles_once_order_profile_bi, <- order_profile_two_list.
    unfold order_profile_multi. rewrite profile_multi_rc, reconcile_two. reflexivity.
  Qed.
End TwoList.

Print Assumptions pwl_avrg_many.
Print Assumptions isi_distance_two_list.
Print Assumptions sync_two_list.
Print Assumptions bi_reconciles_once_isi_distance_bi.
Print Assumptions bi_messy_spike_sync_bi.
