(* Lem_Spike.v — the SPIKE-profile kernel (three-way merge scan carrying, per
   train, the surrounding spikes, their nearest-spike distances to the other
   train and the running ISI) computes the declarative profile [spike_spec]. *)
From Coq Require Import List Bool Arith ZArith Reals Lra Lia Sorted Permutation.
Import ListNotations.
From PS Require Import Num RLemmas Valid ModelKernels ModelFuncs ModelAPI Spec SyncDefs.
From PS Require Import Lem_MinDist Lem_Isi.
Local Open Scope R_scope.

Local Notation sstR := (@sst R).

(* ------------------------------------------------------------------ *)
(* A. the cython variant differs only in how the auxiliary spikes are
      written down                                                      *)

Theorem spike_profile_cy_eq : forall t1 t2 ts te m ri,
  spike_profile_cy ROps t1 t2 ts te m ri = spike_profile_py ROps t1 t2 ts te m ri.
Proof.
  intros. unfold spike_profile_cy, spike_profile_py, spike_profile_gen.
  rewrite !t_aux_cy_eq. reflexivity.
Qed.

(* ------------------------------------------------------------------ *)
(* 0. one step of the scan in closed form                               *)

(* linear interpolation of the stored distances of one train at time t *)
Definition val (a : sstR) (t : R) : R :=
  (s_dtp a * (s_tf a - t) + s_dtf a * (t - s_tp a)) / s_isi a.
(* value of the advancing train at its own following spike *)
Definition send (a : sstR) : R := s_dtf a * (s_tf a - s_tp a) / s_isi a.

Definition new_tf (auxA : R * R) (fA' : list R) : R :=
  match fA' with y :: _ => y | [] => snd auxA end.
Definition new_dtf (auxB : R * R) (a b : sstR) (fA' : list R) : R :=
  match fA' with
  | y :: _ => get_min_dist ROps y (from_cursor (s_past b) (s_fut b)) (fst auxB) (snd auxB)
  | [] => s_dtf a
  end.
Definition new_isi (te : R) (a : sstR) (x : R) (fA' : list R) : R :=
  match fA' with
  | y :: _ => y - s_tf a
  | [] => end_isi ROps te x (s_past a)
  end.
Definition new_self (te : R) (auxA auxB : R * R) (a b : sstR) : sstR :=
  match s_fut a with
  | [] => a
  | x :: fA' =>
      mkSst (x :: s_past a) fA' (s_tf a) (new_tf auxA fA') (s_dtf a)
            (new_dtf auxB a b fA') (new_isi te a x fA') (s_dtf a)
  end.
Definition new_other (a b : sstR) : sstR :=
  mkSst (s_past b) (s_fut b) (s_tp b) (s_tf b) (s_dtp b) (s_dtf b) (s_isi b) (val b (s_tf a)).

Lemma spike_adv_eq : forall te m ri auxA auxB (a b : sstR) swap x fA',
  s_fut a = x :: fA' ->
  spike_adv ROps te m ri auxA auxB a b swap =
  (s_tf a,
   (if swap then dist_at_t ROps (s_isi b) (s_isi a) (val b (s_tf a)) (send a) m ri
    else dist_at_t ROps (s_isi a) (s_isi b) (send a) (val b (s_tf a)) m ri),
   (if swap then dist_at_t ROps (s_isi b) (new_isi te a x fA') (val b (s_tf a)) (s_dtf a) m ri
    else dist_at_t ROps (new_isi te a x fA') (s_isi b) (s_dtf a) (val b (s_tf a)) m ri),
   new_self te auxA auxB a b, new_other a b).
Proof.
  intros te m ri auxA auxB a b swap x fA' E.
  unfold spike_adv, new_self, new_other, new_isi, new_dtf, new_tf, val, send. rewrite E.
  destruct fA' as [|y fA'']; reflexivity.
Qed.
Arguments spike_adv_eq te m ri auxA auxB a b swap [x fA'] _.

(* ------------------------------------------------------------------ *)
(* B. event times of the loop are the sorted distinct union of the futures *)

Definition tf_ok (a : sstR) : Prop :=
  match s_fut a with y :: _ => s_tf a = y | [] => True end.

Lemma tf_ok_new_self : forall te auxA auxB a b, tf_ok (new_self te auxA auxB a b).
Proof.
  intros. unfold new_self, tf_ok. destruct (s_fut a) as [|x fA'] eqn:E.
  - rewrite E. exact I.
  - cbn [s_fut s_tf]. unfold new_tf. destruct fA'; auto.
Qed.

Lemma tf_ok_new_other : forall a b, tf_ok b -> tf_ok (new_other a b).
Proof. intros a b H. exact H. Qed.

Lemma tf_ok_both : forall te auxA auxB a pB fB, tf_ok (spike_both_one ROps te auxA auxB a pB fB).
Proof.
  intros. unfold spike_both_one, tf_ok. destruct (s_fut a) as [|x fA'] eqn:E.
  - rewrite E. exact I.
  - destruct fA' as [|y fA'']; cbn [s_fut s_tf]; auto.
Qed.

Lemma fut_new_self : forall te auxA auxB a b x fA', s_fut a = x :: fA' ->
  s_fut (new_self te auxA auxB a b) = fA'.
Proof. intros. unfold new_self. rewrite H. reflexivity. Qed.
Arguments fut_new_self te auxA auxB a b [x fA'] _.

Lemma fut_both : forall te auxA auxB a pB fB x fA', s_fut a = x :: fA' ->
  s_fut (spike_both_one ROps te auxA auxB a pB fB) = fA'.
Proof. intros. unfold spike_both_one. rewrite H. destruct fA'; reflexivity. Qed.
Arguments fut_both te auxA auxB a pB fB [x fA'] _.

Lemma spike_loop_events : forall fuel te m ri aux1 aux2 (a b : sstR),
  tf_ok a -> tf_ok b ->
  map (@ev_t R) (spike_loop ROps fuel te m ri aux1 aux2 a b) = mrg fuel (s_fut a) (s_fut b).
Proof.
  induction fuel as [|k IH]; intros te m ri aux1 aux2 a b Ta Tb; cbn [spike_loop mrg]; auto.
  destruct (s_fut a) as [|x fa'] eqn:Ea, (s_fut b) as [|y fb'] eqn:Eb; auto.
  - rewrite (spike_adv_eq te m ri aux2 aux1 b a true Eb). cbn [map ev_t fst].
    rewrite IH; [|apply tf_ok_new_other; auto|apply tf_ok_new_self].
    rewrite (fut_new_self _ _ _ _ _ Eb). cbn [new_other s_fut]. rewrite Ea.
    unfold tf_ok in Tb. rewrite Eb in Tb. rewrite Tb. reflexivity.
  - rewrite (spike_adv_eq te m ri aux1 aux2 a b false Ea). cbn [map ev_t fst].
    rewrite IH; [|apply tf_ok_new_self|apply tf_ok_new_other; auto].
    rewrite (fut_new_self _ _ _ _ _ Ea). cbn [new_other s_fut]. rewrite Eb.
    unfold tf_ok in Ta. rewrite Ea in Ta. rewrite Ta. reflexivity.
  - pose proof Ta as Ta'. pose proof Tb as Tb'. unfold tf_ok in Ta', Tb'.
    rewrite Ea in Ta'. rewrite Eb in Tb'. rewrite Ta', Tb'. cbn [nltb ROps].
    destruct (Rltb x y); [|destruct (Rltb y x)].
    + rewrite (spike_adv_eq te m ri aux1 aux2 a b false Ea). cbn [map ev_t fst].
      rewrite IH; [|apply tf_ok_new_self|apply tf_ok_new_other; auto].
      rewrite (fut_new_self _ _ _ _ _ Ea). cbn [new_other s_fut]. rewrite Eb, Ta'. reflexivity.
    + rewrite (spike_adv_eq te m ri aux2 aux1 b a true Eb). cbn [map ev_t fst].
      rewrite IH; [|apply tf_ok_new_other; auto|apply tf_ok_new_self].
      rewrite (fut_new_self _ _ _ _ _ Eb). cbn [new_other s_fut]. rewrite Ea, Tb'. reflexivity.
    + cbn [map ev_t fst]. rewrite IH; [|apply tf_ok_both|apply tf_ok_both].
      rewrite (fut_both _ _ _ _ _ _ Ea), (fut_both _ _ _ _ _ _ Eb). reflexivity.
Qed.

(* ------------------------------------------------------------------ *)
(* C. symmetry in the two trains (no hypothesis on the inputs is needed) *)

Lemma spike_loop_sym : forall fuel te m ri aux1 aux2 (a b : sstR),
  spike_loop ROps fuel te m ri aux2 aux1 b a = spike_loop ROps fuel te m ri aux1 aux2 a b.
Proof.
  induction fuel as [|k IH]; intros te m ri aux1 aux2 a b; cbn [spike_loop]; auto.
  destruct (s_fut a) as [|x fa'] eqn:Ea, (s_fut b) as [|y fb'] eqn:Eb; auto.
  - rewrite (spike_adv_eq te m ri aux2 aux1 b a true Eb), (spike_adv_eq te m ri aux2 aux1 b a false Eb).
    rewrite IH. f_equal. f_equal; [f_equal|]; apply dist_at_t_sym.
  - rewrite (spike_adv_eq te m ri aux1 aux2 a b true Ea), (spike_adv_eq te m ri aux1 aux2 a b false Ea).
    rewrite IH. f_equal. f_equal; [f_equal|]; apply dist_at_t_sym.
  - cbn [nltb ROps].
    destruct (Rltb_spec (s_tf a) (s_tf b)) as [H1|H1], (Rltb_spec (s_tf b) (s_tf a)) as [H2|H2]; try lra.
    + rewrite (spike_adv_eq te m ri aux1 aux2 a b true Ea), (spike_adv_eq te m ri aux1 aux2 a b false Ea).
      rewrite IH. f_equal. f_equal; [f_equal|]; apply dist_at_t_sym.
    + rewrite (spike_adv_eq te m ri aux2 aux1 b a true Eb), (spike_adv_eq te m ri aux2 aux1 b a false Eb).
      rewrite IH. f_equal. f_equal; [f_equal|]; apply dist_at_t_sym.
    + rewrite IH. f_equal. f_equal. f_equal. lra.
Qed.

Lemma spike_final_sym : forall fuel te m ri aux1 aux2 (a b : sstR),
  spike_final ROps fuel te m ri aux2 aux1 b a =
  (snd (spike_final ROps fuel te m ri aux1 aux2 a b), fst (spike_final ROps fuel te m ri aux1 aux2 a b)).
Proof.
  induction fuel as [|k IH]; intros te m ri aux1 aux2 a b; cbn [spike_final]; auto.
  destruct (s_fut a) as [|x fa'] eqn:Ea, (s_fut b) as [|y fb'] eqn:Eb; auto.
  - rewrite (spike_adv_eq te m ri aux2 aux1 b a true Eb), (spike_adv_eq te m ri aux2 aux1 b a false Eb).
    apply IH.
  - rewrite (spike_adv_eq te m ri aux1 aux2 a b true Ea), (spike_adv_eq te m ri aux1 aux2 a b false Ea).
    apply IH.
  - cbn [nltb ROps].
    destruct (Rltb_spec (s_tf a) (s_tf b)) as [H1|H1], (Rltb_spec (s_tf b) (s_tf a)) as [H2|H2]; try lra.
    + rewrite (spike_adv_eq te m ri aux1 aux2 a b true Ea), (spike_adv_eq te m ri aux1 aux2 a b false Ea).
      apply IH.
    + rewrite (spike_adv_eq te m ri aux2 aux1 b a true Eb), (spike_adv_eq te m ri aux2 aux1 b a false Eb).
      apply IH.
    + apply IH.
Qed.

Theorem spike_profile_sym : forall t1 t2 ts te m ri,
  spike_profile_py ROps t2 t1 ts te m ri = spike_profile_py ROps t1 t2 ts te m ri.
Proof.
  intros. unfold spike_profile_py, spike_profile_gen.
  rewrite (Nat.add_comm (length t2) (length t1)).
  rewrite spike_loop_sym, spike_final_sym.
  destruct (spike_final ROps (length t1 + length t2) te m ri (t_aux_py ROps ts te t1)
              (t_aux_py ROps ts te t2) (spike_init ROps ts te t1 t2 (t_aux_py ROps ts te t1) (t_aux_py ROps ts te t2))
              (spike_init ROps ts te t2 t1 (t_aux_py ROps ts te t2) (t_aux_py ROps ts te t1))) as [af bf].
  cbn [fst snd].
  rewrite (dist_at_t_sym (s_isi bf)). 
  rewrite (dist_at_t_sym (s_isi (spike_init ROps ts te t2 t1 (t_aux_py ROps ts te t2) (t_aux_py ROps ts te t1)))).
  reflexivity.
Qed.

(* ------------------------------------------------------------------ *)
(* 1. auxiliary spikes and edge ISIs                                    *)

Lemma rev_two : forall (x0 x1 : R) r, exists a b l, rev (x0 :: x1 :: r) = a :: b :: l.
Proof.
  intros. destruct (rev (x0 :: x1 :: r)) as [|a [|b l]] eqn:E;
    apply (f_equal (@length R)) in E; rewrite rev_length in E; cbn [length] in E; try lia; eauto.
Qed.

Lemma aux_fst_isi : forall ts te y f',
  fst (aux_of ROps ts te (y :: f')) =
  y - match f' with y2 :: _ => Rmax (y - ts) (y2 - y) | [] => y - ts end.
Proof.
  intros ts te y [|y2 r]; [cbn [aux_of fst]; lra|].
  destruct (rev_two y y2 r) as (a & b & l & E). unfold aux_of. rewrite E. cbn [fst]. rops.
  rmm; lra.
Qed.

Lemma aux_snd_isi : forall ts te u x past, rev u = x :: past ->
  snd (aux_of ROps ts te u) =
  x + match past with p0 :: _ => Rmax (te - x) (x - p0) | [] => te - x end.
Proof.
  intros ts te u x past E. destruct u as [|x0 [|x1 r]].
  - discriminate.
  - cbn in E. injection E as <- <-. cbn [aux_of snd]. lra.
  - unfold aux_of. rewrite E. destruct past as [|p0 past'].
    + apply (f_equal (@length R)) in E. rewrite rev_length in E. cbn [length] in E. lia.
    + cbn [snd]. rops. rmm; lra.
Qed.

Lemma nu_after_pos : forall te x past f', x < te -> Forall (fun z => x < z) f' ->
  (forall p0, In p0 past -> p0 < x) -> 0 < nu_after ROps te (x :: past) f'.
Proof.
  intros te x past f' H F P. unfold nu_after. destruct f' as [|y f''].
  - destruct past as [|p0 past']; rops; [lra|]. apply Rlt_le_trans with (te - x); [lra|apply Rmax_l].
  - inversion F; subst. rops. destruct past; lra.
Qed.

(* ------------------------------------------------------------------ *)
(* 2. the per-train invariant                                           *)

Section Train.
  Variables ts te : R.
  Variables u w : list R.
  Hypothesis Vu : valid ts te u.
  Hypothesis Vw : valid ts te w.
  Hypothesis Nu : u <> [].
  Let auxu := aux_of ROps ts te u.
  Let auxw := aux_of ROps ts te w.

  Definition sinv (c : R) (a : sstR) : Prop :=
    tinv ts te u c (s_past a) (s_fut a) (s_isi a) /\
    s_tp a = match s_past a with x :: _ => x | [] => fst auxu end /\
    s_tf a = match s_fut a with y :: _ => y | [] => snd auxu end /\
    s_dtp a = nearest ROps auxw w (match s_past a with x :: _ => x | [] => s_tf a end) /\
    s_dtf a = nearest ROps auxw w (match s_fut a with y :: _ => y | [] => s_tp a end) /\
    s_isi a = s_tf a - s_tp a /\ (c < te -> 0 < s_isi a).

  Lemma gmd_all : forall x, get_min_dist ROps x w (fst auxw) (snd auxw) = nearest ROps auxw w x.
  Proof.
    intros x. transitivity (nearest ROps (fst auxw, snd auxw) w x);
      [|rewrite <- surjective_pairing; reflexivity].
    destruct (aux_bounds ts te w Vw) as (H0 & H1 & HF). destruct Vw as (Hlt & Sw & _).
    apply get_min_dist_nearest; auto. unfold auxw. lra.
  Qed.

  Lemma gmd_cursor : forall pb fb c y, w = rev pb ++ fb -> lo pb c -> c <= y ->
    get_min_dist ROps y (from_cursor pb fb) (fst auxw) (snd auxw) = nearest ROps auxw w y.
  Proof.
    intros pb fb c y E L Hy. transitivity (nearest ROps (fst auxw, snd auxw) w y);
      [|rewrite <- surjective_pairing; reflexivity].
    destruct (aux_bounds ts te w Vw) as (H0 & H1 & HF). destruct Vw as (Hlt & Sw & _).
    fold auxw in H0, H1, HF. rewrite E in HF, Sw.
    replace (nearest ROps (fst auxw, snd auxw) w y)
      with (nearest ROps (fst auxw, snd auxw) (rev pb ++ fb) y) by (rewrite <- E; reflexivity).
    apply get_min_dist_from_cursor; auto.
    - lra.
    - intros p Hp. destruct pb as [|p' pb']; cbn in Hp; [discriminate|]. injection Hp as ->.
      cbn [lo] in L. lra.
  Qed.

  Lemma sinv_mk : forall c past x fA' nu tfA dtp dtf isi s,
    tinv ts te u c past (x :: fA') nu ->
    tfA = match fA' with y :: _ => y | [] => snd auxu end ->
    dtp = nearest ROps auxw w x ->
    dtf = nearest ROps auxw w (match fA' with y :: _ => y | [] => x end) ->
    isi = nu_after ROps te (x :: past) fA' ->
    sinv x (mkSst (x :: past) fA' x tfA dtp dtf isi s).
  Proof.
    intros c past x fA' nu tfA dtp dtf isi s T Htf Hdtp Hdtf Hisi.
    pose proof (tinv_adv T) as T'. rewrite <- Hisi in T'.
    unfold sinv. cbn [s_past s_fut s_tp s_tf s_dtp s_dtf s_isi].
    split; [exact T'|]. split; [reflexivity|]. split; [exact Htf|]. split; [exact Hdtp|].
    split; [exact Hdtf|].
    destruct T' as (E & S & Ff & L & N).
    split.
    - rewrite Hisi, Htf. unfold nu_after. destruct fA' as [|y fA'']; [|destruct past; reflexivity].
      assert (Ru : rev u = x :: past).
      { rewrite E, app_nil_r. apply rev_involutive. }
      unfold auxu. rewrite (aux_snd_isi ts te u x past Ru). destruct past; rops; lra.
    - intros Hx. rewrite Hisi. apply nu_after_pos; auto.
      + eapply Forall_impl; [|apply Ff]. cbn; intros; lra.
      + intros p0 Hp0. rewrite E in S. cbn [rev] in S. rewrite <- app_assoc in S. cbn [app] in S.
        apply ssorted_mid in S as (_ & _ & H & _). apply H. apply in_rev in Hp0. exact Hp0.
  Qed.

  (* the invariant does not read the cached value s_s and is stable when the
     clock moves on without passing a spike of the train *)
  Lemma sinv_keep : forall c a x s, sinv c a -> c <= x -> hi (s_fut a) x ->
    sinv x (mkSst (s_past a) (s_fut a) (s_tp a) (s_tf a) (s_dtp a) (s_dtf a) (s_isi a) s).
  Proof.
    intros c a x s (T & H1 & H2 & H3 & H4 & H5 & H6) Hc Hh.
    unfold sinv. cbn [s_past s_fut s_tp s_tf s_dtp s_dtf s_isi].
    split; [apply (tinv_keep (a:=x) T); auto|].
    do 5 (split; [assumption|]). intros; apply H6; lra.
  Qed.

  Lemma sinv_dt_end : forall c a, sinv c a -> s_fut a = [] -> s_dtp a = s_dtf a.
  Proof.
    intros c a (T & H1 & H2 & H3 & H4 & H5 & H6) E. rewrite H3, H4, E.
    destruct (s_past a) as [|x p] eqn:Ep; [|rewrite H1; reflexivity].
    exfalso. apply Nu. destruct T as (Eu & _). rewrite Eu, E. reflexivity.
  Qed.

  Lemma sinv_dt_start : forall c a, sinv c a -> s_past a = [] -> s_dtp a = s_dtf a.
  Proof.
    intros c a (T & H1 & H2 & H3 & H4 & H5 & H6) E. rewrite H3, H4, E.
    destruct (s_fut a) as [|y f] eqn:Ef; [|rewrite H2; reflexivity].
    exfalso. apply Nu. destruct T as (Eu & _). rewrite Eu, E. reflexivity.
  Qed.

  Lemma val_const : forall c a t, sinv c a -> c < te -> s_dtp a = s_dtf a -> val a t = s_dtf a.
  Proof.
    intros c a t (T & H1 & H2 & H3 & H4 & H5 & H6) Hc E. specialize (H6 Hc).
    unfold val. rewrite E, H5 in *. field. lra.
  Qed.

  Lemma val_at_tp : forall c a, sinv c a -> c < te -> val a (s_tp a) = s_dtp a.
  Proof.
    intros c a (T & H1 & H2 & H3 & H4 & H5 & H6) Hc. specialize (H6 Hc).
    unfold val. rewrite H5 in *. field. lra.
  Qed.

  Lemma val_at_tf : forall a, val a (s_tf a) = send a.
  Proof. intros a. unfold val, send, Rdiv. ring. Qed.

  Lemma val_at_tf' : forall c a, sinv c a -> c < te -> val a (s_tf a) = s_dtf a.
  Proof.
    intros c a (T & H1 & H2 & H3 & H4 & H5 & H6) Hc. specialize (H6 Hc).
    unfold val. rewrite H5 in *. field. lra.
  Qed.

  (* the declarative contribution of the train on the current piece *)
  Lemma contrib_cursor : forall c a tm t, sinv c a -> c < te -> c < tm -> hi (s_fut a) tm ->
    contrib ROps ts te u w tm t = (val a t, s_isi a).
  Proof.
    intros c a tm t Hs Hc Hm Hh.
    pose proof Hs as (T & H1 & H2 & H3 & H4 & H5 & H6). specialize (H6 Hc).
    unfold contrib. fold auxw. rewrite (tinv_val T) by auto.
    destruct T as (E & S & Ff & L & N).
    assert (L' : lo (s_past a) tm) by (destruct (s_past a); cbn [lo] in *; auto; lra).
    assert (P : Forall (fun x => x <= tm) (s_past a)).
    { rewrite E in S. eapply past_le; eauto. }
    assert (Hp : prev_of ROps tm u None = match s_past a with x :: _ => Some x | [] => None end).
    { rewrite E, prev_rev, prev_hi by auto. reflexivity. }
    assert (Hn : next_of ROps tm u = match s_fut a with y :: _ => Some y | [] => None end).
    { rewrite E, next_rev, next_hi by auto. reflexivity. }
    rewrite Hp, Hn.
    destruct (s_past a) as [|x p] eqn:Ep, (s_fut a) as [|y f] eqn:Ef.
    - exfalso. apply Nu. rewrite E. reflexivity.
    - f_equal. rewrite <- H4. symmetry. apply (val_const c a t Hs Hc). apply (sinv_dt_start c a Hs Ep).
    - f_equal. rewrite <- H3. rewrite (val_const c a t Hs Hc); apply (sinv_dt_end c a Hs Ef).
    - f_equal. unfold val. rewrite <- H3, <- H4. rewrite H5 in *. rewrite H1, H2 in *.
      cbn [nadd nsub nmul ndiv ROps]. reflexivity.
  Qed.
  Lemma new_self_unfold : forall auxA auxB (a b : sstR) x fA', s_fut a = x :: fA' ->
    new_self te auxA auxB a b =
    mkSst (x :: s_past a) fA' (s_tf a) (new_tf auxA fA') (s_dtf a)
          (new_dtf auxB a b fA') (new_isi te a x fA') (s_dtf a).
  Proof. intros. unfold new_self. rewrite H. reflexivity. Qed.

  Lemma sinv_tf_hd : forall c a x fA', sinv c a -> s_fut a = x :: fA' -> s_tf a = x /\ c < x <= te.
  Proof.
    intros c a x fA' (T & H1 & H2 & H3 & H4 & H5 & H6) E. rewrite E in *. split; auto.
    apply (tinv_hd T).
  Qed.

  Lemma sinv_fut_sorted : forall c a x y fA', sinv c a -> s_fut a = x :: y :: fA' -> x < y.
  Proof.
    intros c a x y fA' (T & _) E. rewrite E in T. destruct T as (Eu & S & _).
    rewrite Eu in S. apply ssorted_app_inv in S as (_ & S & _).
    apply ssorted_cons_inv in S as [_ F]. inversion F; auto.
  Qed.

  (* advancing over the next spike re-establishes the invariant *)
  Lemma sinv_new_self : forall c a b x fA', sinv c a -> s_fut a = x :: fA' ->
    w = rev (s_past b) ++ s_fut b -> lo (s_past b) c ->
    sinv x (new_self te auxu auxw a b).
  Proof.
    intros c a b x fA' Hs E Ew Lb.
    destruct (sinv_tf_hd c a _ _ Hs E) as [Htf [Hcx Hxe]].
    rewrite (new_self_unfold auxu auxw a b _ _ E).
    pose proof Hs as (T & H1 & H2 & H3 & H4 & H5 & H6). rewrite E in T, H4.
    rewrite Htf at 1.
    eapply sinv_mk; [exact T| | | |].
    - reflexivity.
    - exact H4.
    - unfold new_dtf. destruct fA' as [|y fA'']; [exact H4|].
      apply (gmd_cursor _ _ c y Ew Lb). pose proof (sinv_fut_sorted c a _ _ _ Hs E). lra.
    - unfold new_isi, nu_after. rewrite Htf. destruct fA' as [|y fA''].
      + destruct (s_past a); reflexivity.
      + destruct (s_past a); reflexivity.
  Qed.

  (* simultaneous spike *)
  Lemma sinv_both : forall c a x fA' pB fB, sinv c a -> s_fut a = x :: fA' -> In x w ->
    w = rev pB ++ fB -> lo pB x ->
    sinv x (spike_both_one ROps te auxu auxw a pB fB).
  Proof.
    intros c a x fA' pB fB Hs E Hin Ew Lb.
    destruct (sinv_tf_hd c a _ _ Hs E) as [Htf [Hcx Hxe]].
    pose proof Hs as (T & H1 & H2 & H3 & H4 & H5 & H6). rewrite E in T, H4.
    assert (Z : nearest ROps auxw w x = 0) by (apply nearest_zero_at_spike; exact Hin).
    unfold spike_both_one. rewrite E. destruct fA' as [|y fA''].
    - rewrite Htf. eapply sinv_mk; [exact T|reflexivity|cbn [n0 ROps]; auto..|].
      cbn [n0 ROps]. destruct (s_past a); reflexivity.
    - rewrite Htf. eapply sinv_mk; [exact T|reflexivity|cbn [n0 ROps]; auto| |].
      + apply (gmd_cursor _ _ x y Ew Lb). pose proof (sinv_fut_sorted c a _ _ _ Hs E). lra.
      + cbn [nsub ROps nu_after]. destruct (s_past a); reflexivity.
  Qed.

  (* the start state *)
  Lemma sinv_init : let a0 := spike_init ROps ts te u w auxu auxw in
    sinv ts a0 /\ tf_ok a0 /\ (forall x, In x (s_fut a0) <-> In x u /\ ts < x) /\
    (length (s_fut a0) <= length u)%nat /\ ssorted (s_fut a0) /\ val a0 ts = s_s a0.
  Proof.
    cbv zeta.
    assert (Hu : exists x0 r, u = x0 :: r).
    { case_eq u; [intros E0; congruence|intros x0 r E0; eauto]. }
    destruct Hu as (x0 & r & Eu).
    pose proof Vu as (Hte & S & B). rewrite Eu in S, B.
    pose proof (ssorted_cons_inv _ _ S) as [Sr Fr].
    inversion B as [|? ? B0 Br]; subst x l.
    assert (Io : forall p f nu, isi_init ROps ts te (x0 :: r) = (p, f, nu) ->
                 tinv ts te u ts p f nu /\ (forall x, In x f <-> In x u /\ ts < x) /\
                 (length f <= length u)%nat /\ ssorted f).
    { intros p f nu. rewrite <- Eu. apply init_ok; auto. }
    replace (spike_init ROps ts te u w auxu auxw) with (spike_init ROps ts te (x0 :: r) w auxu auxw)
      by (rewrite Eu; reflexivity).
    unfold isi_init in Io. unfold spike_init.
    cbn [nltb neqb ROps] in *.
    destruct (Rltb_spec ts x0) as [H|H].
    - (* first spike after t_start *)
      destruct (Reqb_spec x0 ts) as [Hq|Hq]; [lra|].
      destruct (Io _ _ _ eq_refl) as (T & M & Ln & Sf). cbv zeta.
      assert (Hisi : match r with
                     | [] => nsub ROps x0 ts
                     | x1 :: _ => nmax ROps (nsub ROps x0 ts) (nsub ROps x1 x0)
                     end = x0 - fst auxu).
      { unfold auxu. rewrite Eu, aux_fst_isi. destruct r; rops; lra. }
      assert (Hpos : 0 < x0 - fst auxu).
      { destruct (aux_bounds ts te u Vu) as (Ha & _). fold auxu in Ha. lra. }
      assert (Si : sinv ts (mkSst [] (x0 :: r) (fst auxu) x0
                    (get_min_dist ROps x0 w (fst auxw) (snd auxw))
                    (get_min_dist ROps x0 w (fst auxw) (snd auxw))
                    match r with
                    | [] => nsub ROps x0 ts
                    | x1 :: _ => nmax ROps (nsub ROps x0 ts) (nsub ROps x1 x0)
                    end (get_min_dist ROps x0 w (fst auxw) (snd auxw)))).
      { unfold sinv. cbn [s_past s_fut s_tp s_tf s_dtp s_dtf s_isi].
        split; [exact T|]. split; [reflexivity|]. split; [reflexivity|].
        split; [apply gmd_all|]. split; [apply gmd_all|]. split; [exact Hisi|].
        intros _. rewrite Hisi. exact Hpos. }
      split; [exact Si|]. split; [reflexivity|]. split; [exact M|]. split; [exact Ln|].
      split; [exact Sf|].
      cbn [s_s]. rewrite (val_const ts _ ts Si Hte); reflexivity.
    - (* first spike on t_start *)
      assert (x0 = ts) by lra. subst x0.
      destruct (Reqb_spec ts ts) as [_|Hq]; [|congruence].
      destruct (Io _ _ _ eq_refl) as (T & M & Ln & Sf). cbv zeta.
      set (tf := match r with [] => te | x1 :: _ => x1 end).
      set (dtp := get_min_dist ROps ts w (fst auxw) (snd auxw)).
      set (dtf := match r with [] => dtp | _ :: _ => get_min_dist ROps tf w (fst auxw) (snd auxw) end).
      assert (Htf : tf = match r with y :: _ => y | [] => snd auxu end).
      { unfold tf, auxu. rewrite Eu. destruct r; reflexivity. }
      assert (Hisi : match r with [] => nsub ROps te ts | x1 :: _ => nsub ROps x1 ts end = tf - ts).
      { unfold tf. destruct r; reflexivity. }
      assert (Hpos : 0 < tf - ts).
      { unfold tf. destruct r as [|x1 r']; [lra|]. inversion Fr; lra. }
      assert (Si : sinv ts (mkSst [ts] r ts tf dtp dtf (tf - ts) dtp)).
      { unfold sinv. cbn [s_past s_fut s_tp s_tf s_dtp s_dtf s_isi].
        split; [rewrite <- Hisi; exact T|]. split; [reflexivity|]. split; [exact Htf|].
        split; [apply gmd_all|]. split; [|split; [reflexivity|intros _; exact Hpos]].
        unfold dtf. destruct r; apply gmd_all. }
      split; [exact Si|]. split; [|split; [exact M|split; [exact Ln|split; [exact Sf|]]]].
      + unfold tf_ok. cbn [s_fut s_tf]. unfold tf. destruct r; auto.
      + cbn [s_s]. apply (val_at_tp ts _ Si Hte).
  Qed.
  Lemma val_zero_tf : forall c a x f, sinv c a -> c < te -> s_fut a = x :: f -> In x w ->
    val a x = 0.
  Proof.
    intros c a x f Hs Hc E Hin. destruct (sinv_tf_hd c a _ _ Hs E) as [Htf _].
    rewrite <- Htf. rewrite (val_at_tf' c a Hs Hc).
    destruct Hs as (T & H1 & H2 & H3 & H4 & H5 & H6). rewrite H4, E.
    apply nearest_zero_at_spike; exact Hin.
  Qed.

  Lemma val_zero_tp : forall c a x p, sinv c a -> c < te -> s_past a = x :: p -> In x w ->
    val a x = 0.
  Proof.
    intros c a x p Hs Hc E Hin. pose proof Hs as (T & H1 & H2 & H3 & H4 & H5 & H6).
    rewrite E in H1, H3. rewrite <- H1. rewrite (val_at_tp c a Hs Hc). rewrite H3.
    apply nearest_zero_at_spike; exact Hin.
  Qed.

  Lemma sinv_cursor : forall c a, sinv c a -> u = rev (s_past a) ++ s_fut a /\ lo (s_past a) c.
  Proof. intros c a ((E & S & F & L & N) & _). auto. Qed.
End Train.

(* ------------------------------------------------------------------ *)
(* 3. the merge loop                                                    *)

Lemma spike_loop_nil : forall k te m ri aux1 aux2 (a b : sstR), s_fut a = [] -> s_fut b = [] ->
  spike_loop ROps k te m ri aux1 aux2 a b = [].
Proof. intros k te m ri aux1 aux2 a b Ea Eb. destruct k; cbn [spike_loop]; [|rewrite Ea, Eb]; reflexivity. Qed.

Lemma spike_final_nil : forall k te m ri aux1 aux2 (a b : sstR), s_fut a = [] -> s_fut b = [] ->
  spike_final ROps k te m ri aux1 aux2 a b = (a, b).
Proof. intros k te m ri aux1 aux2 a b Ea Eb. destruct k; cbn [spike_final]; [|rewrite Ea, Eb]; reflexivity. Qed.

Section Loop.
  Variables ts te m : R.
  Variable ri : bool.
  Variables u1 u2 : list R.
  Hypothesis V1 : valid ts te u1.
  Hypothesis V2 : valid ts te u2.
  Hypothesis N1 : u1 <> [].
  Hypothesis N2 : u2 <> [].
  Let aux1 := aux_of ROps ts te u1.
  Let aux2 := aux_of ROps ts te u2.

  Definition Yat (a b : sstR) (t : R) : R :=
    dist_at_t ROps (s_isi a) (s_isi b) (val a t) (val b t) m ri.
  Definition ylast (a b : sstR) : R :=
    dist_at_t ROps (s_isi a) (s_isi b) (s_dtf a) (s_dtf b) m ri.
  Definition gv1 (pc : R * R) : R := spike_at ROps ts te m ri u1 u2 (mid ROps pc) (fst pc).
  Definition gv2 (pc : R * R) : R := spike_at ROps ts te m ri u1 u2 (mid ROps pc) (snd pc).

  Lemma gv_ok : forall c x a b t,
    sinv ts te u1 u2 c a -> sinv ts te u2 u1 c b -> c < x <= te ->
    (forall t, t < x -> hi (s_fut a) t) -> (forall t, t < x -> hi (s_fut b) t) ->
    spike_at ROps ts te m ri u1 u2 (mid ROps (c, x)) t = Yat a b t.
  Proof.
    intros c x a b t Ia Ib [Hcx Hxe] Ha Hb.
    pose proof (mid_between c x Hcx) as [M1 M2].
    rewrite spike_at_eq_dist_at_t.
    rewrite (contrib_cursor ts te u1 u2 N1 c a _ _ Ia); auto; try lra.
    rewrite (contrib_cursor ts te u2 u1 N2 c b _ _ Ib); auto; try lra.
  Qed.

  Definition close3 (xs y1s y2s : list R) (yl : R) : list R * list R * list R :=
    if neqb ROps (last xs te) te then (xs, removelast y1s, y2s)
    else (xs ++ [te], y1s, y2s ++ [yl]).

  Definition res3 (c : R) (E : list R) : list R * list R * list R :=
    (c :: tl_bs te c E, map gv1 (pieces (c :: tl_bs te c E)), map gv2 (pieces (c :: tl_bs te c E))).

  Lemma close3_nil : forall c a b v,
    sinv ts te u1 u2 c a -> sinv ts te u2 u1 c b -> s_fut a = [] -> s_fut b = [] -> c <= te ->
    (c < te -> v = Yat a b c) ->
    close3 [c] [v] [] (ylast a b) = res3 c [].
  Proof.
    intros c a b v Ia Ib Ea Eb Hc Hv. unfold close3, res3, tl_bs. cbn [last neqb ROps filter app].
    destruct (Reqb_spec c te) as [E|E].
    - subst. destruct (Rltb_spec te te); [lra|]. reflexivity.
    - destruct (Rltb_spec c te); [|lra]. cbn [pieces map app]. unfold gv1, gv2. cbn [fst snd].
      assert (Ha : forall t, t < te -> hi (s_fut a) t) by (intros; rewrite Ea; exact I).
      assert (Hb : forall t, t < te -> hi (s_fut b) t) by (intros; rewrite Eb; exact I).
      rewrite (gv_ok c te a b c), (gv_ok c te a b te); auto; try lra.
      rewrite Hv by lra. unfold Yat, ylast.
      rewrite (val_const ts te u1 u2 c a te Ia), (val_const ts te u2 u1 c b te Ib); auto; try lra.
      + apply (sinv_dt_end ts te u2 u1 N2 c b Ib Eb).
      + apply (sinv_dt_end ts te u1 u2 N1 c a Ia Ea).
  Qed.

  Lemma close3_step : forall c a v v' w E' Y1' Y2' yl,
    c < a -> a <= te -> (a = te -> E' = []) -> gv1 (c, a) = v -> gv2 (c, a) = w ->
    close3 (a :: E') (v' :: Y1') Y2' yl = res3 a E' ->
    close3 (c :: a :: E') (v :: v' :: Y1') (w :: Y2') yl = res3 c (a :: E').
  Proof.
    intros c a v v' w E' Y1' Y2' yl Hca Hate Hnil Hv Hw IH.
    assert (T : tl_bs te c (a :: E') = a :: tl_bs te a E').
    { unfold tl_bs. destruct (Rltb_spec c te); [|lra]. cbn [filter].
      destruct (Rltb_spec a te) as [H|H]; [reflexivity|].
      rewrite Hnil by lra. assert (a = te) as -> by lra. reflexivity. }
    unfold res3 in *. rewrite T. rewrite pieces_cons2. cbn [map]. rewrite Hv, Hw.
    unfold close3 in *.
    change (last (c :: a :: E') te) with (last (a :: E') te).
    change (removelast (v :: v' :: Y1')) with (v :: removelast (v' :: Y1')).
    destruct (neqb ROps (last (a :: E') te) te); cbn [app] in *; congruence.
  Qed.

  Definition y1of (e : R * R * R) : R := snd e.
  Definition y2of (e : R * R * R) : R := snd (fst e).

  Definition loop_goal (fuel : nat) (c : R) (a b : sstR) (v : R) : Prop :=
    let evs := spike_loop ROps fuel te m ri aux1 aux2 a b in
    let fin := spike_final ROps fuel te m ri aux1 aux2 a b in
    close3 (c :: map (@ev_t R) evs) (v :: map y1of evs) (map y2of evs) (ylast (fst fin) (snd fin)) =
    res3 c (map (@ev_t R) evs).

  Definition loop_hyp (k : nat) : Prop :=
    forall c a b v, sinv ts te u1 u2 c a -> sinv ts te u2 u1 c b -> c <= te ->
      (c < te -> v = Yat a b c) -> (length (s_fut a) + length (s_fut b) <= k)%nat ->
      loop_goal k c a b v.

  Lemma loop_step : forall k c x a b a' b' v ye ys,
    loop_hyp k ->
    sinv ts te u1 u2 c a -> sinv ts te u2 u1 c b ->
    sinv ts te u1 u2 x a' -> sinv ts te u2 u1 x b' ->
    c < x <= te -> (forall t, t < x -> hi (s_fut a) t) -> (forall t, t < x -> hi (s_fut b) t) ->
    v = Yat a b c -> ye = Yat a b x -> (x < te -> ys = Yat a' b' x) ->
    (length (s_fut a') + length (s_fut b') <= k)%nat ->
    let evs := spike_loop ROps k te m ri aux1 aux2 a' b' in
    let fin := spike_final ROps k te m ri aux1 aux2 a' b' in
    close3 (c :: x :: map (@ev_t R) evs) (v :: ys :: map y1of evs) (ye :: map y2of evs)
           (ylast (fst fin) (snd fin)) = res3 c (x :: map (@ev_t R) evs).
  Proof.
    intros k c x a b a' b' v ye ys IH Ia Ib Ia' Ib' [Hcx Hxe] Ha Hb Hv Hye Hys L evs fin.
    apply close3_step; auto.
    - intros ->. unfold evs. destruct Ia' as (Ta & _). destruct Ib' as (Tb & _).
      rewrite spike_loop_nil; auto; eapply tinv_te_nil; eauto.
    - unfold gv1. cbn [fst]. rewrite (gv_ok c x a b c); auto.
    - unfold gv2. cbn [snd]. rewrite (gv_ok c x a b x); auto.
    - apply (IH x a' b' ys); auto.
  Qed.
  Lemma hi_lt : forall f x t, hi f x -> t < x -> hi f t.
  Proof. intros [|y f] x t H Ht; cbn [hi] in *; auto; lra. Qed.

  Lemma past_both : forall auxA auxB (a : sstR) pB fB x fA', s_fut a = x :: fA' ->
    s_past (spike_both_one ROps te auxA auxB a pB fB) = x :: s_past a.
  Proof. intros. unfold spike_both_one. rewrite H. destruct fA'; reflexivity. Qed.

  (* train 1 advances *)
  Lemma step_go1 : forall k c a b v x fa',
    loop_hyp k -> sinv ts te u1 u2 c a -> sinv ts te u2 u1 c b -> v = Yat a b c ->
    s_fut a = x :: fa' -> hi (s_fut b) x ->
    (length fa' + length (s_fut b) <= k)%nat ->
    let a' := new_self te aux1 aux2 a b in
    let b' := new_other a b in
    let evs := spike_loop ROps k te m ri aux1 aux2 a' b' in
    let fin := spike_final ROps k te m ri aux1 aux2 a' b' in
    close3 (c :: s_tf a :: map (@ev_t R) evs)
      (v :: dist_at_t ROps (new_isi te a x fa') (s_isi b) (s_dtf a) (val b (s_tf a)) m ri :: map y1of evs)
      (dist_at_t ROps (s_isi a) (s_isi b) (send a) (val b (s_tf a)) m ri :: map y2of evs)
      (ylast (fst fin) (snd fin)) = res3 c (s_tf a :: map (@ev_t R) evs).
  Proof.
    intros k c a b v x fa' IH Ia Ib Hv Ea Hb L a' b' evs fin.
    destruct (sinv_tf_hd ts te u1 u2 c a x fa' Ia Ea) as [Htf Hx].
    destruct (sinv_cursor ts te u2 u1 c b Ib) as [Ew Lb].
    assert (Ia' : sinv ts te u1 u2 x a') by (apply (sinv_new_self ts te u1 u2 V2 c a b x fa'); auto).
    assert (Ib' : sinv ts te u2 u1 x b') by (apply (sinv_keep ts te u2 u1 c b x); auto; lra).
    rewrite Htf.
    apply (loop_step k c x a b a' b'); auto.
    - intros t Ht. rewrite Ea. cbn [hi]. exact Ht.
    - intros t Ht. apply (hi_lt _ _ _ Hb Ht).
    - unfold Yat. rewrite <- Htf, val_at_tf. reflexivity.
    - intros Hxe. unfold Yat.
      assert (E1 : s_isi a' = new_isi te a x fa').
      { unfold a'. rewrite (new_self_unfold te aux1 aux2 a b _ _ Ea). reflexivity. }
      assert (E2 : val a' x = s_dtf a).
      { assert (Q : s_tp a' = x /\ s_dtp a' = s_dtf a).
        { unfold a'. rewrite (new_self_unfold te aux1 aux2 a b _ _ Ea). cbn [s_tp s_dtp]. auto. }
        destruct Q as [Q1 Q2]. rewrite <- Q1 at 1. rewrite <- Q2.
        apply (val_at_tp ts te u1 u2 x a' Ia' Hxe). }
      rewrite E1, E2. reflexivity.
    - unfold a'. rewrite (fut_new_self te aux1 aux2 a b Ea). exact L.
  Qed.

  (* train 2 advances *)
  Lemma step_go2 : forall k c a b v y fb',
    loop_hyp k -> sinv ts te u1 u2 c a -> sinv ts te u2 u1 c b -> v = Yat a b c ->
    s_fut b = y :: fb' -> hi (s_fut a) y ->
    (length (s_fut a) + length fb' <= k)%nat ->
    let b' := new_self te aux2 aux1 b a in
    let a' := new_other b a in
    let evs := spike_loop ROps k te m ri aux1 aux2 a' b' in
    let fin := spike_final ROps k te m ri aux1 aux2 a' b' in
    close3 (c :: s_tf b :: map (@ev_t R) evs)
      (v :: dist_at_t ROps (s_isi a) (new_isi te b y fb') (val a (s_tf b)) (s_dtf b) m ri :: map y1of evs)
      (dist_at_t ROps (s_isi a) (s_isi b) (val a (s_tf b)) (send b) m ri :: map y2of evs)
      (ylast (fst fin) (snd fin)) = res3 c (s_tf b :: map (@ev_t R) evs).
  Proof.
    intros k c a b v y fb' IH Ia Ib Hv Eb Ha L b' a' evs fin.
    destruct (sinv_tf_hd ts te u2 u1 c b y fb' Ib Eb) as [Htf Hy].
    destruct (sinv_cursor ts te u1 u2 c a Ia) as [Ew La].
    assert (Ib' : sinv ts te u2 u1 y b') by (apply (sinv_new_self ts te u2 u1 V1 c b a y fb'); auto).
    assert (Ia' : sinv ts te u1 u2 y a') by (apply (sinv_keep ts te u1 u2 c a y); auto; lra).
    rewrite Htf.
    apply (loop_step k c y a b a' b'); auto.
    - intros t Ht. apply (hi_lt _ _ _ Ha Ht).
    - intros t Ht. rewrite Eb. cbn [hi]. exact Ht.
    - unfold Yat. rewrite <- Htf, val_at_tf. reflexivity.
    - intros Hye. unfold Yat.
      assert (E1 : s_isi b' = new_isi te b y fb').
      { unfold b'. rewrite (new_self_unfold te aux2 aux1 b a _ _ Eb). reflexivity. }
      assert (E2 : val b' y = s_dtf b).
      { assert (Q : s_tp b' = y /\ s_dtp b' = s_dtf b).
        { unfold b'. rewrite (new_self_unfold te aux2 aux1 b a _ _ Eb). cbn [s_tp s_dtp]. auto. }
        destruct Q as [Q1 Q2]. rewrite <- Q1 at 1. rewrite <- Q2.
        apply (val_at_tp ts te u2 u1 y b' Ib' Hye). }
      rewrite E1, E2. reflexivity.
    - unfold b'. rewrite (fut_new_self te aux2 aux1 b a Eb). exact L.
  Qed.

  (* simultaneous spike *)
  Lemma step_both : forall k c a b v x fa' fb',
    loop_hyp k -> sinv ts te u1 u2 c a -> sinv ts te u2 u1 c b -> v = Yat a b c ->
    s_fut a = x :: fa' -> s_fut b = x :: fb' ->
    (length fa' + length fb' <= k)%nat ->
    let a' := spike_both_one ROps te aux1 aux2 a (x :: s_past b) fb' in
    let b' := spike_both_one ROps te aux2 aux1 b (x :: s_past a) fa' in
    let evs := spike_loop ROps k te m ri aux1 aux2 a' b' in
    let fin := spike_final ROps k te m ri aux1 aux2 a' b' in
    close3 (c :: s_tf a :: map (@ev_t R) evs) (v :: 0 :: map y1of evs) (0 :: map y2of evs)
      (ylast (fst fin) (snd fin)) = res3 c (s_tf a :: map (@ev_t R) evs).
  Proof.
    intros k c a b v x fa' fb' IH Ia Ib Hv Ea Eb L a' b' evs fin.
    destruct (sinv_tf_hd ts te u1 u2 c a x fa' Ia Ea) as [Htf Hx].
    destruct (sinv_cursor ts te u2 u1 c b Ib) as [Ew2 Lb].
    destruct (sinv_cursor ts te u1 u2 c a Ia) as [Ew1 La].
    assert (In2 : In x u2) by (rewrite Ew2, Eb; apply in_or_app; right; left; reflexivity).
    assert (In1 : In x u1) by (rewrite Ew1, Ea; apply in_or_app; right; left; reflexivity).
    assert (Ia' : sinv ts te u1 u2 x a').
    { apply (sinv_both ts te u1 u2 V2 c a x fa'); auto.
      - rewrite Ew2, Eb. cbn [rev]. rewrite <- app_assoc. reflexivity.
      - cbn [lo]. lra. }
    assert (Ib' : sinv ts te u2 u1 x b').
    { apply (sinv_both ts te u2 u1 V1 c b x fb'); auto.
      - rewrite Ew1, Ea. cbn [rev]. rewrite <- app_assoc. reflexivity.
      - cbn [lo]. lra. }
    assert (Hc : c < te) by lra.
    rewrite Htf.
    apply (loop_step k c x a b a' b'); auto.
    - intros t Ht. rewrite Ea. cbn [hi]. exact Ht.
    - intros t Ht. rewrite Eb. cbn [hi]. exact Ht.
    - unfold Yat. rewrite (val_zero_tf ts te u1 u2 c a x fa' Ia Hc Ea In2).
      rewrite (val_zero_tf ts te u2 u1 c b x fb' Ib Hc Eb In1). symmetry. apply dist_at_t_zero.
    - intros Hxe. unfold Yat.
      rewrite (val_zero_tp ts te u1 u2 x a' x (s_past a) Ia' Hxe (past_both aux1 aux2 a _ _ _ _ Ea) In2).
      rewrite (val_zero_tp ts te u2 u1 x b' x (s_past b) Ib' Hxe (past_both aux2 aux1 b _ _ _ _ Eb) In1).
      symmetry. apply dist_at_t_zero.
    - unfold a', b'. rewrite (fut_both te aux1 aux2 a _ _ Ea), (fut_both te aux2 aux1 b _ _ Eb). exact L.
  Qed.

  Lemma loop_spec : forall fuel, loop_hyp fuel.
  Proof.
    induction fuel as [|k IH]; intros c a b v Ia Ib Hc Hv L.
    - destruct (s_fut a) eqn:Ea, (s_fut b) eqn:Eb; cbn [length] in L; try lia.
      unfold loop_goal. cbn [spike_loop spike_final map fst snd]. apply close3_nil; auto.
    - unfold loop_goal. cbn [spike_loop spike_final].
      destruct (s_fut a) as [|x fa'] eqn:Ea, (s_fut b) as [|y fb'] eqn:Eb.
      + cbn [map fst snd]. apply close3_nil; auto.
      + destruct (sinv_tf_hd ts te u2 u1 c b y fb' Ib Eb) as [_ Hy].
        rewrite !(spike_adv_eq te m ri aux2 aux1 b a true Eb). cbn [map ev_t y1of y2of fst snd].
        apply (step_go2 k c a b v y fb'); auto.
        * apply Hv; lra.
        * rewrite Ea; exact I.
        * rewrite Ea. cbn [length] in *. lia.
      + destruct (sinv_tf_hd ts te u1 u2 c a x fa' Ia Ea) as [_ Hx].
        rewrite !(spike_adv_eq te m ri aux1 aux2 a b false Ea). cbn [map ev_t y1of y2of fst snd].
        apply (step_go1 k c a b v x fa'); auto.
        * apply Hv; lra.
        * rewrite Eb; exact I.
        * rewrite Eb. cbn [length] in *. lia.
      + destruct (sinv_tf_hd ts te u1 u2 c a x fa' Ia Ea) as [Htfa Hx].
        destruct (sinv_tf_hd ts te u2 u1 c b y fb' Ib Eb) as [Htfb Hy].
        cbn [nltb ROps].
        destruct (Rltb_spec (s_tf a) (s_tf b)) as [H1|H1];
          [|destruct (Rltb_spec (s_tf b) (s_tf a)) as [H2|H2]].
        * rewrite !(spike_adv_eq te m ri aux1 aux2 a b false Ea). cbn [map ev_t y1of y2of fst snd].
          apply (step_go1 k c a b v x fa'); auto.
          -- apply Hv; lra.
          -- rewrite Eb. cbn [hi]. lra.
          -- rewrite Eb. cbn [length] in *. lia.
        * rewrite !(spike_adv_eq te m ri aux2 aux1 b a true Eb). cbn [map ev_t y1of y2of fst snd].
          apply (step_go2 k c a b v y fb'); auto.
          -- apply Hv; lra.
          -- rewrite Ea. cbn [hi]. lra.
          -- rewrite Ea. cbn [length] in *. lia.
        * assert (Hyx : y = x) by lra. rewrite Hyx in Eb |- *.
          cbn [map ev_t y1of y2of fst snd n0 ROps].
          apply (step_both k c a b v x fa' fb'); auto.
          -- apply Hv; lra.
          -- cbn [length] in *. lia.
  Qed.
End Loop.

(* ------------------------------------------------------------------ *)
(* 4. MAIN: the profile kernel computes the declarative SPIKE profile   *)

Lemma spike_profile_nonempty_spec : forall u1 u2 s1 s2 ts te m ri,
  valid ts te u1 -> valid ts te u2 -> u1 <> [] -> u2 <> [] ->
  (forall x, ts < x -> x < te -> (In x u1 <-> In x s1)) ->
  (forall x, ts < x -> x < te -> (In x u2 <-> In x s2)) ->
  spike_profile_py ROps u1 u2 ts te m ri =
  (breaks ROps ts te s1 s2,
   map (fun p => spike_at ROps ts te m ri u1 u2 (mid ROps p) (fst p)) (pieces (breaks ROps ts te s1 s2)),
   map (fun p => spike_at ROps ts te m ri u1 u2 (mid ROps p) (snd p)) (pieces (breaks ROps ts te s1 s2))).
Proof.
  intros u1 u2 s1 s2 ts te m ri W1 W2 N1 N2 Q1 Q2.
  assert (Hte : ts < te) by (destruct W1; auto).
  unfold spike_profile_py, spike_profile_gen. rewrite !t_aux_py_spec.
  pose proof (sinv_init ts te u1 u2 W1 W2 N1) as X1. cbv zeta in X1.
  pose proof (sinv_init ts te u2 u1 W2 W1 N2) as X2. cbv zeta in X2.
  destruct X1 as (I1 & T1 & M1 & L1 & S1 & Y1). destruct X2 as (I2 & T2 & M2 & L2 & S2 & Y2).
  set (aux1 := aux_of ROps ts te u1) in *. set (aux2 := aux_of ROps ts te u2) in *.
  set (a0 := spike_init ROps ts te u1 u2 aux1 aux2) in *.
  set (b0 := spike_init ROps ts te u2 u1 aux2 aux1) in *.
  assert (Hc : ts <= te) by lra.
  assert (L : (length (s_fut a0) + length (s_fut b0) <= length u1 + length u2)%nat) by lia.
  assert (Hv : ts < te -> dist_at_t ROps (s_isi a0) (s_isi b0) (s_s a0) (s_s b0) m ri
                          = Yat m ri a0 b0 ts).
  { intros _. unfold Yat. rewrite Y1, Y2. reflexivity. }
  pose proof (loop_spec ts te m ri u1 u2 W1 W2 N1 N2 (length u1 + length u2) ts a0 b0 _ I1 I2 Hc Hv L) as H.
  unfold loop_goal in H. cbv zeta in H. fold aux1 aux2 in H.
  assert (Bk : ts :: tl_bs te ts (map (@ev_t R)
                 (spike_loop ROps (length u1 + length u2) te m ri aux1 aux2 a0 b0))
               = breaks ROps ts te s1 s2).
  { unfold tl_bs, breaks. destruct (Rltb_spec ts te); [|lra]. f_equal. f_equal.
    rewrite spike_loop_events by auto. apply ssorted_ext.
    - apply ssorted_filter. apply mrg_sorted; auto.
    - apply sort_unique_sorted.
    - intros x. rewrite filter_In, sort_unique_in, filter_In, in_app_iff.
      cbn [nltb ROps]. rewrite andb_true_iff, !Rltb_true. split.
      + intros [Hm Ht]. apply mrg_in in Hm. destruct Hm as [Hm|Hm].
        * apply M1 in Hm as [Hu Hs]. split; [left|split; auto]. apply Q1; auto.
        * apply M2 in Hm as [Hu Hs]. split; [right|split; auto]. apply Q2; auto.
      + intros [Hin [Hs Ht]]. split; auto. apply mrg_in_conv; auto.
        destruct Hin as [Hin|Hin]; [left; apply M1|right; apply M2]; split; auto;
          [apply Q1|apply Q2]; auto. }
  destruct (spike_final ROps (length u1 + length u2) te m ri aux1 aux2 a0 b0) as [af bf].
  cbn [fst snd] in H.
  refine (eq_trans H _). unfold res3. rewrite Bk. reflexivity.
Qed.

Theorem spike_profile_spec : forall s1 s2 ts te m ri,
  valid ts te s1 -> valid ts te s2 ->
  spike_profile_py ROps (eff ts te s1) (eff ts te s2) ts te m ri = spike_spec ROps s1 s2 ts te m ri.
Proof.
  intros s1 s2 ts te m ri V1 V2.
  unfold spike_spec. cbv zeta.
  apply spike_profile_nonempty_spec.
  - apply eff_valid; auto.
  - apply eff_valid; auto.
  - apply eff_nonempty.
  - apply eff_nonempty.
  - intros x H1 H2; split; [intros H; eapply eff_in_inside; eauto|apply eff_in].
  - intros x H1 H2; split; [intros H; eapply eff_in_inside; eauto|apply eff_in].
Qed.

(* B. breakpoints *)
Corollary spike_profile_breakpoints : forall s1 s2 ts te m ri,
  valid ts te s1 -> valid ts te s2 ->
  fst (fst (spike_profile_py ROps (eff ts te s1) (eff ts te s2) ts te m ri)) = breaks ROps ts te s1 s2.
Proof. intros. rewrite spike_profile_spec by auto. reflexivity. Qed.


(* ------------------------------------------------------------------ *)
(* D. the profile vanishes (from both sides) at a spike shared by the trains *)

Lemma pieces_nth : forall (bs : list R) k p, nth_error (pieces bs) k = Some p ->
  nth_error bs k = Some (fst p) /\ nth_error bs (S k) = Some (snd p).
Proof.
  induction bs as [|a bs IH]; intros k p H; [destruct k; discriminate|].
  destruct bs as [|b r]; [destruct k; discriminate|].
  rewrite pieces_cons2 in H. destruct k as [|k].
  - cbn in H. injection H as <-. cbn. auto.
  - cbn [nth_error] in H. apply IH in H. exact H.
Qed.

Lemma pieces_gap : forall (bs : list R) k p, ssorted bs -> nth_error (pieces bs) k = Some p ->
  fst p < snd p /\ forall z, In z bs -> z <= fst p \/ snd p <= z.
Proof.
  induction bs as [|a bs IH]; intros k p S H; [destruct k; discriminate|].
  destruct bs as [|b r]; [destruct k; discriminate|].
  rewrite pieces_cons2 in H.
  pose proof (ssorted_cons_inv _ _ S) as [S' F]. rewrite Forall_forall in F.
  destruct k as [|k].
  - cbn in H. injection H as <-. cbn [fst snd]. split; [apply F; left; auto|].
    intros z [<-|[<-|Hz]]; [left; lra|right; lra|right].
    apply ssorted_cons_inv in S' as [_ F']. rewrite Forall_forall in F'. apply F' in Hz. lra.
  - cbn [nth_error] in H. destruct (IH k p S' H) as [Hlt Hz]. split; auto.
    intros z [<-|Hin]; auto. left.
    apply pieces_nth in H as [H _]. apply nth_error_In in H. apply F in H. lra.
Qed.

Lemma ssorted_bracket : forall (lo hi : R) l, ssorted l -> (forall x, In x l -> lo < x < hi) -> lo < hi ->
  ssorted (lo :: l ++ [hi]).
Proof.
  intros lo hi l S B H. apply ssorted_cons.
  - induction l as [|a l IH]; cbn [app]; [apply ssorted_cons; [apply ssorted_nil|constructor]|].
    pose proof (ssorted_cons_inv _ _ S) as [S' F]. rewrite Forall_forall in F.
    apply ssorted_cons.
    + apply IH; auto. intros; apply B; right; auto.
    + rewrite Forall_forall. intros x Hx. apply in_app_or in Hx as [Hx|[<-|[]]]; auto.
      apply B; left; auto.
  - rewrite Forall_forall. intros x Hx. apply in_app_or in Hx as [Hx|[<-|[]]]; auto. apply B; auto.
Qed.

Lemma breaks_inside : forall ts te s1 s2 x,
  In x (sort_unique ROps (filter (fun x => nltb ROps ts x && nltb ROps x te) (s1 ++ s2))) <->
  (In x s1 \/ In x s2) /\ ts < x < te.
Proof.
  intros. rewrite sort_unique_in, filter_In, in_app_iff. cbn [nltb ROps].
  rewrite andb_true_iff, !Rltb_true. tauto.
Qed.

Lemma breaks_sorted : forall ts te s1 s2, ts < te -> ssorted (breaks ROps ts te s1 s2).
Proof.
  intros ts te s1 s2 H. unfold breaks. apply ssorted_bracket; auto.
  - apply sort_unique_sorted.
  - intros x Hx. apply breaks_inside in Hx. tauto.
Qed.

Lemma in_breaks : forall ts te s1 s2 s z, valid ts te s -> (forall y, In y s -> In y s1 \/ In y s2) ->
  In z s -> In z (breaks ROps ts te s1 s2).
Proof.
  intros ts te s1 s2 s z (Hte & _ & B) Hs Hz. rewrite Forall_forall in B. specialize (B z Hz).
  unfold breaks. destruct (Req_dec z ts) as [->|N1]; [left; auto|]. right.
  apply in_or_app. destruct (Req_dec z te) as [->|N2]; [right; left; auto|]. left.
  apply breaks_inside. split; auto. lra.
Qed.

Lemma prev_at : forall u x tm, ssorted u -> In x u -> x <= tm ->
  (forall z, In z u -> z <= x \/ tm < z) -> prev_of ROps tm u None = Some x.
Proof.
  intros u x tm S Hin Hx Hgap.
  destruct (split_at u tm) as (p & f & E & P & Hh). subst u.
  rewrite prev_rev, prev_hi by auto.
  assert (Hp : In x p).
  { apply in_app_or in Hin as [Hin|Hin]; [apply in_rev; auto|]. exfalso.
    destruct f as [|y f']; [destruct Hin|]. cbn [hi] in Hh.
    apply ssorted_app_inv in S as (_ & Sf & _). apply ssorted_cons_inv in Sf as [_ F].
    rewrite Forall_forall in F. destruct Hin as [<-|Hin]; [lra|]. apply F in Hin. lra. }
  destruct p as [|a p']; [destruct Hp|]. f_equal.
  inversion P as [|? ? Pa _]; subst.
  assert (Ha : In a (rev (a :: p') ++ f)) by (apply in_or_app; left; apply in_rev; rewrite rev_involutive; left; auto).
  destruct (Hgap a Ha) as [H1|H1]; [|lra].
  destruct Hp as [->|Hp]; auto.
  cbn [rev] in S. rewrite <- app_assoc in S. cbn [app] in S.
  apply ssorted_mid in S as (_ & _ & H & _). apply in_rev in Hp. apply H in Hp. lra.
Qed.

Lemma next_at : forall u x tm, ssorted u -> In x u -> tm < x ->
  (forall z, In z u -> z <= tm \/ x <= z) -> next_of ROps tm u = Some x.
Proof.
  intros u x tm S Hin Hx Hgap.
  destruct (split_at u tm) as (p & f & E & P & Hh). subst u.
  rewrite next_rev, next_hi by auto.
  assert (Hf : In x f).
  { apply in_app_or in Hin as [Hin|Hin]; auto. exfalso.
    apply in_rev in Hin. rewrite Forall_forall in P. apply P in Hin. lra. }
  destruct f as [|y f']; [destruct Hf|]. f_equal. cbn [hi] in Hh.
  assert (Hy : In y (rev p ++ y :: f')) by (apply in_or_app; right; left; auto).
  destruct (Hgap y Hy) as [H1|H1]; [lra|].
  destruct Hf as [->|Hf]; auto.
  apply ssorted_app_inv in S as (_ & Sf & _). apply ssorted_cons_inv in Sf as [_ F].
  rewrite Forall_forall in F. apply F in Hf. lra.
Qed.

Lemma contrib_zero_prev : forall ts te u w tm x, prev_of ROps tm u None = Some x -> In x w ->
  fst (contrib ROps ts te u w tm x) = 0.
Proof.
  intros ts te u w tm x H Hin. unfold contrib. rewrite H.
  destruct (next_of ROps tm u); cbn [fst]; rewrite (nearest_zero_at_spike _ _ _ Hin); auto.
  cbn [nadd nsub nmul ndiv ROps]. unfold Rdiv. ring.
Qed.

Lemma contrib_zero_next : forall ts te u w tm x, next_of ROps tm u = Some x -> In x w ->
  fst (contrib ROps ts te u w tm x) = 0.
Proof.
  intros ts te u w tm x H Hin. unfold contrib. rewrite H.
  destruct (prev_of ROps tm u None); cbn [fst]; rewrite (nearest_zero_at_spike _ _ _ Hin); auto.
  cbn [nadd nsub nmul ndiv ROps]. unfold Rdiv. ring.
Qed.

Lemma spike_at_zero : forall ts te m ri u1 u2 tm x,
  fst (contrib ROps ts te u1 u2 tm x) = 0 -> fst (contrib ROps ts te u2 u1 tm x) = 0 ->
  spike_at ROps ts te m ri u1 u2 tm x = 0.
Proof.
  intros ts te m ri u1 u2 tm x H1 H2. rewrite spike_at_eq_dist_at_t.
  destruct (contrib ROps ts te u1 u2 tm x) as [c1 i1]. destruct (contrib ROps ts te u2 u1 tm x) as [c2 i2].
  cbn [fst] in *. subst. apply dist_at_t_zero.
Qed.

Theorem spike_spec_zero_at_shared : forall s1 s2 ts te m ri x k,
  valid ts te s1 -> valid ts te s2 -> In x s1 -> In x s2 ->
  nth_error (fst (fst (spike_spec ROps s1 s2 ts te m ri))) k = Some x ->
  (forall v, nth_error (snd (fst (spike_spec ROps s1 s2 ts te m ri))) k = Some v -> v = 0) /\
  (forall j v, k = S j -> nth_error (snd (spike_spec ROps s1 s2 ts te m ri)) j = Some v -> v = 0).
Proof.
  intros s1 s2 ts te m ri x k V1 V2 X1 X2. unfold spike_spec. cbn [fst snd].
  assert (Hte : ts < te) by (destruct V1; auto).
  pose proof (eff_valid V1) as W1. pose proof (eff_valid V2) as W2.
  pose proof (eff_in ts te s1 x X1) as Y1. pose proof (eff_in ts te s2 x X2) as Y2.
  assert (E1 : eff ts te s1 = s1) by (destruct s1; [destruct X1|reflexivity]).
  assert (E2 : eff ts te s2 = s2) by (destruct s2; [destruct X2|reflexivity]).
  rewrite E1, E2 in *. clear E1 E2 Y1 Y2.
  set (bs := breaks ROps ts te s1 s2).
  pose proof (breaks_sorted ts te s1 s2 Hte) as Sb. fold bs in Sb.
  assert (B1 : forall z, In z s1 -> In z bs) by (intros z Hz; apply (in_breaks ts te s1 s2 s1 z); auto).
  assert (B2 : forall z, In z s2 -> In z bs) by (intros z Hz; apply (in_breaks ts te s1 s2 s2 z); auto).
  destruct V1 as (_ & S1 & _). destruct V2 as (_ & S2 & _).
  intros Hk. split.
  - intros v Hv. rewrite nth_error_map in Hv.
    destruct (nth_error (pieces bs) k) as [p|] eqn:Ep; [|discriminate]. cbn in Hv. injection Hv as <-.
    destruct (pieces_gap bs k p Sb Ep) as [Hlt Hgap].
    destruct (pieces_nth bs k p Ep) as [Hf _]. rewrite Hk in Hf. injection Hf as Hf.
    destruct p as [a b]. cbn [fst snd] in *. subst a.
    pose proof (mid_between x b Hlt) as [M1 M2].
    apply spike_at_zero; apply contrib_zero_prev; auto; apply prev_at; auto; try lra.
    + intros z Hz. destruct (Hgap z (B1 z Hz)); [left|right]; lra.
    + intros z Hz. destruct (Hgap z (B2 z Hz)); [left|right]; lra.
  - intros j v -> Hv. rewrite nth_error_map in Hv.
    destruct (nth_error (pieces bs) j) as [p|] eqn:Ep; [|discriminate]. cbn in Hv. injection Hv as <-.
    destruct (pieces_gap bs j p Sb Ep) as [Hlt Hgap].
    destruct (pieces_nth bs j p Ep) as [_ Hf]. rewrite Hk in Hf. injection Hf as Hf.
    destruct p as [a b]. cbn [fst snd] in *. subst b.
    pose proof (mid_between a x Hlt) as [M1 M2].
    apply spike_at_zero; apply contrib_zero_next; auto; apply next_at; auto; try lra.
    + intros z Hz. destruct (Hgap z (B1 z Hz)); [left|right]; lra.
    + intros z Hz. destruct (Hgap z (B2 z Hz)); [left|right]; lra.
Qed.

Theorem spike_zero_at_shared : forall s1 s2 ts te m ri x k,
  valid ts te s1 -> valid ts te s2 -> In x s1 -> In x s2 ->
  let P := spike_profile_py ROps (eff ts te s1) (eff ts te s2) ts te m ri in
  nth_error (fst (fst P)) k = Some x ->
  (forall v, nth_error (snd (fst P)) k = Some v -> v = 0) /\
  (forall j v, k = S j -> nth_error (snd P) j = Some v -> v = 0).
Proof.
  intros s1 s2 ts te m ri x k V1 V2 X1 X2 P. unfold P. rewrite spike_profile_spec by auto.
  apply spike_spec_zero_at_shared; auto.
Qed.

(* ------------------------------------------------------------------ *)
(* E. the single-pass trapezoid sum is the average of the profile       *)

Lemma pwl_int_all_cons2 : forall (x0 x1 : R) xs a y1 b y2,
  pwl_int_all ROps (x0 :: x1 :: xs) (a :: y1) (b :: y2) =
  (x1 - x0) * ((a + b) / 2) + pwl_int_all ROps (x1 :: xs) y1 y2.
Proof. intros. cbn [pwl_int_all]. rops. reflexivity. Qed.

Lemma pwl_int_all_single : forall (x0 : R) y1 y2, pwl_int_all ROps [x0] y1 y2 = 0.
Proof. intros. destruct y1, y2; reflexivity. Qed.

Lemma last_default : forall (a : R) l d d', last (a :: l) d = last (a :: l) d'.
Proof.
  intros a l; revert a; induction l as [|b l IH]; intros a d d'; [reflexivity|].
  change (last (a :: b :: l) d) with (last (b :: l) d).
  change (last (a :: b :: l) d') with (last (b :: l) d'). apply IH.
Qed.

Lemma spike_acc_spec : forall evs tl ys acc,
  spike_acc ROps evs tl ys acc =
  (last (tl :: map (@ev_t R) evs) tl, last (ys :: map y1of evs) ys,
   snd (spike_acc ROps evs tl ys acc)) /\
  snd (spike_acc ROps evs tl ys acc) =
  acc + pwl_int_all ROps (tl :: map (@ev_t R) evs) (ys :: map y1of evs) (map y2of evs).
Proof.
  induction evs as [|[[t ye] ys'] r IH]; intros tl ys acc.
  - cbn [spike_acc map last fst snd]. rewrite pwl_int_all_single. split; [reflexivity|lra].
  - cbn [spike_acc map ev_t y1of y2of fst snd]. destruct (IH t ys' (nadd ROps acc
        (nmul ROps (nhalfmul ROps (nadd ROps ys ye)) (nsub ROps t tl)))) as [E1 E2].
    split.
    + rewrite E1 at 1. f_equal. f_equal.
      * change (last (tl :: t :: map (@ev_t R) r) tl) with (last (t :: map (@ev_t R) r) tl).
        apply last_default.
      * change (last (ys :: ys' :: map y1of r) ys) with (last (ys' :: map y1of r) ys).
        apply last_default.
    + rewrite E2. rewrite pwl_int_all_cons2. unfold nhalfmul. rops. lra.
Qed.

Lemma pwl_int_all_removelast : forall evs tl ys,
  pwl_int_all ROps (tl :: map (@ev_t R) evs) (removelast (ys :: map y1of evs)) (map y2of evs) =
  pwl_int_all ROps (tl :: map (@ev_t R) evs) (ys :: map y1of evs) (map y2of evs).
Proof.
  induction evs as [|e r IH]; intros tl ys.
  - cbn [map removelast]. rewrite !pwl_int_all_single. reflexivity.
  - cbn [map]. change (removelast (ys :: y1of e :: map y1of r)) with (ys :: removelast (y1of e :: map y1of r)).
    rewrite !pwl_int_all_cons2, IH. reflexivity.
Qed.

Lemma pwl_int_all_snoc : forall evs tl ys te yl,
  pwl_int_all ROps ((tl :: map (@ev_t R) evs) ++ [te]) (ys :: map y1of evs) (map y2of evs ++ [yl]) =
  pwl_int_all ROps (tl :: map (@ev_t R) evs) (ys :: map y1of evs) (map y2of evs) +
  (te - last (tl :: map (@ev_t R) evs) tl) * ((last (ys :: map y1of evs) ys + yl) / 2).
Proof.
  induction evs as [|e r IH]; intros tl ys te yl.
  - cbn [map app last]. rewrite pwl_int_all_cons2, !pwl_int_all_single. lra.
  - cbn [map app]. rewrite !pwl_int_all_cons2.
    change (ev_t e :: (map (@ev_t R) r ++ [te])) with ((ev_t e :: map (@ev_t R) r) ++ [te]).
    rewrite (IH (ev_t e) (y1of e) te yl).
    change (last (tl :: ev_t e :: map (@ev_t R) r) tl) with (last (ev_t e :: map (@ev_t R) r) tl).
    change (last (ys :: y1of e :: map y1of r) ys) with (last (y1of e :: map y1of r) ys).
    rewrite (last_default (ev_t e) _ tl (ev_t e)), (last_default (y1of e) _ ys (y1of e)). lra.
Qed.

Lemma last_le : forall (l : list R) a b, a <= b -> (forall x, In x l -> x <= b) -> last (a :: l) a <= b.
Proof.
  induction l as [|c l IH]; intros a b Ha H; [exact Ha|].
  change (last (a :: c :: l) a) with (last (c :: l) a). rewrite (last_default c l a c).
  apply IH; [apply H; left; auto|intros; apply H; right; auto].
Qed.

Theorem spike_distance_cy_avrg : forall t1 t2 ts te m ri,
  valid ts te t1 -> valid ts te t2 -> t1 <> [] -> t2 <> [] ->
  Ok (spike_distance_cy ROps t1 t2 ts te m ri) =
  pwl_avrg ROps (spike_profile_cy ROps t1 t2 ts te m ri) (@IvNone R).
Proof.
  intros t1 t2 ts te m ri V1 V2 N1 N2.
  assert (Hte : ts < te) by (destruct V1; auto).
  unfold spike_distance_cy, spike_profile_cy, spike_profile_gen. rewrite !t_aux_cy_spec.
  pose proof (sinv_init ts te t1 t2 V1 V2 N1) as X1. cbv zeta in X1.
  pose proof (sinv_init ts te t2 t1 V2 V1 N2) as X2. cbv zeta in X2.
  destruct X1 as (_ & T1 & M1 & _). destruct X2 as (_ & T2 & M2 & _).
  set (aux1 := aux_of ROps ts te t1) in *. set (aux2 := aux_of ROps ts te t2) in *.
  set (a0 := spike_init ROps ts te t1 t2 aux1 aux2) in *.
  set (b0 := spike_init ROps ts te t2 t1 aux2 aux1) in *.
  set (fuel := (length t1 + length t2)%nat).
  pose proof (spike_loop_events fuel te m ri aux1 aux2 a0 b0 T1 T2) as Ev.
  set (evs := spike_loop ROps fuel te m ri aux1 aux2 a0 b0) in *.
  destruct (spike_final ROps fuel te m ri aux1 aux2 a0 b0) as [af bf].
  set (y0 := dist_at_t ROps (s_isi a0) (s_isi b0) (s_s a0) (s_s b0) m ri).
  set (yl := dist_at_t ROps (s_isi af) (s_isi bf) (s_dtf af) (s_dtf bf) m ri).
  destruct (spike_acc_spec evs ts y0 (n0 ROps)) as [A1 A2].
  rewrite A1. clear A1.
  set (accv := snd (spike_acc ROps evs ts y0 (n0 ROps))) in *.
  assert (Hacc : accv =
                 pwl_int_all ROps (ts :: map (@ev_t R) evs) (y0 :: map y1of evs) (map y2of evs)).
  { rewrite A2. cbn [n0 ROps]. lra. }
  assert (Hlast : last (ts :: map (@ev_t R) evs) ts <= te).
  { apply last_le; [lra|]. intros x Hx. rewrite Ev in Hx. apply mrg_in in Hx.
    destruct V1 as (_ & _ & B1). destruct V2 as (_ & _ & B2). rewrite Forall_forall in B1, B2.
    destruct Hx as [Hx|Hx]; [apply M1 in Hx as [Hx _]; apply B1 in Hx|apply M2 in Hx as [Hx _]; apply B2 in Hx]; lra. }
  rewrite (last_default ts (map (@ev_t R) evs) te ts).
  cbn [nltb neqb ROps].
  destruct (Reqb_spec (last (ts :: map (@ev_t R) evs) ts) te) as [Heq|Hne].
  - destruct (Rltb_spec (last (ts :: map (@ev_t R) evs) ts) te) as [Hlt|_]; [lra|].
    unfold pwl_avrg, avrg_gen, pwl_integral, rmap. cbn [fst snd]. f_equal.
    unfold nthF, lastF. cbn [nth]. rewrite (last_default ts (map (@ev_t R) evs) (n0 ROps) ts), Heq.
    change (fun e : R * R * R => snd e) with y1of. change (fun e : R * R * R => snd (fst e)) with y2of.
    rewrite pwl_int_all_removelast, Hacc. reflexivity.
  - destruct (Rltb_spec (last (ts :: map (@ev_t R) evs) ts) te) as [Hlt|Hge]; [|lra].
    unfold pwl_avrg, avrg_gen, pwl_integral, rmap. cbn [fst snd]. f_equal.
    unfold nthF, lastF. rewrite last_last. cbn [nth app].
    change (fun e : R * R * R => snd e) with y1of. change (fun e : R * R * R => snd (fst e)) with y2of.
    change (ts :: map (@ev_t R) evs ++ [te]) with ((ts :: map (@ev_t R) evs) ++ [te]).
    rewrite pwl_int_all_snoc, Hacc. unfold nhalfmul. rops. f_equal. lra.
Qed.

Print Assumptions spike_profile_cy_eq.
Print Assumptions spike_profile_spec.
Print Assumptions spike_profile_breakpoints.
Print Assumptions spike_profile_sym.
Print Assumptions spike_zero_at_shared.
Print Assumptions spike_distance_cy_avrg.
