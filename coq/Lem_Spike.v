(* Lem_Spike.v — the SPIKE-profile kernel (three-way merge scan carrying, per
   train, the surrounding spikes, their nearest-spike distances to the other
   train and the running ISI) computes the declarative profile [spike_spec]. *)
From Coq Require Import List Bool Arith ZArith Reals Lra Lia Sorted Permutation.
Import ListNotations.
From PS Require Import Num RLemmas Valid ModelKernels ModelFuncs ModelAPI Spec SyncDefs.
From PS Require Import Lem_MinDist Lem_Isi.
Local Open Scope R_scope.

Notation sstR := (@sst R).

(* ------------------------------------------------------------------ *)
(* A. the cython variant differs only in how the auxiliary spikes are
      written down                                                      *)

Theorem spike_profile_cy_eq : forall t1 t2 ts te m ri,
  spike_profile_cy ROps t1 t2 ts te m ri = spike_profile_py ROps t1 t2 ts te m ri.
Proof.
  intros. unfold spike_profile_cy, spike_profile_py, spike_profile_gen.
  rewrite !t_aux_cy_eq. reflexivity.
Qed.

(* ------------------------------------------------------------------ *)
(* 0. one step of the scan in closed form                               *)

(* linear interpolation of the stored distances of one train at time t *)
Definition val (a : sstR) (t : R) : R :=
  (s_dtp a * (s_tf a - t) + s_dtf a * (t - s_tp a)) / s_isi a.
(* value of the advancing train at its own following spike *)
Definition send (a : sstR) : R := s_dtf a * (s_tf a - s_tp a) / s_isi a.

Definition new_tf (auxA : R * R) (fA' : list R) : R :=
  match fA' with y :: _ => y | [] => snd auxA end.
Definition new_dtf (auxB : R * R) (a b : sstR) (fA' : list R) : R :=
  match fA' with
  | y :: _ => get_min_dist ROps y (from_cursor (s_past b) (s_fut b)) (fst auxB) (snd auxB)
  | [] => s_dtf a
  end.
Definition new_isi (te : R) (a : sstR) (x : R) (fA' : list R) : R :=
  match fA' with
  | y :: _ => y - s_tf a
  | [] => end_isi ROps te x (s_past a)
  end.
Definition new_self (te : R) (auxA auxB : R * R) (a b : sstR) : sstR :=
  match s_fut a with
  | [] => a
  | x :: fA' =>
      mkSst (x :: s_past a) fA' (s_tf a) (new_tf auxA fA') (s_dtf a)
            (new_dtf auxB a b fA') (new_isi te a x fA') (s_dtf a)
  end.
Definition new_other (a b : sstR) : sstR :=
  mkSst (s_past b) (s_fut b) (s_tp b) (s_tf b) (s_dtp b) (s_dtf b) (s_isi b) (val b (s_tf a)).

Lemma spike_adv_eq : forall te m ri auxA auxB (a b : sstR) swap x fA',
  s_fut a = x :: fA' ->
  spike_adv ROps te m ri auxA auxB a b swap =
  (s_tf a,
   (if swap then dist_at_t ROps (s_isi b) (s_isi a) (val b (s_tf a)) (send a) m ri
    else dist_at_t ROps (s_isi a) (s_isi b) (send a) (val b (s_tf a)) m ri),
   (if swap then dist_at_t ROps (s_isi b) (new_isi te a x fA') (val b (s_tf a)) (s_dtf a) m ri
    else dist_at_t ROps (new_isi te a x fA') (s_isi b) (s_dtf a) (val b (s_tf a)) m ri),
   new_self te auxA auxB a b, new_other a b).
Proof.
  intros te m ri auxA auxB a b swap x fA' E.
  unfold spike_adv, new_self, new_other, new_isi, new_dtf, new_tf, val, send. rewrite E.
  destruct fA' as [|y fA'']; reflexivity.
Qed.
Arguments spike_adv_eq te m ri auxA auxB a b swap [x fA'] _.

(* ------------------------------------------------------------------ *)
(* B. event times of the loop are the sorted distinct union of the futures *)

Definition tf_ok (a : sstR) : Prop :=
  match s_fut a with y :: _ => s_tf a = y | [] => True end.

Lemma tf_ok_new_self : forall te auxA auxB a b, tf_ok (new_self te auxA auxB a b).
Proof.
  intros. unfold new_self, tf_ok. destruct (s_fut a) as [|x fA'] eqn:E.
  - rewrite E. exact I.
  - cbn [s_fut s_tf]. unfold new_tf. destruct fA'; auto.
Qed.

Lemma tf_ok_new_other : forall a b, tf_ok b -> tf_ok (new_other a b).
Proof. intros a b H. exact H. Qed.

Lemma tf_ok_both : forall te auxA auxB a pB fB, tf_ok (spike_both_one ROps te auxA auxB a pB fB).
Proof.
  intros. unfold spike_both_one, tf_ok. destruct (s_fut a) as [|x fA'] eqn:E.
  - rewrite E. exact I.
  - destruct fA' as [|y fA'']; cbn [s_fut s_tf]; auto.
Qed.

Lemma fut_new_self : forall te auxA auxB a b x fA', s_fut a = x :: fA' ->
  s_fut (new_self te auxA auxB a b) = fA'.
Proof. intros. unfold new_self. rewrite H. reflexivity. Qed.
Arguments fut_new_self te auxA auxB a b [x fA'] _.

Lemma fut_both : forall te auxA auxB a pB fB x fA', s_fut a = x :: fA' ->
  s_fut (spike_both_one ROps te auxA auxB a pB fB) = fA'.
Proof. intros. unfold spike_both_one. rewrite H. destruct fA'; reflexivity. Qed.
Arguments fut_both te auxA auxB a pB fB [x fA'] _.

Lemma spike_loop_events : forall fuel te m ri aux1 aux2 (a b : sstR),
  tf_ok a -> tf_ok b ->
  map (@ev_t R) (spike_loop ROps fuel te m ri aux1 aux2 a b) = mrg fuel (s_fut a) (s_fut b).
Proof.
  induction fuel as [|k IH]; intros te m ri aux1 aux2 a b Ta Tb; cbn [spike_loop mrg]; auto.
  destruct (s_fut a) as [|x fa'] eqn:Ea, (s_fut b) as [|y fb'] eqn:Eb; auto.
  - rewrite (spike_adv_eq te m ri aux2 aux1 b a true Eb). cbn [map ev_t fst].
    rewrite IH; [|apply tf_ok_new_other; auto|apply tf_ok_new_self].
    rewrite (fut_new_self _ _ _ _ _ Eb). cbn [new_other s_fut]. rewrite Ea.
    unfold tf_ok in Tb. rewrite Eb in Tb. rewrite Tb. reflexivity.
  - rewrite (spike_adv_eq te m ri aux1 aux2 a b false Ea). cbn [map ev_t fst].
    rewrite IH; [|apply tf_ok_new_self|apply tf_ok_new_other; auto].
    rewrite (fut_new_self _ _ _ _ _ Ea). cbn [new_other s_fut]. rewrite Eb.
    unfold tf_ok in Ta. rewrite Ea in Ta. rewrite Ta. reflexivity.
  - pose proof Ta as Ta'. pose proof Tb as Tb'. unfold tf_ok in Ta', Tb'.
    rewrite Ea in Ta'. rewrite Eb in Tb'. rewrite Ta', Tb'. cbn [nltb ROps].
    destruct (Rltb x y); [|destruct (Rltb y x)].
    + rewrite (spike_adv_eq te m ri aux1 aux2 a b false Ea). cbn [map ev_t fst].
      rewrite IH; [|apply tf_ok_new_self|apply tf_ok_new_other; auto].
      rewrite (fut_new_self _ _ _ _ _ Ea). cbn [new_other s_fut]. rewrite Eb, Ta'. reflexivity.
    + rewrite (spike_adv_eq te m ri aux2 aux1 b a true Eb). cbn [map ev_t fst].
      rewrite IH; [|apply tf_ok_new_other; auto|apply tf_ok_new_self].
      rewrite (fut_new_self _ _ _ _ _ Eb). cbn [new_other s_fut]. rewrite Ea, Tb'. reflexivity.
    + cbn [map ev_t fst]. rewrite IH; [|apply tf_ok_both|apply tf_ok_both].
      rewrite (fut_both _ _ _ _ _ _ Ea), (fut_both _ _ _ _ _ _ Eb). reflexivity.
Qed.

(* ------------------------------------------------------------------ *)
(* C. symmetry in the two trains (no hypothesis on the inputs is needed) *)

Lemma spike_loop_sym : forall fuel te m ri aux1 aux2 (a b : sstR),
  spike_loop ROps fuel te m ri aux2 aux1 b a = spike_loop ROps fuel te m ri aux1 aux2 a b.
Proof.
  induction fuel as [|k IH]; intros te m ri aux1 aux2 a b; cbn [spike_loop]; auto.
  destruct (s_fut a) as [|x fa'] eqn:Ea, (s_fut b) as [|y fb'] eqn:Eb; auto.
  - rewrite (spike_adv_eq te m ri aux2 aux1 b a true Eb), (spike_adv_eq te m ri aux2 aux1 b a false Eb).
    rewrite IH. f_equal. f_equal; [f_equal|]; apply dist_at_t_sym.
  - rewrite (spike_adv_eq te m ri aux1 aux2 a b true Ea), (spike_adv_eq te m ri aux1 aux2 a b false Ea).
    rewrite IH. f_equal. f_equal; [f_equal|]; apply dist_at_t_sym.
  - cbn [nltb ROps].
    destruct (Rltb_spec (s_tf a) (s_tf b)) as [H1|H1], (Rltb_spec (s_tf b) (s_tf a)) as [H2|H2]; try lra.
    + rewrite (spike_adv_eq te m ri aux1 aux2 a b true Ea), (spike_adv_eq te m ri aux1 aux2 a b false Ea).
      rewrite IH. f_equal. f_equal; [f_equal|]; apply dist_at_t_sym.
    + rewrite (spike_adv_eq te m ri aux2 aux1 b a true Eb), (spike_adv_eq te m ri aux2 aux1 b a false Eb).
      rewrite IH. f_equal. f_equal; [f_equal|]; apply dist_at_t_sym.
    + rewrite IH. f_equal. f_equal. f_equal. lra.
Qed.

Lemma spike_final_sym : forall fuel te m ri aux1 aux2 (a b : sstR),
  spike_final ROps fuel te m ri aux2 aux1 b a =
  (snd (spike_final ROps fuel te m ri aux1 aux2 a b), fst (spike_final ROps fuel te m ri aux1 aux2 a b)).
Proof.
  induction fuel as [|k IH]; intros te m ri aux1 aux2 a b; cbn [spike_final]; auto.
  destruct (s_fut a) as [|x fa'] eqn:Ea, (s_fut b) as [|y fb'] eqn:Eb; auto.
  - rewrite (spike_adv_eq te m ri aux2 aux1 b a true Eb), (spike_adv_eq te m ri aux2 aux1 b a false Eb).
    apply IH.
  - rewrite (spike_adv_eq te m ri aux1 aux2 a b true Ea), (spike_adv_eq te m ri aux1 aux2 a b false Ea).
    apply IH.
  - cbn [nltb ROps].
    destruct (Rltb_spec (s_tf a) (s_tf b)) as [H1|H1], (Rltb_spec (s_tf b) (s_tf a)) as [H2|H2]; try lra.
    + rewrite (spike_adv_eq te m ri aux1 aux2 a b true Ea), (spike_adv_eq te m ri aux1 aux2 a b false Ea).
      apply IH.
    + rewrite (spike_adv_eq te m ri aux2 aux1 b a true Eb), (spike_adv_eq te m ri aux2 aux1 b a false Eb).
      apply IH.
    + apply IH.
Qed.

Theorem spike_profile_sym : forall t1 t2 ts te m ri,
  spike_profile_py ROps t2 t1 ts te m ri = spike_profile_py ROps t1 t2 ts te m ri.
Proof.
  intros. unfold spike_profile_py, spike_profile_gen.
  rewrite (Nat.add_comm (length t2) (length t1)).
  rewrite spike_loop_sym, spike_final_sym.
  destruct (spike_final ROps (length t1 + length t2) te m ri (t_aux_py ROps ts te t1)
              (t_aux_py ROps ts te t2) (spike_init ROps ts te t1 t2 (t_aux_py ROps ts te t1) (t_aux_py ROps ts te t2))
              (spike_init ROps ts te t2 t1 (t_aux_py ROps ts te t2) (t_aux_py ROps ts te t1))) as [af bf].
  cbn [fst snd].
  rewrite (dist_at_t_sym (s_isi bf)). 
  rewrite (dist_at_t_sym (s_isi (spike_init ROps ts te t2 t1 (t_aux_py ROps ts te t2) (t_aux_py ROps ts te t1)))).
  reflexivity.
Qed.

(* ------------------------------------------------------------------ *)
(* 1. auxiliary spikes and edge ISIs                                    *)

Lemma rev_two : forall (x0 x1 : R) r, exists a b l, rev (x0 :: x1 :: r) = a :: b :: l.
Proof.
  intros. destruct (rev (x0 :: x1 :: r)) as [|a [|b l]] eqn:E;
    apply (f_equal (@length R)) in E; rewrite rev_length in E; cbn [length] in E; try lia; eauto.
Qed.

Lemma aux_fst_isi : forall ts te y f',
  fst (aux_of ROps ts te (y :: f')) =
  y - match f' with y2 :: _ => Rmax (y - ts) (y2 - y) | [] => y - ts end.
Proof.
  intros ts te y [|y2 r]; [cbn [aux_of fst]; lra|].
  destruct (rev_two y y2 r) as (a & b & l & E). unfold aux_of. rewrite E. cbn [fst]. rops.
  rmm; lra.
Qed.

Lemma aux_snd_isi : forall ts te u x past, rev u = x :: past ->
  snd (aux_of ROps ts te u) =
  x + match past with p0 :: _ => Rmax (te - x) (x - p0) | [] => te - x end.
Proof.
  intros ts te u x past E. destruct u as [|x0 [|x1 r]].
  - discriminate.
  - cbn in E. injection E as <- <-. cbn [aux_of snd]. lra.
  - unfold aux_of. rewrite E. destruct past as [|p0 past'].
    + apply (f_equal (@length R)) in E. rewrite rev_length in E. cbn [length] in E. lia.
    + cbn [snd]. rops. rmm; lra.
Qed.

Lemma nu_after_pos : forall te x past f', x < te -> Forall (fun z => x < z) f' ->
  (forall p0, In p0 past -> p0 < x) -> 0 < nu_after ROps te (x :: past) f'.
Proof.
  intros te x past f' H F P. unfold nu_after. destruct f' as [|y f''].
  - destruct past as [|p0 past']; rops; [lra|]. apply Rlt_le_trans with (te - x); [lra|apply Rmax_l].
  - inversion F; subst. rops. lra.
Qed.

(* ------------------------------------------------------------------ *)
(* 2. the per-train invariant                                           *)

Section Train.
  Variables ts te : R.
  Variables u w : list R.
  Hypothesis Vu : valid ts te u.
  Hypothesis Vw : valid ts te w.
  Hypothesis Nu : u <> [].
  Let auxu := aux_of ROps ts te u.
  Let auxw := aux_of ROps ts te w.

  Definition sinv (c : R) (a : sstR) : Prop :=
    tinv ts te u c (s_past a) (s_fut a) (s_isi a) /\
    s_tp a = match s_past a with x :: _ => x | [] => fst auxu end /\
    s_tf a = match s_fut a with y :: _ => y | [] => snd auxu end /\
    s_dtp a = nearest ROps auxw w (match s_past a with x :: _ => x | [] => s_tf a end) /\
    s_dtf a = nearest ROps auxw w (match s_fut a with y :: _ => y | [] => s_tp a end) /\
    s_isi a = s_tf a - s_tp a /\ (c < te -> 0 < s_isi a).

  Lemma gmd_all : forall x, get_min_dist ROps x w (fst auxw) (snd auxw) = nearest ROps auxw w x.
  Proof.
    intros x. transitivity (nearest ROps (fst auxw, snd auxw) w x);
      [|rewrite <- surjective_pairing; reflexivity].
    destruct (aux_bounds Vw) as (H0 & H1 & HF). destruct Vw as (Hlt & Sw & _).
    apply get_min_dist_nearest; auto. unfold auxw. lra.
  Qed.

  Lemma gmd_cursor : forall pb fb c y, w = rev pb ++ fb -> lo pb c -> c <= y ->
    get_min_dist ROps y (from_cursor pb fb) (fst auxw) (snd auxw) = nearest ROps auxw w y.
  Proof.
    intros pb fb c y E L Hy. transitivity (nearest ROps (fst auxw, snd auxw) w y);
      [|rewrite <- surjective_pairing; reflexivity].
    destruct (aux_bounds Vw) as (H0 & H1 & HF). destruct Vw as (Hlt & Sw & _).
    rewrite E in HF, Sw |- *.
    apply get_min_dist_from_cursor; auto.
    - unfold auxw. lra.
    - intros p Hp. destruct pb as [|p' pb']; cbn in Hp; [discriminate|]. injection Hp as ->.
      cbn [lo] in L. lra.
  Qed.

  Lemma sinv_mk : forall c past x fA' nu tfA dtp dtf isi s,
    tinv ts te u c past (x :: fA') nu ->
    tfA = match fA' with y :: _ => y | [] => snd auxu end ->
    dtp = nearest ROps auxw w x ->
    dtf = nearest ROps auxw w (match fA' with y :: _ => y | [] => x end) ->
    isi = nu_after ROps te (x :: past) fA' ->
    sinv x (mkSst (x :: past) fA' x tfA dtp dtf isi s).
  Proof.
    intros c past x fA' nu tfA dtp dtf isi s T Htf Hdtp Hdtf Hisi.
    pose proof (tinv_adv T) as T'. rewrite <- Hisi in T'.
    unfold sinv. cbn [s_past s_fut s_tp s_tf s_dtp s_dtf s_isi].
    split; [exact T'|]. split; [reflexivity|]. split; [exact Htf|]. split; [exact Hdtp|].
    split; [exact Hdtf|].
    destruct T' as (E & S & Ff & L & N).
    split.
    - rewrite Hisi, Htf. unfold nu_after. destruct fA' as [|y fA'']; [|reflexivity].
      assert (R : rev u = x :: past).
      { rewrite E, app_nil_r. apply rev_involutive. }
      unfold auxu. rewrite (aux_snd_isi ts te u R). destruct past; rops; lra.
    - intros Hx. rewrite Hisi. apply nu_after_pos; auto.
      + eapply Forall_impl; [|apply Ff]. cbn; intros; lra.
      + intros p0 Hp0. rewrite E in S. cbn [rev] in S. rewrite <- app_assoc in S. cbn [app] in S.
        apply ssorted_mid in S as (_ & _ & H & _). apply H. apply in_rev in Hp0. exact Hp0.
  Qed.

  (* the invariant does not read the cached value s_s and is stable when the
     clock moves on without passing a spike of the train *)
  Lemma sinv_keep : forall c a x s, sinv c a -> c <= x -> hi (s_fut a) x ->
    sinv x (mkSst (s_past a) (s_fut a) (s_tp a) (s_tf a) (s_dtp a) (s_dtf a) (s_isi a) s).
  Proof.
    intros c a x s (T & H1 & H2 & H3 & H4 & H5 & H6) Hc Hh.
    unfold sinv. cbn [s_past s_fut s_tp s_tf s_dtp s_dtf s_isi].
    repeat split; auto.
    - apply (tinv_keep T); auto.
    - intros; apply H6; lra.
  Qed.

  Lemma sinv_dt_end : forall c a, sinv c a -> s_fut a = [] -> s_dtp a = s_dtf a.
  Proof.
    intros c a (T & H1 & H2 & H3 & H4 & H5 & H6) E. rewrite H3, H4, E.
    destruct (s_past a) as [|x p] eqn:Ep; [|rewrite H1; reflexivity].
    exfalso. apply Nu. destruct T as (Eu & _). rewrite Eu, Ep, E. reflexivity.
  Qed.

  Lemma sinv_dt_start : forall c a, sinv c a -> s_past a = [] -> s_dtp a = s_dtf a.
  Proof.
    intros c a (T & H1 & H2 & H3 & H4 & H5 & H6) E. rewrite H3, H4, E.
    destruct (s_fut a) as [|y f] eqn:Ef; [|rewrite H2; reflexivity].
    exfalso. apply Nu. destruct T as (Eu & _). rewrite Eu, E, Ef. reflexivity.
  Qed.

  Lemma val_const : forall c a t, sinv c a -> c < te -> s_dtp a = s_dtf a -> val a t = s_dtf a.
  Proof.
    intros c a t (T & H1 & H2 & H3 & H4 & H5 & H6) Hc E. specialize (H6 Hc).
    unfold val. rewrite E, H5 in *. field. lra.
  Qed.

  Lemma val_at_tp : forall c a, sinv c a -> c < te -> val a (s_tp a) = s_dtp a.
  Proof.
    intros c a (T & H1 & H2 & H3 & H4 & H5 & H6) Hc. specialize (H6 Hc).
    unfold val. rewrite H5 in *. field. lra.
  Qed.

  Lemma val_at_tf : forall a, val a (s_tf a) = send a.
  Proof. intros a. unfold val, send, Rdiv. ring. Qed.

  Lemma val_at_tf' : forall c a, sinv c a -> c < te -> val a (s_tf a) = s_dtf a.
  Proof.
    intros c a (T & H1 & H2 & H3 & H4 & H5 & H6) Hc. specialize (H6 Hc).
    unfold val. rewrite H5 in *. field. lra.
  Qed.

  (* the declarative contribution of the train on the current piece *)
  Lemma contrib_cursor : forall c a tm t, sinv c a -> c < te -> c < tm -> hi (s_fut a) tm ->
    contrib ROps ts te u w tm t = (val a t, s_isi a).
  Proof.
    intros c a tm t Hs Hc Hm Hh.
    pose proof Hs as (T & H1 & H2 & H3 & H4 & H5 & H6). specialize (H6 Hc).
    unfold contrib. fold auxw. rewrite (tinv_val T) by auto.
    destruct T as (E & S & Ff & L & N).
    assert (L' : lo (s_past a) tm) by (destruct (s_past a); cbn [lo] in *; auto; lra).
    assert (P : Forall (fun x => x <= tm) (s_past a)).
    { rewrite E in S. eapply past_le; eauto. }
    assert (Hp : prev_of ROps tm u None = match s_past a with x :: _ => Some x | [] => None end).
    { rewrite E, prev_rev, prev_hi by auto. reflexivity. }
    assert (Hn : next_of ROps tm u = match s_fut a with y :: _ => Some y | [] => None end).
    { rewrite E, next_rev, next_hi by auto. reflexivity. }
    rewrite Hp, Hn.
    destruct (s_past a) as [|x p] eqn:Ep, (s_fut a) as [|y f] eqn:Ef.
    - exfalso. apply Nu. rewrite E. reflexivity.
    - f_equal. rewrite <- H4. symmetry. apply (val_const t Hs Hc). apply (sinv_dt_start Hs Ep).
    - f_equal. rewrite <- H3. rewrite (val_const t Hs Hc); apply (sinv_dt_end Hs Ef).
    - f_equal. unfold val. rewrite <- H3, <- H4. rewrite H5 in *. rewrite H1, H2 in *.
      cbn [nadd nsub nmul ndiv ROps]. reflexivity.
  Qed.
End Train.
