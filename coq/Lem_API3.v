(* Lem_API3.v — C08 at API level for the remaining scalar entry points:
   SPIKE-Sync value, spike train order and spike directionality under a shift and a
   positive rescaling of the time axis (whole recording and sub-intervals, both
   backends), and all five scalars under the time reversal about the recording.
   R instance. *)
From Coq Require Import List Bool Arith ZArith Reals Lra Lia Sorted Permutation.
Import ListNotations.
From PS Require Import Num RLemmas Valid ModelKernels ModelFuncs ModelAPI Spec SyncDefs.
From PS Require Import Lem_API Lem_API2.
From PS Require Lem_Lists Lem_Isi Lem_Order Lem_Sync Lem_WF Lem_OrderSpec Lem_Transform Lem_Transform2.
Local Open Scope R_scope.
Import Lem_Transform.

Local Notation trainR := (@train R).

(* ------------------------------------------------------------------ *)
(* 0. small list facts                                                  *)

Lemma tl_map' {A B} (g : A -> B) l : tl (map g l) = map g (tl l).
Proof. destruct l; reflexivity. Qed.

Lemma removelast_map' {A B} (g : A -> B) l : removelast (map g l) = map g (removelast l).
Proof.
  induction l as [|a l IH]; [reflexivity|].
  destruct l as [|b l]; [reflexivity|].
  change (map g (a :: b :: l)) with (g a :: map g (b :: l)).
  change (removelast (a :: b :: l)) with (a :: removelast (b :: l)).
  cbn [map] in *. rewrite <- IH. reflexivity.
Qed.

Lemma removelast_rev' {A} (l : list A) : removelast (rev l) = rev (tl l).
Proof. destruct l as [|a l]; [reflexivity|]. cbn [rev tl]. apply removelast_last. Qed.

Lemma tl_rev' {A} (l : list A) : tl (rev l) = rev (removelast l).
Proof.
  rewrite <- (rev_involutive l) at 2. rewrite removelast_rev', rev_involutive. reflexivity.
Qed.

Lemma tl_removelast {A} (l : list A) : tl (removelast l) = removelast (tl l).
Proof. destruct l as [|a [|b l]]; reflexivity. Qed.

Lemma interior_rev {A} (l : list A) : removelast (tl (rev l)) = rev (removelast (tl l)).
Proof. rewrite tl_rev', removelast_rev', tl_removelast. reflexivity. Qed.

Lemma filter_map_g {A B} (g : A -> B) (q : A -> bool) (q' : B -> bool) l :
  (forall x, q' (g x) = q x) -> filter q' (map g l) = map g (filter q l).
Proof.
  intros E. induction l as [|a l IH]; [reflexivity|].
  cbn [map filter]. rewrite E. destruct (q a); cbn [map]; rewrite IH; reflexivity.
Qed.

Lemma filter_rev' {A} (q : A -> bool) l : filter q (rev l) = rev (filter q l).
Proof.
  induction l as [|a l IH]; [reflexivity|].
  cbn [rev filter]. rewrite filter_app, IH. cbn [filter].
  destruct (q a); cbn [rev]; [reflexivity | apply app_nil_r].
Qed.

Lemma sumF_map_opp l : sumF ROps (map Ropp l) = - sumF ROps l.
Proof.
  induction l as [|x l IH]; cbn [map]; rewrite ?Lem_Order.sumF_cons, ?Lem_Order.sumF_nil; [lra|].
  rewrite IH. lra.
Qed.

(* ------------------------------------------------------------------ *)
(* 1. the sums over a discrete profile under a monotone map of the time axis *)

Lemma df_sum_map_t (g : R -> R) l : df_sum ROps (map (map_t g) l) = df_sum ROps l.
Proof. unfold df_sum. rewrite !map_map. reflexivity. Qed.

Lemma df_integral1_map (g : R -> R) f iv : (forall a b, Rltb (g a) (g b) = Rltb a b) ->
  df_integral1 ROps (map (map_t g) f) (option_map (fun p => (g (fst p), g (snd p))) iv)
  = df_integral1 ROps f iv.
Proof.
  intros Hlt. destruct iv as [[a b]|]; cbn [option_map fst snd df_integral1].
  - cbv zeta.
    assert (EX : map (@d_x R) (map (map_t g) f) = map g (map (@d_x R) f)).
    { rewrite !map_map. reflexivity. }
    rewrite EX. unfold count_le, count_lt.
    rewrite (filter_map_g g (fun x => nleb ROps x a) (fun x => nleb ROps x (g a))).
    2:{ intros x. rewrite !R_nleb, Hlt. reflexivity. }
    rewrite (filter_map_g g (fun x => nltb ROps x b) (fun x => nltb ROps x (g b))).
    2:{ intros x. cbn [nltb ROps]. apply Hlt. }
    rewrite !map_length.
    destruct (negb _); [reflexivity|]. f_equal.
    unfold slice. rewrite skipn_map, firstn_map. apply df_sum_map_t.
  - f_equal. rewrite tl_map', removelast_map'. apply df_sum_map_t.
Qed.

Lemma df_integral_iv_of (f : list (R * R * R)) iv : df_integral ROps f (iv_of iv) = df_integral1 ROps f iv.
Proof. destruct iv as [[x y]|]; reflexivity. Qed.

Lemma shift_iv_map c iv : shift_iv c iv = option_map (fun p => (sh c (fst p), sh c (snd p))) iv.
Proof. destruct iv as [[x y]|]; reflexivity. Qed.
Lemma scale_iv_map k iv : scale_iv k iv = option_map (fun p => (sc k (fst p), sc k (snd p))) iv.
Proof. destruct iv as [[x y]|]; reflexivity. Qed.

(* ------------------------------------------------------------------ *)
(* 2. SPIKE-Sync value: shift and scale                                 *)

Theorem sync_value_shift : forall eps cy mt m iv c a b ts te,
  vtrain ts te a -> vtrain ts te b -> iv_ok ts te iv ->
  spike_sync_bi ROps eps cy false mt m (shift_iv c iv) (shift_train c a) (shift_train c b)
  = spike_sync_bi ROps eps cy false mt m iv a b.
Proof.
  intros eps cy mt m iv c a b ts te Va Vb _.
  rewrite (sync_value_convention eps cy mt m (shift_iv c iv)
             (vtrain_shift c ts te a Va) (vtrain_shift c ts te b Vb)).
  rewrite (sync_value_convention eps cy mt m iv Va Vb). f_equal.
  unfold spike_sync_profile_bi. rewrite !prep2_false, !gt_of_eq.
  change (tr_spikes (shift_train c a)) with (map (sh c) (tr_spikes a)).
  change (tr_spikes (shift_train c b)) with (map (sh c) (tr_spikes b)).
  change (tr_start (shift_train c a)) with (tr_start a + c).
  change (tr_end (shift_train c a)) with (tr_end a + c).
  rewrite sync_profile_shift, !df_integral_iv_of, shift_iv_map.
  apply (df_integral1_map (sh c)). intros x y. apply Rltb_shift.
Qed.

Theorem sync_value_scale : forall eps cy mt m iv k a b ts te, 0 < k ->
  vtrain ts te a -> vtrain ts te b -> iv_ok ts te iv ->
  spike_sync_bi ROps eps cy false (k * mt) (k * m) (scale_iv k iv) (scale_train k a) (scale_train k b)
  = spike_sync_bi ROps eps cy false mt m iv a b.
Proof.
  intros eps cy mt m iv k a b ts te Hk Va Vb _.
  rewrite (sync_value_convention eps cy (k * mt) (k * m) (scale_iv k iv)
             (vtrain_scale k ts te a Hk Va) (vtrain_scale k ts te b Hk Vb)).
  rewrite (sync_value_convention eps cy mt m iv Va Vb). f_equal.
  unfold spike_sync_profile_bi. rewrite !prep2_false, !gt_of_eq.
  change (tr_spikes (scale_train k a)) with (map (sc k) (tr_spikes a)).
  change (tr_spikes (scale_train k b)) with (map (sc k) (tr_spikes b)).
  change (tr_start (scale_train k a)) with (k * tr_start a).
  change (tr_end (scale_train k a)) with (k * tr_end a).
  rewrite sync_profile_scale by exact Hk. rewrite !df_integral_iv_of, scale_iv_map.
  apply (df_integral1_map (sc k)). intros x y. apply Rltb_scale; exact Hk.
Qed.

(* ------------------------------------------------------------------ *)
(* 3. closed forms of spike directionality and spike train order        *)

Import Lem_OrderSpec.

(* the final step of spike_directionality *)
Definition dir_fin (nrm : bool) (n : nat) (d : R) : R :=
  if nrm then (if Reqb (nofnat ROps n) 0 then 0 else d / nofnat ROps n) else d.

(* the final step of spike_train_order *)
Definition ord_fin (nrm : bool) (cm : R * R) : R :=
  if nrm then (if Reqb (snd cm) 0 then 1 else fst cm / snd cm) else fst cm.

Lemma directionality_value eps cy nrm mt m (a b : trainR) ts te :
  vtrain ts te a -> vtrain ts te b ->
  spike_directionality ROps eps cy false nrm mt m a b
  = Ok (dir_fin nrm (length (tr_spikes a)) (os_D mt m a b)).
Proof.
  intros (V1 & Hs & He) (V2 & _ & _).
  unfold spike_directionality, prep2, os_D, dir_fin. cbv iota beta zeta.
  rewrite Hs, He. destruct cy.
  - rewrite os_scan_cy. rewrite Lem_Order.dir_value_fusion by (apply Lem_Sync.scan_clean; assumption).
    reflexivity.
  - reflexivity.
Qed.

Lemma order_value_cy eps nrm mt m (a b : trainR) ts te :
  vtrain ts te a -> vtrain ts te b ->
  spike_train_order_bi ROps eps true false nrm mt m a b
  = Ok (ord_fin nrm (2 * os_D mt m a b,
                     INR (length (tr_spikes a)) + INR (length (tr_spikes b)))).
Proof.
  destruct a as [[s1 ts1] te1], b as [[s2 ts2] te2].
  intros (V1 & Hs1 & He1) (V2 & Hs2 & He2).
  unfold tr_spikes, tr_start, tr_end in *. cbn [fst snd] in *. subst ts1 te1 ts2 te2.
  unfold spike_train_order_bi. rewrite prep2_false.
  rewrite (os_order_impl_value eps true mt m ts te s1 s2 ltac:(discriminate) V1 V2).
  reflexivity.
Qed.

(* what the reconcile step of the fall-back path of spike_train_order does to a valid
   train: it keeps the spikes inside the open window (ts - eps, te + eps) *)
Definition rcn (eps : R) (t : trainR) : trainR :=
  (filter (Lem_Lists.window eps (tr_start t) (tr_end t)) (tr_spikes t), tr_start t, tr_end t).

Lemma valid_filter (q : R -> bool) ts te s : valid ts te s -> valid ts te (filter q s).
Proof.
  intros (Hlt & S & F). split; [exact Hlt|]. split; [apply Lem_Lists.ssorted_filter; exact S|].
  rewrite Forall_forall in *. intros x Hx. apply filter_In in Hx as [Hx _]. apply F; exact Hx.
Qed.

Lemma vtrain_rcn eps ts te t : vtrain ts te t -> vtrain ts te (rcn eps t).
Proof.
  intros (V & Hs & He). unfold vtrain, rcn. cbn [tr_spikes tr_start tr_end fst snd].
  fold (tr_spikes t) (tr_start t) (tr_end t).
  split; [apply valid_filter; exact V | split; assumption].
Qed.

Lemma rcn_id eps ts te t : 0 < eps -> vtrain ts te t -> rcn eps t = t.
Proof.
  intros He ((_ & _ & F) & Hs & Hee). destruct t as [[s a] b].
  unfold rcn, tr_spikes, tr_start, tr_end in *. cbn [fst snd] in *. subst a b.
  f_equal. f_equal. apply Lem_Lists.filter_all. intros x Hx.
  rewrite Forall_forall in F. specialize (F _ Hx). apply Lem_Lists.window_true. lra.
Qed.

Lemma prep2_true_rcn eps ts te (a b : trainR) : vtrain ts te a -> vtrain ts te b ->
  prep2 ROps eps true a b = (rcn eps a, rcn eps b).
Proof.
  intros ((_ & S1 & _) & Hs1 & He1) ((_ & S2 & _) & Hs2 & He2).
  unfold prep2. rewrite Lem_Lists.reconcile_unfold.
  rewrite (Lem_Lists.common_start_const [a; b] ts), (Lem_Lists.common_end_const [a; b] te);
    try discriminate;
    try (intros t [<-|[<-|[]]]; assumption).
  cbn [map]. unfold Lem_Lists.recon1, rcn.
  rewrite !Lem_Lists.sort_unique_id by assumption.
  rewrite Hs1, He1, Hs2, He2. reflexivity.
Qed.

(* the fall-back path is the compiled path on the reconciled trains *)
Lemma order_impl_py_rcn eps mt m ts te (a b : trainR) : vtrain ts te a -> vtrain ts te b ->
  order_impl ROps eps false mt m a b = order_impl ROps eps true mt m (rcn eps a) (rcn eps b).
Proof.
  intros Va Vb.
  pose proof (vtrain_rcn eps ts te a Va) as (V1 & Hs1 & He1).
  pose proof (vtrain_rcn eps ts te b Vb) as (V2 & Hs2 & He2).
  unfold order_impl, order_profile_bi. rewrite (prep2_true_rcn eps ts te a b Va Vb).
  rewrite Hs1, He1, Hs2, He2. cbn [neqb ROps]. rewrite !Lem_WF.Reqb_refl.
  cbn [negb orb rbind]. rewrite os_df_integral_none.
  change (gt_of ROps false) with (get_tau ROps).
  rewrite <- (order_value_is_profile_sum _ _ ts te mt m V1 V2).
  rewrite os_scan_cy. cbn [n0 ROps].
  destruct (order_value ROps _ 0 0) as [c mp]. reflexivity.
Qed.

Definition rcn_if (cy : bool) (eps : R) (t : trainR) : trainR := if cy then t else rcn eps t.

Lemma vtrain_rcn_if cy eps ts te t : vtrain ts te t -> vtrain ts te (rcn_if cy eps t).
Proof. destruct cy; [auto | apply vtrain_rcn]. Qed.

(* value of spike_train_order on every code path *)
Lemma order_value_any eps cy nrm mt m (a b : trainR) ts te :
  vtrain ts te a -> vtrain ts te b ->
  spike_train_order_bi ROps eps cy false nrm mt m a b
  = Ok (ord_fin nrm (2 * os_D mt m (rcn_if cy eps a) (rcn_if cy eps b),
                     INR (length (tr_spikes (rcn_if cy eps a)))
                     + INR (length (tr_spikes (rcn_if cy eps b))))).
Proof.
  intros Va Vb.
  rewrite <- (order_value_cy eps nrm mt m _ _ ts te
               (vtrain_rcn_if cy eps ts te a Va) (vtrain_rcn_if cy eps ts te b Vb)).
  destruct cy; [reflexivity|].
  unfold spike_train_order_bi. rewrite !prep2_false.
  rewrite (order_impl_py_rcn eps mt m ts te a b Va Vb). reflexivity.
Qed.

(* ------------------------------------------------------------------ *)
(* 4. spike train order and spike directionality: shift and scale       *)

Lemma os_D_shift c mt m (a b : trainR) : os_D mt m (shift_train c a) (shift_train c b) = os_D mt m a b.
Proof.
  unfold os_D.
  change (tr_spikes (shift_train c a)) with (map (sh c) (tr_spikes a)).
  change (tr_spikes (shift_train c b)) with (map (sh c) (tr_spikes b)).
  change (tr_start (shift_train c a)) with (tr_start a + c).
  change (tr_end (shift_train c a)) with (tr_end a + c).
  rewrite dir_profile_shift. reflexivity.
Qed.

Lemma os_D_scale k mt m (a b : trainR) : 0 < k ->
  os_D (k * mt) (k * m) (scale_train k a) (scale_train k b) = os_D mt m a b.
Proof.
  intros Hk. unfold os_D.
  change (tr_spikes (scale_train k a)) with (map (sc k) (tr_spikes a)).
  change (tr_spikes (scale_train k b)) with (map (sc k) (tr_spikes b)).
  change (tr_start (scale_train k a)) with (k * tr_start a).
  change (tr_end (scale_train k a)) with (k * tr_end a).
  rewrite dir_profile_scale by exact Hk. reflexivity.
Qed.

Lemma len_shift c (t : trainR) : length (tr_spikes (shift_train c t)) = length (tr_spikes t).
Proof. apply map_length. Qed.
Lemma len_scale k (t : trainR) : length (tr_spikes (scale_train k t)) = length (tr_spikes t).
Proof. apply map_length. Qed.

Theorem directionality_shift : forall eps cy nrm mt m c a b ts te, vtrain ts te a -> vtrain ts te b ->
  spike_directionality ROps eps cy false nrm mt m (shift_train c a) (shift_train c b)
  = spike_directionality ROps eps cy false nrm mt m a b.
Proof.
  intros eps cy nrm mt m c a b ts te Va Vb.
  rewrite (directionality_value eps cy nrm mt m _ _ (ts + c) (te + c)
             (vtrain_shift c ts te a Va) (vtrain_shift c ts te b Vb)).
  rewrite (directionality_value eps cy nrm mt m a b ts te Va Vb).
  rewrite os_D_shift, len_shift. reflexivity.
Qed.

Theorem directionality_scale : forall eps cy nrm mt m k a b ts te, 0 < k ->
  vtrain ts te a -> vtrain ts te b ->
  spike_directionality ROps eps cy false nrm (k * mt) (k * m) (scale_train k a) (scale_train k b)
  = spike_directionality ROps eps cy false nrm mt m a b.
Proof.
  intros eps cy nrm mt m k a b ts te Hk Va Vb.
  rewrite (directionality_value eps cy nrm (k * mt) (k * m) _ _ (k * ts) (k * te)
             (vtrain_scale k ts te a Hk Va) (vtrain_scale k ts te b Hk Vb)).
  rewrite (directionality_value eps cy nrm mt m a b ts te Va Vb).
  rewrite (os_D_scale k mt m a b Hk), len_scale. reflexivity.
Qed.

(* the reconcile window moves with the recording *)
Lemma rcn_shift eps c (t : trainR) : rcn eps (shift_train c t) = shift_train c (rcn eps t).
Proof.
  unfold rcn, shift_train. cbn [tr_spikes tr_start tr_end fst snd].
  fold (tr_spikes t) (tr_start t) (tr_end t). f_equal. f_equal.
  apply filter_map_g. intros x. unfold Lem_Lists.window, sh.
  replace (tr_start t + c - eps) with (tr_start t - eps + c) by lra.
  replace (tr_end t + c + eps) with (tr_end t + eps + c) by lra.
  rewrite !Rltb_shift. reflexivity.
Qed.

Lemma rcn_if_shift cy eps c (t : trainR) : rcn_if cy eps (shift_train c t) = shift_train c (rcn_if cy eps t).
Proof. destruct cy; [reflexivity | apply rcn_shift]. Qed.

(* holds for every eps and both backends *)
Theorem order_value_shift : forall eps cy nrm mt m c a b ts te, vtrain ts te a -> vtrain ts te b ->
  spike_train_order_bi ROps eps cy false nrm mt m (shift_train c a) (shift_train c b)
  = spike_train_order_bi ROps eps cy false nrm mt m a b.
Proof.
  intros eps cy nrm mt m c a b ts te Va Vb.
  rewrite (order_value_any eps cy nrm mt m _ _ (ts + c) (te + c)
             (vtrain_shift c ts te a Va) (vtrain_shift c ts te b Vb)).
  rewrite (order_value_any eps cy nrm mt m a b ts te Va Vb).
  rewrite !rcn_if_shift, os_D_shift, !len_shift. reflexivity.
Qed.

(* with a window of width eps = 0 the reconcile step commutes with the scaling; for
   eps > 0 it is the identity on valid trains; for eps < 0 see the counterexample below *)
Lemma rcn0_scale k (t : trainR) : 0 < k -> rcn 0 (scale_train k t) = scale_train k (rcn 0 t).
Proof.
  intros Hk. unfold rcn, scale_train. cbn [tr_spikes tr_start tr_end fst snd].
  fold (tr_spikes t) (tr_start t) (tr_end t). f_equal. f_equal.
  apply filter_map_g. intros x. unfold Lem_Lists.window, sc.
  replace (k * tr_start t - 0) with (k * (tr_start t - 0)) by lra.
  replace (k * tr_end t + 0) with (k * (tr_end t + 0)) by lra.
  rewrite !Rltb_scale by exact Hk. reflexivity.
Qed.

Lemma rcn_if_scale cy eps k ts te (t : trainR) : 0 < k -> cy = true \/ 0 <= eps -> vtrain ts te t ->
  rcn_if cy eps (scale_train k t) = scale_train k (rcn_if cy eps t).
Proof.
  intros Hk H V. destruct cy; [reflexivity|]. destruct H as [H|H]; [discriminate|].
  unfold rcn_if. destruct H as [H|<-].
  - rewrite (rcn_id eps (k * ts) (k * te) _ H (vtrain_scale k ts te t Hk V)).
    rewrite (rcn_id eps ts te t H V). reflexivity.
  - apply rcn0_scale; exact Hk.
Qed.

(* the fall-back path reconciles with the absolute tolerance eps, which is not scaled:
   the statement needs eps >= 0 there (eps = 1e-6 in the library) *)
Theorem order_value_scale : forall eps cy nrm mt m k a b ts te, 0 < k -> cy = true \/ 0 <= eps ->
  vtrain ts te a -> vtrain ts te b ->
  spike_train_order_bi ROps eps cy false nrm (k * mt) (k * m) (scale_train k a) (scale_train k b)
  = spike_train_order_bi ROps eps cy false nrm mt m a b.
Proof.
  intros eps cy nrm mt m k a b ts te Hk He Va Vb.
  rewrite (order_value_any eps cy nrm (k * mt) (k * m) _ _ (k * ts) (k * te)
             (vtrain_scale k ts te a Hk Va) (vtrain_scale k ts te b Hk Vb)).
  rewrite (order_value_any eps cy nrm mt m a b ts te Va Vb).
  rewrite (rcn_if_scale cy eps k ts te a Hk He Va), (rcn_if_scale cy eps k ts te b Hk He Vb).
  rewrite (os_D_scale k mt m _ _ Hk), !len_scale. reflexivity.
Qed.

(* ------------------------------------------------------------------ *)
(* 5. time reversal about the recording                                 *)

Definition mirror_tr (t : trainR) : trainR :=
  (mirror_train (tr_start t) (tr_end t) (tr_spikes t), tr_start t, tr_end t).

Lemma mirror_tr_eq ts te (t : trainR) : vtrain ts te t ->
  mirror_tr t = (mirror_train ts te (tr_spikes t), ts, te).
Proof. intros (_ & Hs & He). unfold mirror_tr. rewrite Hs, He. reflexivity. Qed.

Lemma vtrain_mirror ts te (t : trainR) : vtrain ts te t -> vtrain ts te (mirror_tr t).
Proof.
  intros V. rewrite (mirror_tr_eq ts te t V). destruct V as (V & _ & _).
  split; [apply Lem_Transform2.valid_mirror; exact V | split; reflexivity].
Qed.

Lemma spikes_mirror ts te (t : trainR) : vtrain ts te t ->
  tr_spikes (mirror_tr t) = mirror_train ts te (tr_spikes t).
Proof. intros V. rewrite (mirror_tr_eq ts te t V). reflexivity. Qed.

Lemma len_mirror (t : trainR) : length (tr_spikes (mirror_tr t)) = length (tr_spikes t).
Proof.
  unfold mirror_tr, mirror_train. cbn [tr_spikes fst]. rewrite rev_length, map_length. reflexivity.
Qed.

Lemma sne_mirror ts te (t : trainR) : vtrain ts te t ->
  spikes_non_empty ROps (mirror_tr t) = eff ts te (mirror_train ts te (tr_spikes t)).
Proof.
  intros V. rewrite (spikes_non_empty_eff (vtrain_mirror ts te t V)), (spikes_mirror ts te t V).
  reflexivity.
Qed.

Theorem isi_distance_mirror : forall eps cy m a b ts te, vtrain ts te a -> vtrain ts te b ->
  isi_distance_bi ROps eps cy false m None (mirror_tr a) (mirror_tr b)
  = isi_distance_bi ROps eps cy false m None a b.
Proof.
  intros eps cy m a b ts te Va Vb.
  rewrite (isi_distance_none_value eps cy m (vtrain_mirror ts te a Va) (vtrain_mirror ts te b Vb)).
  rewrite (isi_distance_none_value eps cy m Va Vb). cbv zeta.
  rewrite (sne_mirror ts te a Va), (sne_mirror ts te b Vb).
  rewrite (spikes_non_empty_eff Va), (spikes_non_empty_eff Vb).
  pose proof Va as (V1 & _ & _). pose proof Vb as (V2 & _ & _).
  pose proof (Lem_Transform2.isi_integral_mirror _ _ ts te m V1 V2) as E. cbv zeta in E.
  rewrite E. reflexivity.
Qed.

Theorem spike_distance_mirror : forall eps cy m ri a b ts te, vtrain ts te a -> vtrain ts te b ->
  spike_distance_bi ROps eps cy false m ri None (mirror_tr a) (mirror_tr b)
  = spike_distance_bi ROps eps cy false m ri None a b.
Proof.
  intros eps cy m ri a b ts te Va Vb.
  rewrite (spike_distance_none_value eps cy m ri ts te _ _
             (vtrain_mirror ts te a Va) (vtrain_mirror ts te b Vb)).
  rewrite (spike_distance_none_value eps cy m ri ts te a b Va Vb). cbv zeta.
  rewrite (spikes_mirror ts te a Va), (spikes_mirror ts te b Vb).
  pose proof Va as (V1 & _ & _). pose proof Vb as (V2 & _ & _).
  pose proof (Lem_Transform2.spike_integral_mirror _ _ ts te m ri V1 V2) as E. cbv zeta in E.
  rewrite E. reflexivity.
Qed.

(* the sums over the interior of a discrete profile do not see the reversal *)
Lemma df_sum_rev (l : list (R * R * R)) : df_sum ROps (rev l) = df_sum ROps l.
Proof. unfold df_sum. rewrite !map_rev, !Lem_Order.sumF_rev. reflexivity. Qed.

Lemma df_integral_none_mirror ts te (f : list (R * R * R)) :
  df_integral ROps (rev (map (fun e => (mir ts te (e_t e), e_y e, e_mp e)) f)) (@IvNone R)
  = df_integral ROps f (@IvNone R).
Proof.
  cbn [df_integral df_integral1]. f_equal.
  rewrite interior_rev, df_sum_rev, tl_map', removelast_map'.
  apply (df_sum_map_t (mir ts te)).
Qed.

Theorem sync_value_mirror : forall eps cy mt m a b ts te, vtrain ts te a -> vtrain ts te b ->
  spike_sync_bi ROps eps cy false mt m None (mirror_tr a) (mirror_tr b)
  = spike_sync_bi ROps eps cy false mt m None a b.
Proof.
  intros eps cy mt m a b ts te Va Vb.
  rewrite (sync_value_convention eps cy mt m None (vtrain_mirror ts te a Va) (vtrain_mirror ts te b Vb)).
  rewrite (sync_value_convention eps cy mt m None Va Vb). f_equal.
  unfold spike_sync_profile_bi. rewrite !prep2_false, !gt_of_eq.
  rewrite (spikes_mirror ts te a Va), (spikes_mirror ts te b Vb).
  pose proof (vtrain_mirror ts te a Va) as (_ & Hs' & He'). rewrite Hs', He'.
  pose proof Va as (V1 & Hs & He). pose proof Vb as (V2 & _ & _). rewrite Hs, He.
  rewrite (Lem_Transform2.sync_profile_mirror _ _ ts te mt m V1 V2).
  apply df_integral_none_mirror.
Qed.

(* the un-normalised directionality changes sign *)
Lemma os_D_mirror mt m ts te (a b : trainR) : vtrain ts te a -> vtrain ts te b ->
  os_D mt m (mirror_tr a) (mirror_tr b) = - os_D mt m a b.
Proof.
  intros Va Vb. unfold os_D.
  rewrite (spikes_mirror ts te a Va), (spikes_mirror ts te b Vb).
  pose proof (vtrain_mirror ts te a Va) as (_ & Hs' & He'). rewrite Hs', He'.
  pose proof Va as (V1 & Hs & He). pose proof Vb as (V2 & _ & _). rewrite Hs, He.
  rewrite (dir_profile_spec _ _ ts te mt m
             (Lem_Transform2.valid_mirror ts te _ V1) (Lem_Transform2.valid_mirror ts te _ V2)).
  rewrite (dir_profile_spec _ _ ts te mt m V1 V2).
  rewrite (dir_spec_mirror ts te _ _ mt m V1 V2). cbn [fst].
  rewrite Lem_Order.sumF_rev. apply sumF_map_opp.
Qed.

Lemma dir_fin_opp nrm n d : dir_fin nrm n (- d) = - dir_fin nrm n d.
Proof.
  unfold dir_fin. destruct nrm; [|reflexivity].
  destruct (Reqb (nofnat ROps n) 0); [lra|]. unfold Rdiv. ring.
Qed.

(* directionality (normalised or not) changes sign, both backends *)
Theorem directionality_mirror : forall eps cy nrm mt m a b ts te, vtrain ts te a -> vtrain ts te b ->
  spike_directionality ROps eps cy false nrm mt m (mirror_tr a) (mirror_tr b)
  = rmap Ropp (spike_directionality ROps eps cy false nrm mt m a b).
Proof.
  intros eps cy nrm mt m a b ts te Va Vb.
  rewrite (directionality_value eps cy nrm mt m _ _ ts te
             (vtrain_mirror ts te a Va) (vtrain_mirror ts te b Vb)).
  rewrite (directionality_value eps cy nrm mt m a b ts te Va Vb). cbn [rmap]. f_equal.
  rewrite (os_D_mirror mt m ts te a b Va Vb), len_mirror. apply dir_fin_opp.
Qed.

(* the reconcile window is symmetric about the recording *)
Lemma rcn_mirror eps (t : trainR) : rcn eps (mirror_tr t) = mirror_tr (rcn eps t).
Proof.
  unfold rcn, mirror_tr. cbn [tr_spikes tr_start tr_end fst snd].
  fold (tr_spikes t) (tr_start t) (tr_end t). f_equal. f_equal.
  unfold mirror_train. rewrite filter_rev'. f_equal.
  apply filter_map_g. intros x. unfold Lem_Lists.window, mir.
  destruct (Rltb_spec (tr_start t - eps) (tr_start t + tr_end t - x)),
           (Rltb_spec (tr_start t + tr_end t - x) (tr_end t + eps)),
           (Rltb_spec (tr_start t - eps) x), (Rltb_spec x (tr_end t + eps));
    try reflexivity; lra.
Qed.

Lemma rcn_if_mirror cy eps (t : trainR) : rcn_if cy eps (mirror_tr t) = mirror_tr (rcn_if cy eps t).
Proof. destruct cy; [reflexivity | apply rcn_mirror]. Qed.

Lemma ord_fin_opp_false cm : ord_fin false (- fst cm, snd cm) = - ord_fin false cm.
Proof. reflexivity. Qed.

Lemma ord_fin_opp_true c mp : mp <> 0 -> ord_fin true (- c, mp) = - ord_fin true (c, mp).
Proof.
  intros H. unfold ord_fin. cbn [fst snd].
  destruct (Reqb_spec mp 0) as [E|_]; [contradiction|]. unfold Rdiv. ring.
Qed.

(* un-normalised spike train order changes sign: every eps, both backends *)
Theorem order_value_mirror : forall eps cy mt m a b ts te, vtrain ts te a -> vtrain ts te b ->
  spike_train_order_bi ROps eps cy false false mt m (mirror_tr a) (mirror_tr b)
  = rmap Ropp (spike_train_order_bi ROps eps cy false false mt m a b).
Proof.
  intros eps cy mt m a b ts te Va Vb.
  rewrite (order_value_any eps cy false mt m _ _ ts te
             (vtrain_mirror ts te a Va) (vtrain_mirror ts te b Vb)).
  rewrite (order_value_any eps cy false mt m a b ts te Va Vb). cbn [rmap]. f_equal.
  rewrite !rcn_if_mirror, !len_mirror.
  rewrite (os_D_mirror mt m ts te _ _ (vtrain_rcn_if cy eps ts te a Va) (vtrain_rcn_if cy eps ts te b Vb)).
  unfold ord_fin. cbn [fst]. ring.
Qed.

(* normalised: sign change as soon as one spike survives the (fall-back path's) reconcile
   step; without any spike both orientations give +1 by convention *)
Theorem order_value_mirror_norm_gen : forall eps cy mt m a b ts te, vtrain ts te a -> vtrain ts te b ->
  tr_spikes (rcn_if cy eps a) <> [] \/ tr_spikes (rcn_if cy eps b) <> [] ->
  spike_train_order_bi ROps eps cy false true mt m (mirror_tr a) (mirror_tr b)
  = rmap Ropp (spike_train_order_bi ROps eps cy false true mt m a b).
Proof.
  intros eps cy mt m a b ts te Va Vb NE.
  rewrite (order_value_any eps cy true mt m _ _ ts te
             (vtrain_mirror ts te a Va) (vtrain_mirror ts te b Vb)).
  rewrite (order_value_any eps cy true mt m a b ts te Va Vb). cbn [rmap]. f_equal.
  rewrite !rcn_if_mirror, !len_mirror.
  rewrite (os_D_mirror mt m ts te _ _ (vtrain_rcn_if cy eps ts te a Va) (vtrain_rcn_if cy eps ts te b Vb)).
  replace (2 * - os_D mt m (rcn_if cy eps a) (rcn_if cy eps b))
    with (- (2 * os_D mt m (rcn_if cy eps a) (rcn_if cy eps b))) by ring.
  apply ord_fin_opp_true.
  pose proof (pos_INR (length (tr_spikes (rcn_if cy eps a)))) as P1.
  pose proof (pos_INR (length (tr_spikes (rcn_if cy eps b)))) as P2.
  assert (L : forall l : list R, l <> [] -> 0 < INR (length l)).
  { intros [|x l] H; [congruence|]. apply lt_0_INR. cbn [length]. lia. }
  destruct NE as [H|H]; apply L in H; lra.
Qed.

Theorem order_value_mirror_norm : forall eps cy mt m a b ts te, cy = true \/ 0 < eps ->
  vtrain ts te a -> vtrain ts te b -> tr_spikes a <> [] \/ tr_spikes b <> [] ->
  spike_train_order_bi ROps eps cy false true mt m (mirror_tr a) (mirror_tr b)
  = rmap Ropp (spike_train_order_bi ROps eps cy false true mt m a b).
Proof.
  intros eps cy mt m a b ts te He Va Vb NE.
  apply (order_value_mirror_norm_gen eps cy mt m a b ts te Va Vb).
  destruct cy; [exact NE|]. destruct He as [He|He]; [discriminate|].
  unfold rcn_if. rewrite (rcn_id eps ts te a He Va), (rcn_id eps ts te b He Vb). exact NE.
Qed.

(* no spike left (for the compiled path: no spike at all; known finding): +1 by convention
   in both orientations, so the hypothesis of [order_value_mirror_norm_gen] is necessary *)
Theorem order_value_norm_no_spikes : forall eps cy mt m a b ts te, vtrain ts te a -> vtrain ts te b ->
  tr_spikes (rcn_if cy eps a) = [] -> tr_spikes (rcn_if cy eps b) = [] ->
  spike_train_order_bi ROps eps cy false true mt m a b = Ok 1 /\
  spike_train_order_bi ROps eps cy false true mt m (mirror_tr a) (mirror_tr b) = Ok 1.
Proof.
  intros eps cy mt m a b ts te Va Vb Ea Eb.
  assert (Z : ord_fin true (2 * os_D mt m (rcn_if cy eps a) (rcn_if cy eps b), INR 0 + INR 0) = 1).
  { unfold ord_fin. cbn [snd INR]. destruct (Reqb_spec (0 + 0) 0) as [_|N]; [reflexivity | exfalso; lra]. }
  split.
  - rewrite (order_value_any eps cy true mt m a b ts te Va Vb).
    rewrite Ea, Eb. cbn [length]. rewrite Z. reflexivity.
  - rewrite (order_value_any eps cy true mt m _ _ ts te
               (vtrain_mirror ts te a Va) (vtrain_mirror ts te b Vb)).
    rewrite !rcn_if_mirror, !len_mirror, Ea, Eb. cbn [length].
    unfold ord_fin. cbn [snd INR]. destruct (Reqb_spec (0 + 0) 0) as [_|N]; [reflexivity | exfalso; lra].
Qed.

Corollary order_value_mirror_norm_fails_without_spikes : forall eps cy mt m a b ts te,
  vtrain ts te a -> vtrain ts te b ->
  tr_spikes (rcn_if cy eps a) = [] -> tr_spikes (rcn_if cy eps b) = [] ->
  spike_train_order_bi ROps eps cy false true mt m (mirror_tr a) (mirror_tr b)
  <> rmap Ropp (spike_train_order_bi ROps eps cy false true mt m a b).
Proof.
  intros eps cy mt m a b ts te Va Vb Ea Eb.
  destruct (order_value_norm_no_spikes eps cy mt m a b ts te Va Vb Ea Eb) as [E1 E2].
  rewrite E1, E2. cbn [rmap]. intros H. injection H as H. lra.
Qed.

(* ------------------------------------------------------------------ *)
(* 6. all C08 statements for the bivariate scalars in one place         *)

Theorem bi_scalars_shift : forall eps cy nrm m mt ri iv c a b ts te,
  vtrain ts te a -> vtrain ts te b -> iv_ok ts te iv ->
  isi_distance_bi ROps eps cy false m (shift_iv c iv) (shift_train c a) (shift_train c b)
    = isi_distance_bi ROps eps cy false m iv a b /\
  spike_distance_bi ROps eps cy false m ri (shift_iv c iv) (shift_train c a) (shift_train c b)
    = spike_distance_bi ROps eps cy false m ri iv a b /\
  spike_sync_bi ROps eps cy false mt m (shift_iv c iv) (shift_train c a) (shift_train c b)
    = spike_sync_bi ROps eps cy false mt m iv a b /\
  spike_train_order_bi ROps eps cy false nrm mt m (shift_train c a) (shift_train c b)
    = spike_train_order_bi ROps eps cy false nrm mt m a b /\
  spike_directionality ROps eps cy false nrm mt m (shift_train c a) (shift_train c b)
    = spike_directionality ROps eps cy false nrm mt m a b.
Proof.
  intros eps cy nrm m mt ri iv c a b ts te Va Vb Hiv. repeat split.
  - apply (isi_distance_shift_iv eps cy m iv c a b ts te Va Vb Hiv).
  - apply (spike_distance_shift_iv eps cy m ri iv c a b ts te Va Vb Hiv).
  - apply (sync_value_shift eps cy mt m iv c a b ts te Va Vb Hiv).
  - apply (order_value_shift eps cy nrm mt m c a b ts te Va Vb).
  - apply (directionality_shift eps cy nrm mt m c a b ts te Va Vb).
Qed.

Theorem bi_scalars_scale : forall eps cy nrm m mt ri iv k a b ts te, 0 < k -> cy = true \/ 0 <= eps ->
  vtrain ts te a -> vtrain ts te b -> iv_ok ts te iv ->
  isi_distance_bi ROps eps cy false (k * m) (scale_iv k iv) (scale_train k a) (scale_train k b)
    = isi_distance_bi ROps eps cy false m iv a b /\
  spike_distance_bi ROps eps cy false (k * m) ri (scale_iv k iv) (scale_train k a) (scale_train k b)
    = spike_distance_bi ROps eps cy false m ri iv a b /\
  spike_sync_bi ROps eps cy false (k * mt) (k * m) (scale_iv k iv) (scale_train k a) (scale_train k b)
    = spike_sync_bi ROps eps cy false mt m iv a b /\
  spike_train_order_bi ROps eps cy false nrm (k * mt) (k * m) (scale_train k a) (scale_train k b)
    = spike_train_order_bi ROps eps cy false nrm mt m a b /\
  spike_directionality ROps eps cy false nrm (k * mt) (k * m) (scale_train k a) (scale_train k b)
    = spike_directionality ROps eps cy false nrm mt m a b.
Proof.
  intros eps cy nrm m mt ri iv k a b ts te Hk He Va Vb Hiv. repeat split.
  - apply (isi_distance_scale_iv eps cy m iv k a b ts te Hk Va Vb Hiv).
  - apply (spike_distance_scale_iv eps cy m ri iv k a b ts te Hk Va Vb Hiv).
  - apply (sync_value_scale eps cy mt m iv k a b ts te Hk Va Vb Hiv).
  - apply (order_value_scale eps cy nrm mt m k a b ts te Hk He Va Vb).
  - apply (directionality_scale eps cy nrm mt m k a b ts te Hk Va Vb).
Qed.

Theorem bi_scalars_mirror : forall eps cy nrm m mt ri a b ts te,
  vtrain ts te a -> vtrain ts te b ->
  isi_distance_bi ROps eps cy false m None (mirror_tr a) (mirror_tr b)
    = isi_distance_bi ROps eps cy false m None a b /\
  spike_distance_bi ROps eps cy false m ri None (mirror_tr a) (mirror_tr b)
    = spike_distance_bi ROps eps cy false m ri None a b /\
  spike_sync_bi ROps eps cy false mt m None (mirror_tr a) (mirror_tr b)
    = spike_sync_bi ROps eps cy false mt m None a b /\
  spike_train_order_bi ROps eps cy false false mt m (mirror_tr a) (mirror_tr b)
    = rmap Ropp (spike_train_order_bi ROps eps cy false false mt m a b) /\
  spike_directionality ROps eps cy false nrm mt m (mirror_tr a) (mirror_tr b)
    = rmap Ropp (spike_directionality ROps eps cy false nrm mt m a b).
Proof.
  intros eps cy nrm m mt ri a b ts te Va Vb. repeat split.
  - apply (isi_distance_mirror eps cy m a b ts te Va Vb).
  - apply (spike_distance_mirror eps cy m ri a b ts te Va Vb).
  - apply (sync_value_mirror eps cy mt m a b ts te Va Vb).
  - apply (order_value_mirror eps cy mt m a b ts te Va Vb).
  - apply (directionality_mirror eps cy nrm mt m a b ts te Va Vb).
Qed.

(* ------------------------------------------------------------------ *)
(* 7. non-vacuity: concrete valid trains satisfying every hypothesis    *)

Definition ex_a : trainR := ([1; 5], 0, 10).
Definition ex_b : trainR := ([2; 7], 0, 10).

Lemma ex_a_vtrain : vtrain 0 10 ex_a.
Proof.
  unfold vtrain, ex_a, valid. cbn [tr_spikes tr_start tr_end fst snd].
  repeat split; try lra; repeat constructor; lra.
Qed.
Lemma ex_b_vtrain : vtrain 0 10 ex_b.
Proof.
  unfold vtrain, ex_b, valid. cbn [tr_spikes tr_start tr_end fst snd].
  repeat split; try lra; repeat constructor; lra.
Qed.
Lemma ex_iv_ok : iv_ok 0 10 (Some (1, 9)).
Proof. cbn. lra. Qed.

Example ex_hypotheses :
  vtrain 0 10 ex_a /\ vtrain 0 10 ex_b /\ iv_ok 0 10 (Some (1, 9)) /\ iv_ok 0 10 None /\
  (tr_spikes ex_a <> [] \/ tr_spikes ex_b <> []) /\ 0 < 3 /\ (true = true \/ 0 <= 1 / 1000000).
Proof.
  split; [apply ex_a_vtrain|]. split; [apply ex_b_vtrain|]. split; [apply ex_iv_ok|].
  split; [exact I|]. split; [left; discriminate|]. split; [lra|]. left. reflexivity.
Qed.

Example ex_instances :
  spike_sync_bi ROps (1 / 1000000) true false (3 * 0) (3 * 0) (scale_iv 3 (Some (1, 9)))
                (scale_train 3 ex_a) (scale_train 3 ex_b)
    = spike_sync_bi ROps (1 / 1000000) true false 0 0 (Some (1, 9)) ex_a ex_b /\
  spike_train_order_bi ROps (1 / 1000000) false false true 0 0 (mirror_tr ex_a) (mirror_tr ex_b)
    = rmap Ropp (spike_train_order_bi ROps (1 / 1000000) false false true 0 0 ex_a ex_b).
Proof.
  assert (H3 : 0 < 3) by lra.
  assert (He : false = true \/ 0 < 1 / 1000000) by (right; lra).
  split.
  - apply (sync_value_scale _ _ _ _ _ 3 ex_a ex_b 0 10 H3 ex_a_vtrain ex_b_vtrain ex_iv_ok).
  - apply (order_value_mirror_norm _ _ _ _ ex_a ex_b 0 10 He ex_a_vtrain ex_b_vtrain).
    left. discriminate.
Qed.

(* spikes only on the edges, eps = 0, fall-back path: the reconcile step drops them, the
   normalised order is +1 in both orientations (so [0 < eps] cannot be weakened to
   [0 <= eps] in [order_value_mirror_norm]) *)
Example ex_edges_eps0 :
  let a : trainR := ([0], 0, 10) in let b : trainR := ([10], 0, 10) in
  vtrain 0 10 a /\ vtrain 0 10 b /\ tr_spikes a <> [] /\
  spike_train_order_bi ROps 0 false false true 0 0 (mirror_tr a) (mirror_tr b)
  <> rmap Ropp (spike_train_order_bi ROps 0 false false true 0 0 a b).
Proof.
  intros a b.
  assert (Va : vtrain 0 10 a).
  { unfold vtrain, a, valid. cbn [tr_spikes tr_start tr_end fst snd].
    repeat split; try lra; repeat constructor; lra. }
  assert (Vb : vtrain 0 10 b).
  { unfold vtrain, b, valid. cbn [tr_spikes tr_start tr_end fst snd].
    repeat split; try lra; repeat constructor; lra. }
  split; [exact Va|]. split; [exact Vb|]. split; [discriminate|].
  apply (order_value_mirror_norm_fails_without_spikes 0 false 0 0 a b 0 10 Va Vb).
  - unfold rcn_if, rcn, a, Lem_Lists.window. cbn [tr_spikes tr_start tr_end fst snd filter].
    destruct (Rltb_spec (0 - 0) 0) as [H|H]; [exfalso; lra | reflexivity].
  - unfold rcn_if, rcn, b, Lem_Lists.window. cbn [tr_spikes tr_start tr_end fst snd filter].
    destruct (Rltb_spec 10 (10 + 0)) as [H|H]; [exfalso; lra|]. rewrite andb_false_r. reflexivity.
Qed.

(* ------------------------------------------------------------------ *)
(* 8. the hypothesis [cy = true \/ 0 <= eps] of [order_value_scale] is needed:
      with a negative tolerance the reconcile step of the fall-back path removes the
      spikes closer than |eps| to the edges, and |eps| is not scaled.  The witness is
      computed on the Q instance and transferred to R (Bridge.v). *)

From Coq Require Import QArith Qreals.
From PS Require Bridge.
Local Close Scope Q_scope.
Local Open Scope R_scope.

Definition cx_a : list Q * Q * Q := ([1#10; 5], 0, 10)%Q.
Definition cx_b : list Q * Q * Q := ([2#10; 7], 0, 10)%Q.
Definition cx_k : Q := (1#10)%Q.
Definition cx_eps : Q := (-(1#2))%Q.
Definition q_scale (k : Q) (t : list Q * Q * Q) : list Q * Q * Q :=
  (map (Qmult k) (tr_spikes t), (k * tr_start t)%Q, (k * tr_end t)%Q).

Example cx_scale_Q :
  spike_train_order_bi QOps cx_eps false false false 0%Q 0%Q cx_a cx_b = Ok (2#1)%Q /\
  spike_train_order_bi QOps cx_eps false false false (cx_k * 0)%Q (cx_k * 0)%Q
                       (q_scale cx_k cx_a) (q_scale cx_k cx_b) = Ok 0%Q /\
  (* the compiled path is not affected *)
  spike_train_order_bi QOps cx_eps true false false 0%Q 0%Q cx_a cx_b = Ok (4#1)%Q /\
  spike_train_order_bi QOps cx_eps true false false (cx_k * 0)%Q (cx_k * 0)%Q
                       (q_scale cx_k cx_a) (q_scale cx_k cx_b) = Ok (4#1)%Q.
Proof. vm_compute. repeat split. Qed.

Lemma qTrain_scale k t :
  Bridge.pmap (Bridge.pmap (map Q2R) Q2R) Q2R (q_scale k t)
  = scale_train (Q2R k) (Bridge.pmap (Bridge.pmap (map Q2R) Q2R) Q2R t).
Proof.
  destruct t as [[s a] b]. unfold q_scale, scale_train, Bridge.pmap, tr_spikes, tr_start, tr_end.
  cbn [fst snd]. rewrite !Q2R_mult, !map_map. f_equal. f_equal.
  apply map_ext. intros x. unfold sc. apply Q2R_mult.
Qed.

Theorem order_value_scale_fails_negative_eps :
  exists eps k (a b : trainR) ts te, eps < 0 /\ 0 < k /\ vtrain ts te a /\ vtrain ts te b /\
    spike_train_order_bi ROps eps false false false (k * 0) (k * 0) (scale_train k a) (scale_train k b)
    <> spike_train_order_bi ROps eps false false false 0 0 a b.
Proof.
  exists (Q2R cx_eps), (Q2R cx_k),
         (Bridge.pmap (Bridge.pmap (map Q2R) Q2R) Q2R cx_a),
         (Bridge.pmap (Bridge.pmap (map Q2R) Q2R) Q2R cx_b), (Q2R 0), (Q2R 10).
  assert (V : forall q : Q, Q2R q = IZR (Qnum q) * / IZR (Zpos (Qden q))) by reflexivity.
  split; [rewrite V; cbn [cx_eps Qopp Qnum Qden Z.opp]; lra|].
  split; [rewrite V; cbn [cx_k Qnum Qden]; lra|].
  split.
  { unfold vtrain, valid, cx_a, Bridge.pmap, tr_spikes, tr_start, tr_end. cbn [fst snd map].
    rewrite !V. cbn [Qnum Qden inject_Z].
    repeat split; try lra; repeat constructor; lra. }
  split.
  { unfold vtrain, valid, cx_b, Bridge.pmap, tr_spikes, tr_start, tr_end. cbn [fst snd map].
    rewrite !V. cbn [Qnum Qden inject_Z].
    repeat split; try lra; repeat constructor; lra. }
  destruct cx_scale_Q as (E1 & E2 & _).
  pose proof (Bridge.spike_train_order_bi_transfer cx_eps false false false 0%Q 0%Q cx_a cx_b) as T1.
  pose proof (Bridge.spike_train_order_bi_transfer cx_eps false false false (cx_k * 0)%Q (cx_k * 0)%Q
                (q_scale cx_k cx_a) (q_scale cx_k cx_b)) as T2.
  rewrite E1 in T1. rewrite E2 in T2. rewrite !qTrain_scale, !Q2R_mult in T2.
  replace (Q2R 0) with 0 in T1, T2 by (rewrite V; cbn [Qnum Qden inject_Z]; lra).
  replace (Q2R 0) with 0 by (rewrite V; cbn [Qnum Qden inject_Z]; lra).
  rewrite <- T1, <- T2. cbn [rmap]. intros H. injection H as H.
  rewrite !V in H. cbn [Qnum Qden inject_Z] in H. lra.
Qed.

(* ------------------------------------------------------------------ *)
Print Assumptions sync_value_shift.
Print Assumptions sync_value_scale.
Print Assumptions order_value_shift.
Print Assumptions order_value_scale.
Print Assumptions directionality_shift.
Print Assumptions directionality_scale.
Print Assumptions isi_distance_mirror.
Print Assumptions spike_distance_mirror.
Print Assumptions sync_value_mirror.
Print Assumptions directionality_mirror.
Print Assumptions order_value_mirror.
Print Assumptions order_value_mirror_norm_gen.
Print Assumptions order_value_mirror_norm.
Print Assumptions order_value_norm_no_spikes.
Print Assumptions order_value_mirror_norm_fails_without_spikes.
Print Assumptions bi_scalars_shift.
Print Assumptions bi_scalars_scale.
Print Assumptions bi_scalars_mirror.
Print Assumptions ex_instances.
Print Assumptions ex_edges_eps0.
Print Assumptions order_value_scale_fails_negative_eps.
