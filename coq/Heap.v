(* Heap.v — executable store-passing model of the Python objects
   PieceWiseConstFunc / PieceWiseLinFunc as far as C09 is concerned:
   numpy arrays live in a store and are addressed by references, an object
   is a record of references.  This makes aliasing, in-place mutation
   (mul_scalar: `self.y *= fac`), rebinding (add: `self.x, self.y = ...`)
   and copying (constructor: `np.array(x)`) explicit.
   Also contains the value-level (heap free) reading of the same operations.
   Polymorphic over [NumOps F]; no proofs in this file (see Lem_History.v). *)

From Coq Require Import List Bool ZArith Arith QArith.
Import ListNotations.
From PS Require Import Num ModelFuncs.

Set Implicit Arguments.

(* functional array/list update; out of range = no-op *)
Fixpoint upd {A} (l : list A) (i : nat) (a : A) : list A :=
  match l, i with
  | [], _ => []
  | _ :: r, O => a :: r
  | b :: r, S k => b :: upd r k a
  end.

(* an object: two array references (self.x, self.y) *)
Record obj : Type := mkObj { rx : nat; ry : nat }.

Section Heap.
  Context {F : Type} (o : NumOps F).

  (* ---------------------------------------------------------------- *)
  (* operations of a history                                           *)

  Inductive op : Type :=
  | OAdd (i j : nat)          (* obj_i.add(obj_j) *)
  | OMul (i : nat) (c : F)    (* obj_i.mul_scalar(c) *)
  | OCopy (i : nat)           (* obj_new = obj_i.copy() *)
  | ONew (xs ys : list F).    (* obj_new = PieceWiseConstFunc(xs, ys) *)

  (* the object an operation writes to *)
  Definition op_target (p : op) : option nat :=
    match p with
    | OAdd i _ => Some i
    | OMul i _ => Some i
    | OCopy _ => None
    | ONew _ _ => None
    end.

  (* ---------------------------------------------------------------- *)
  (* heap model                                                        *)

  Definition store : Type := list (option (list F)).

  Record state : Type := mkState {
    st_store : store;          (* arrays *)
    st_objs  : list obj;       (* object table, addressed by object id *)
    st_errs  : list err        (* errors raised so far, oldest first *)
  }.

  Definition empty_state : state := mkState [] [] [].

  (* allocation = append; the new reference is the old length *)
  Definition alloc (st : store) (a : list F) : store * nat := (st ++ [Some a], length st).
  Definition sread (st : store) (r : nat) : option (list F) :=
    match nth_error st r with Some (Some a) => Some a | _ => None end.
  Definition swrite (st : store) (r : nat) (a : list F) : store := upd st r (Some a).

  Definition read_obj (st : store) (ob : obj) : option (@pwc F) :=
    match sread st (rx ob), sread st (ry ob) with
    | Some xs, Some ys => Some (xs, ys)
    | _, _ => None
    end.

  (* the (xs, ys) object k currently denotes *)
  Definition denote (s : state) (k : nat) : option (@pwc F) :=
    match nth_error (st_objs s) k with
    | Some ob => read_obj (st_store s) ob
    | None => None
    end.

  Definition fail (s : state) (e : err) : state :=
    mkState (st_store s) (st_objs s) (st_errs s ++ [e]).

  (* two fresh arrays holding copies of xs, ys *)
  Definition alloc2 (st : store) (xs ys : list F) : store * obj :=
    let '(st1, r1) := alloc st xs in
    let '(st2, r2) := alloc st1 ys in
    (st2, mkObj r1 r2).

  Definition new_obj (s : state) (xs ys : list F) : state :=
    let '(st, ob) := alloc2 (st_store s) xs ys in
    mkState st (st_objs s ++ [ob]) (st_errs s).

  Definition step (p : op) (s : state) : state :=
    match p with
    | ONew xs ys => new_obj s xs ys
    | OCopy i =>
        match denote s i with
        | Some (xs, ys) => new_obj s xs ys
        | None => fail s BadArgs
        end
    | OAdd i j =>
        match denote s i, denote s j with
        | Some f, Some g =>
            match pwc_add o f g with
            | Ok (xs, ys) =>
                (* fresh arrays; rebind self.x, self.y; f's arrays untouched *)
                let '(st, ob) := alloc2 (st_store s) xs ys in
                mkState st (upd (st_objs s) i ob) (st_errs s)
            | Err e => fail s e
            end
        | _, _ => fail s BadArgs
        end
    | OMul i c =>
        match nth_error (st_objs s) i with
        | Some ob =>
            match sread (st_store s) (ry ob) with
            | Some ys =>
                (* in place: self.y *= fac *)
                mkState (swrite (st_store s) (ry ob) (map (fun y => nmul o y c) ys))
                        (st_objs s) (st_errs s)
            | None => fail s BadArgs
            end
        | None => fail s BadArgs
        end
    end.

  Definition run (ops : list op) (s : state) : state :=
    fold_left (fun s p => step p s) ops s.

  (* ---------------------------------------------------------------- *)
  (* value-level model: a state is the list of functions (object id =
     position) plus the errors raised                                  *)

  Definition vstate : Type := (list (@pwc F) * list err)%type.
  Definition vempty : vstate := ([], []).

  Definition vfail (v : vstate) (e : err) : vstate := (fst v, snd v ++ [e]).

  Definition vstep (p : op) (v : vstate) : vstate :=
    match p with
    | ONew xs ys => (fst v ++ [(xs, ys)], snd v)
    | OCopy i =>
        match nth_error (fst v) i with
        | Some f => (fst v ++ [f], snd v)
        | None => vfail v BadArgs
        end
    | OAdd i j =>
        match nth_error (fst v) i, nth_error (fst v) j with
        | Some f, Some g =>
            match pwc_add o f g with
            | Ok h => (upd (fst v) i h, snd v)
            | Err e => vfail v e
            end
        | _, _ => vfail v BadArgs
        end
    | OMul i c =>
        match nth_error (fst v) i with
        | Some f => (upd (fst v) i (pwc_mul o f c), snd v)
        | None => vfail v BadArgs
        end
    end.

  Definition vrun (ops : list op) (v : vstate) : vstate :=
    fold_left (fun v p => vstep p v) ops v.

  (* ---------------------------------------------------------------- *)
  (* the same value-level model for piecewise-linear functions         *)

  Inductive lop : Type :=
  | LAdd (i j : nat)
  | LMul (i : nat) (c : F)
  | LCopy (i : nat)
  | LNew (xs y1s y2s : list F).

  Definition lstate : Type := (list (@pwl F) * list err)%type.
  Definition lfail (v : lstate) (e : err) : lstate := (fst v, snd v ++ [e]).

  Definition lstep (p : lop) (v : lstate) : lstate :=
    match p with
    | LNew xs y1s y2s => (fst v ++ [(xs, y1s, y2s)], snd v)
    | LCopy i =>
        match nth_error (fst v) i with
        | Some f => (fst v ++ [f], snd v)
        | None => lfail v BadArgs
        end
    | LAdd i j =>
        match nth_error (fst v) i, nth_error (fst v) j with
        | Some f, Some g =>
            match pwl_add o f g with
            | Ok h => (upd (fst v) i h, snd v)
            | Err e => lfail v e
            end
        | _, _ => lfail v BadArgs
        end
    | LMul i c =>
        match nth_error (fst v) i with
        | Some f => (upd (fst v) i (pwl_mul o f c), snd v)
        | None => lfail v BadArgs
        end
    end.

  Definition lrun (ops : list lop) (v : lstate) : lstate :=
    fold_left (fun v p => lstep p v) ops v.

End Heap.

Arguments OAdd {F} i j.
Arguments OMul {F} i c.
Arguments OCopy {F} i.
Arguments ONew {F} xs ys.
Arguments LAdd {F} i j.
Arguments LMul {F} i c.
Arguments LCopy {F} i.
Arguments LNew {F} xs y1s y2s.
Arguments empty_state {F}.
Arguments vempty {F}.

(* ------------------------------------------------------------------ *)
(* small evaluations on the Q instance                                  *)

Module HeapTests.
  Local Open Scope Q_scope.
  Definition f0x := [0; 1; 2].      Definition f0y := [1; 2].
  Definition f1x := [0; 1#2; 2].    Definition f1y := [10; 20].

  Definition ops1 : list (@op Q) :=
    [ONew f0x f0y; ONew f1x f1y; OCopy 0; OAdd 0 1; OMul 0 3; OMul 2 2; OAdd 1 1].

  Definition s1 := run QOps ops1 empty_state.
  (* object 0 = 3*(f0+f1), object 1 = 2*f1, object 2 (copy of the ORIGINAL f0) = 2*f0 *)
  Eval vm_compute in (denote s1 0, denote s1 1, denote s1 2).
  Eval vm_compute in (st_objs s1, length (st_store s1), st_errs s1).
  (* agreement with the value-level run *)
  Eval vm_compute in (vrun QOps ops1 vempty).

  (* different intervals -> AssertionError recorded, state otherwise unchanged;
     unknown object id -> BadArgs *)
  Definition ops2 : list (@op Q) :=
    [ONew f0x f0y; ONew [0; 3] [5]; OAdd 0 1; OMul 7 2; OCopy 0].
  Eval vm_compute in (let s := run QOps ops2 empty_state in
                      (denote s 0, denote s 1, denote s 2, st_errs s)).
  Eval vm_compute in (vrun QOps ops2 vempty).

  (* a state that VIOLATES the disjointness invariant: two objects share their
     y array; the in-place multiply on object 0 is visible through object 1.
     (Unreachable from [empty_state]; see inv_run in Lem_History.v.) *)
  Definition alias : @state Q :=
    mkState [Some f0x; Some f0y] [mkObj 0 1; mkObj 0 1] [].
  Eval vm_compute in (denote (step QOps (OMul 0 5) alias) 1).

  (* piecewise linear value-level run *)
  Eval vm_compute in
    (lrun QOps [LNew [0; 1; 2] [0; 1] [1; 3]; LNew [0; 1#2; 2] [1; 1] [1; 4]; LCopy 0;
                LAdd 0 1; LMul 0 2] ([], [])).
End HeapTests.
