(* Spec.v — short, executable, declarative specifications.  They are what the
   theorems in Props/ refine the code-shaped model to, and (extracted at Q)
   they are the oracle the checks compare the implementation with.
   Written polymorphically over [NumOps F] like the model.  No proofs here. *)

From Coq Require Import List Bool ZArith Arith.
Import ListNotations.
From PS Require Import Num ModelKernels ModelFuncs ModelAPI.

Set Implicit Arguments.

Section Spec.
  Context {F : Type} (o : NumOps F).

  Local Notation "0" := (n0 o).
  Local Notation "1" := (n1 o).
  Local Notation "2" := (n2 o).
  Local Notation "a + b" := (nadd o a b).
  Local Notation "a - b" := (nsub o a b).
  Local Notation "a * b" := (nmul o a b).
  Local Notation "a / b" := (ndiv o a b).
  Local Notation "a <? b" := (nltb o a b).
  Local Notation "a >? b" := (nltb o b a) (at level 70).
  Local Notation "a =? b" := (neqb o a b).
  Local Notation "a <=? b" := (nleb o a b).
  Local Notation max := (nmax o).
  Local Notation min := (nmin o).
  Local Notation abs := (nabs o).

  (* ---------------------------------------------------------------- *)
  (* generic helpers                                                   *)

  (* a train without spikes counts as one interval spanning the recording *)
  Definition eff (ts te : F) (s : list F) : list F :=
    match s with [] => [ts; te] | _ => s end.

  (* the two edges plus every distinct spike time strictly inside *)
  Definition breaks (ts te : F) (s1 s2 : list F) : list F :=
    ts :: sort_unique o (filter (fun x => (ts <? x) && (x <? te)) (s1 ++ s2)) ++ [te].

  Fixpoint pieces (bs : list F) : list (F * F) :=
    match bs with
    | a :: ((b :: _) as r) => (a, b) :: pieces r
    | _ => []
    end.

  Definition mid (p : F * F) : F := (fst p + snd p) / 2.

  (* last spike <= t and first spike > t of a sorted train *)
  Fixpoint prev_of (t : F) (u : list F) (acc : option F) : option F :=
    match u with
    | [] => acc
    | x :: r => if x <=? t then prev_of t r (Some x) else acc
    end.
  Fixpoint next_of (t : F) (u : list F) : option F :=
    match u with
    | [] => None
    | x :: r => if t <? x then Some x else next_of t r
    end.
  (* the spike before [p] / after [f] in the train *)
  Definition before (p : F) (u : list F) : option F := prev_of p (filter (fun x => x <? p) u) None.
  Definition after (f : F) (u : list F) : option F := next_of f u.

  (* ---------------------------------------------------------------- *)
  (* C01: length of the inter-spike interval of [u] containing time t  *)

  Definition isi_len_at (ts te : F) (u : list F) (t : F) : F :=
    match prev_of t u None, next_of t u with
    | Some p, Some f => f - p
    | None, Some f =>                     (* before the first spike *)
        match after f u with
        | Some f2 => max (f - ts) (f2 - f)
        | None => f - ts
        end
    | Some p, None =>                     (* after the last spike *)
        match before p u with
        | Some p0 => max (te - p) (p - p0)
        | None => te - p
        end
    | None, None => 0
    end.

  Definition isi_spec (s1 s2 : list F) (ts te m : F) : list F * list F :=
    let bs := breaks ts te s1 s2 in
    let u1 := eff ts te s1 in
    let u2 := eff ts te s2 in
    (bs, map (fun p => let t := mid p in
                       let v1 := isi_len_at ts te u1 t in
                       let v2 := isi_len_at ts te u2 t in
                       abs (v1 - v2) / max (max v1 v2) m)
             (pieces bs)).

  (* ---------------------------------------------------------------- *)
  (* C02: SPIKE profile                                                *)

  (* mirrored auxiliary spikes of a train (edge correction) *)
  Definition aux_of (ts te : F) (u : list F) : F * F :=
    match u, rev u with
    | x0 :: x1 :: _, a :: b :: _ => (min ts (x0 - (x1 - x0)), max te (a + (a - b)))
    | _, _ => (ts, te)
    end.

  (* distance from x to the nearest spike of w, auxiliary spikes included *)
  Definition nearest (aux : F * F) (w : list F) (x : F) : F :=
    fold_left (fun d c => min d (abs (x - c))) (w ++ [snd aux]) (abs (x - fst aux)).

  (* contribution of train u (other train w) at time t, where the piece is
     identified by a time [tm] strictly inside it; returns (S_u(t), isi_u) *)
  Definition contrib (ts te : F) (u w : list F) (tm t : F) : F * F :=
    let auxw := aux_of ts te w in
    let isi := isi_len_at ts te u tm in
    match prev_of tm u None, next_of tm u with
    | Some p, Some f =>
        ((nearest auxw w p * (f - t) + nearest auxw w f * (t - p)) / (f - p), isi)
    | None, Some f => (nearest auxw w f, isi)
    | Some p, None => (nearest auxw w p, isi)
    | None, None => (0, isi)
    end.

  Definition spike_at (ts te m : F) (ri : bool) (u1 u2 : list F) (tm t : F) : F :=
    let '(c1, i1) := contrib ts te u1 u2 tm t in
    let '(c2, i2) := contrib ts te u2 u1 tm t in
    let mean := (i1 + i2) / 2 in
    let lim := max m mean in
    if ri then ((c1 + c2) / 2) / lim
    else ((c1 * i2 + c2 * i1) / 2) / (mean * lim).

  Definition spike_spec (s1 s2 : list F) (ts te m : F) (ri : bool)
    : list F * list F * list F :=
    let bs := breaks ts te s1 s2 in
    let u1 := eff ts te s1 in
    let u2 := eff ts te s2 in
    (bs,
     map (fun p => spike_at ts te m ri u1 u2 (mid p) (fst p)) (pieces bs),
     map (fun p => spike_at ts te m ri u1 u2 (mid p) (snd p)) (pieces bs)).

  (* ---------------------------------------------------------------- *)
  (* C03/C04/C16/C17: coincidence, pairwise and global                 *)

  (* every spike of a train with its neighbours *)
  Fixpoint contexts_from (prev : option F) (s : list F) : list (@ctx F) :=
    match s with
    | [] => []
    | x :: r => mkCtx prev x (hd_error r) :: contexts_from (Some x) r
    end.
  Definition contexts (s : list F) : list (@ctx F) := contexts_from None s.

  (* coincidence window of two spikes: half of the smallest adjacent ISI,
     a missing neighbour counting as [lim]; with m = MRTS/4 > 0 the
     thresholded interpolation of the half-intervals; never above lim/2.
     Stated symmetrically: e is the earlier, l the later spike. *)
  Definition tau_spec (lim mrts : F) (c1 c2 : @ctx F) : F :=
    let m := mrts / n4 o in
    let '(e, l) := if c_cur c1 <=? c_cur c2 then (c1, c2) else (c2, c1) in
    let h c := c / 2 in
    min (min (interp o (h (gapP o lim (Some e))) (h (gapF o lim (Some e))) m)
             (interp o (h (gapF o lim (Some l))) (h (gapP o lim (Some l))) m))
        (h lim).

  Definition lim_of (ts te mt : F) : F :=
    let tm := te - ts in if 0 <? mt then min tm (2 * mt) else tm.

  (* strictly coincident, distinct times *)
  Definition coinc (lim mrts : F) (c1 c2 : @ctx F) : bool :=
    negb (c_cur c1 =? c_cur c2) && (abs (c_cur c1 - c_cur c2) <? tau_spec lim mrts c1 c2).

  Definition has_partner (lim mrts : F) (c : @ctx F) (others : list (@ctx F)) : bool :=
    existsb (coinc lim mrts c) others.
  Definition is_shared (c : @ctx F) (others : list (@ctx F)) : bool :=
    existsb (fun d => c_cur c =? c_cur d) others.

  (* entries (time, value, multiplicity) of the distinct spike times *)
  Definition event_entries (v1 v2 : @ctx F -> list (@ctx F) -> F) (vboth : F)
             (s1 s2 : list F) : list (F * F * F) :=
    let k1 := contexts s1 in
    let k2 := contexts s2 in
    map (fun t =>
           match find (fun c => c_cur c =? t) k1, find (fun c => c_cur c =? t) k2 with
           | Some _, Some _ => (t, vboth, 2)
           | Some c, None => (t, v1 c k2, 1)
           | None, Some c => (t, v2 c k1, 1)
           | None, None => (t, 0, 1)
           end)
        (sort_unique o (s1 ++ s2)).

  Definition framed (ts te : F) (entries : list (F * F * F)) : list (F * F * F) :=
    match entries with
    | [] => [(ts, 1, 1); (te, 1, 1)]
    | e0 :: _ =>
        let el := last entries e0 in
        (ts, snd (fst e0), snd e0) :: entries ++ [(te, snd (fst el), snd el)]
    end.

  Definition sync_spec (s1 s2 : list F) (ts te mt mrts : F) : list (F * F * F) :=
    let lim := lim_of ts te mt in
    let v c others := if has_partner lim mrts c others then 1 else 0 in
    framed ts te (event_entries v v 2 s1 s2).

  (* per-spike indicator of train 1 (value 1 also where both spike together) *)
  Definition single_spec (s1 s2 : list F) (ts te mt mrts : F) : list F :=
    let lim := lim_of ts te mt in
    let k2 := contexts s2 in
    map (fun c => if has_partner lim mrts c k2 || is_shared c k2 then 1 else 0) (contexts s1).

  (* leader / follower: +1 if the spike comes before its partner *)
  Definition lead_sign (lim mrts : F) (c : @ctx F) (others : list (@ctx F)) : F :=
    match find (coinc lim mrts c) others with
    | Some d => if c_cur c <? c_cur d then 1 else 0 - 1
    | None => 0
    end.

  (* order profile: both spikes of a pair get +1 when train 1 leads, -1 otherwise *)
  Definition order_spec (s1 s2 : list F) (ts te mt mrts : F) : list (F * F * F) :=
    let lim := lim_of ts te mt in
    framed ts te (event_entries (fun c k2 => lead_sign lim mrts c k2)
                                (fun c k1 => 0 - lead_sign lim mrts c k1) 0 s1 s2).

  Definition dir_spec (s1 s2 : list F) (ts te mt mrts : F) : list F * list F :=
    let lim := lim_of ts te mt in
    let k1 := contexts s1 in
    let k2 := contexts s2 in
    (map (fun c => lead_sign lim mrts c k2) k1, map (fun c => lead_sign lim mrts c k1) k2).

  (* C17: which spikes the filter keeps *)
  Definition filter_spec (mt mrts thr : F) (l : list (list F * F * F))
    : list (list F * list F) :=
    let n := length l in
    map (fun i =>
           let st := nth i l ([], 0, 0) in
           let s := fst (fst st) in
           let ts := snd (fst st) in
           let te := snd st in
           let cnt := fold_left
                        (fun acc t => map (fun p => fst p + snd p)
                                          (combine acc (single_spec s (fst (fst t)) ts te mt mrts)))
                        (firstn i l ++ skipn (S i) l) (repeat 0 (length s)) in
           let lim := thr * nofnat o (n - 1) in
           let tagged := combine s cnt in
           (map fst (filter (fun p => lim <? snd p) tagged),
            map fst (filter (fun p => negb (lim <? snd p)) tagged)))
        (seq 0 n).

  (* ---------------------------------------------------------------- *)
  (* C09/C10: piecewise functions as functions of time                 *)

  (* value of the piece of (xs, vals) that contains the open interval around tm *)
  Fixpoint pwc_at (xs ys : list F) (tm : F) : option F :=
    match xs, ys with
    | a :: ((b :: _) as xs'), y :: ys' =>
        if (a <? tm) && (tm <? b) then Some y else pwc_at xs' ys' tm
    | _, _ => None
    end.

  (* one-sided limits at t: the piece with a <= t < b (right), a < t <= b (left) *)
  Fixpoint pwc_right (xs ys : list F) (t : F) : option F :=
    match xs, ys with
    | a :: ((b :: _) as xs'), y :: ys' =>
        if (a <=? t) && (t <? b) then Some y else pwc_right xs' ys' t
    | _, _ => None
    end.
  Fixpoint pwc_left (xs ys : list F) (t : F) : option F :=
    match xs, ys with
    | a :: ((b :: _) as xs'), y :: ys' =>
        if (a <? t) && (t <=? b) then Some y else pwc_left xs' ys' t
    | _, _ => None
    end.

  Definition lin (a b ya yb t : F) : F := ya + (yb - ya) * (t - a) / (b - a).

  Fixpoint pwl_right (xs y1 y2 : list F) (t : F) : option F :=
    match xs, y1, y2 with
    | a :: ((b :: _) as xs'), ya :: y1', yb :: y2' =>
        if (a <=? t) && (t <? b) then Some (lin a b ya yb t) else pwl_right xs' y1' y2' t
    | _, _, _ => None
    end.
  Fixpoint pwl_left (xs y1 y2 : list F) (t : F) : option F :=
    match xs, y1, y2 with
    | a :: ((b :: _) as xs'), ya :: y1', yb :: y2' =>
        if (a <? t) && (t <=? b) then Some (lin a b ya yb t) else pwl_left xs' y1' y2' t
    | _, _, _ => None
    end.

  (* evaluation: piece value; mean of both limits at an interior breakpoint;
     the one-sided limit at the two end points; None outside the support *)
  Definition eval_of (l r : option F) : option F :=
    match l, r with
    | Some a, Some b => Some ((a + b) / 2)
    | Some a, None => Some a
    | None, Some b => Some b
    | None, None => None
    end.
  Definition pwc_eval (f : list F * list F) (t : F) : option F :=
    eval_of (pwc_left (fst f) (snd f) t) (pwc_right (fst f) (snd f) t).
  Definition pwl_eval (f : list F * list F * list F) (t : F) : option F :=
    eval_of (pwl_left (fst (fst f)) (snd (fst f)) (snd f) t)
            (pwl_right (fst (fst f)) (snd (fst f)) (snd f) t).

  (* exact integral over [a,b]: sum over the pieces of the overlap *)
  Fixpoint pwc_overlap (xs ys : list F) (a b : F) : F :=
    match xs, ys with
    | x0 :: ((x1 :: _) as xs'), y :: ys' =>
        let lo := max a x0 in
        let hi := min b x1 in
        (if lo <? hi then y * (hi - lo) else 0) + pwc_overlap xs' ys' a b
    | _, _ => 0
    end.
  Fixpoint pwl_overlap (xs y1 y2 : list F) (a b : F) : F :=
    match xs, y1, y2 with
    | x0 :: ((x1 :: _) as xs'), ya :: y1', yb :: y2' =>
        let lo := max a x0 in
        let hi := min b x1 in
        (if lo <? hi then (lin x0 x1 ya yb lo + lin x0 x1 ya yb hi) / 2 * (hi - lo) else 0)
        + pwl_overlap xs' y1' y2' a b
    | _, _, _ => 0
    end.

  Definition optsum (a b : option F) : F :=
    match a, b with Some x, Some y => x + y | Some x, None => x | None, Some y => y | None, None => 0 end.

  (* pointwise sum on the merged support *)
  Definition pwc_add_spec (f g : list F * list F) : list F * list F :=
    let bs := sort_unique o (fst f ++ fst g) in
    (bs, map (fun p => optsum (pwc_at (fst f) (snd f) (mid p)) (pwc_at (fst g) (snd g) (mid p)))
             (pieces bs)).

  Definition pwl_add_spec (f g : list F * list F * list F) : list F * list F * list F :=
    let '(x1, a1, b1) := f in
    let '(x2, a2, b2) := g in
    let bs := sort_unique o (x1 ++ x2) in
    (bs,
     map (fun p => optsum (pwl_right x1 a1 b1 (fst p)) (pwl_right x2 a2 b2 (fst p))) (pieces bs),
     map (fun p => optsum (pwl_left x1 a1 b1 (snd p)) (pwl_left x2 a2 b2 (snd p))) (pieces bs)).

  (* ---------------------------------------------------------------- *)
  (* C11: discrete profiles as event lists                             *)

  Definition interior_entries (f : list (F * F * F)) : list (F * F * F) := removelast (tl f).

  Definition sum_at (t : F) (l : list (F * F * F)) : F * F :=
    fold_left (fun acc e => if fst (fst e) =? t then (fst acc + snd (fst e), snd acc + snd e) else acc)
              l (0, 0).

  (* interior events of the sum: one entry per distinct time, values and
     multiplicities summed *)
  Definition df_add_spec (f g : list (F * F * F)) : list (F * F * F) :=
    let ev := interior_entries f ++ interior_entries g in
    map (fun t => let s := sum_at t ev in (t, fst s, snd s))
        (sort_unique o (map (fun e => fst (fst e)) ev)).

  Definition df_integral_spec1 (f : list (F * F * F)) (iv : option (F * F)) : F * F :=
    let ev := interior_entries f in
    let sel := match iv with
               | None => ev
               | Some (a, b) => filter (fun e => (a <? fst (fst e)) && (fst (fst e) <? b)) ev
               end in
    (sumF o (map (fun e => snd (fst e)) sel), sumF o (map (fun e => snd e) sel)).

  Definition df_integral_spec (f : list (F * F * F)) (iv : @ivspec F) : F * F :=
    match iv with
    | IvNone => df_integral_spec1 f None
    | IvOne a b => df_integral_spec1 f (Some (a, b))
    | IvMany l =>
        fold_right (fun p acc => let v := df_integral_spec1 f (Some p) in (fst v + fst acc, snd v + snd acc))
                   (0, 0) l
    end.

  (* ---------------------------------------------------------------- *)
  (* C13: reconcile                                                    *)

  Definition reconcile_spec (eps : F) (l : list (list F * F * F)) : list (list F * F * F) :=
    match l with
    | [] => []
    | t0 :: r =>
        let tS := fold_left min (map (fun t => snd (fst t)) r) (snd (fst t0)) in
        let tE := fold_left max (map (fun t => snd t) r) (snd t0) in
        map (fun t => (sort_unique o (filter (fun x => (tS - eps <? x) && (x <? tE + eps)) (fst (fst t))),
                       tS, tE)) l
    end.

  (* ---------------------------------------------------------------- *)
  (* C15: ISI lengths of one train; pooled mean square                 *)

  Definition isi_lengths_spec (s : list F) (ts te : F) : list F :=
    match s with
    | [] => [te - ts]
    | _ =>
        (* one entry per interval between consecutive elements of ts :: s ++ [te]
           that has positive length or lies between two spikes *)
        let bs := sort_unique o (ts :: s ++ [te]) in
        map (fun p => isi_len_at ts te s (mid p)) (pieces bs)
    end.

  (* ---------------------------------------------------------------- *)
  (* C20: histogram                                                    *)

  Definition count_in (lo hi : F) (closed : bool) (xs : list F) : nat :=
    length (filter (fun x => (lo <=? x) && (if closed then x <=? hi else x <? hi)) xs).

End Spec.
