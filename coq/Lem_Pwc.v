(* Lem_Pwc.v — piecewise-constant functions: integral / average / evaluation
   (C10) and addition (C09) of the code-shaped model against Spec.v, R instance. *)
From Coq Require Import List Bool Arith ZArith Reals Lra Lia Sorted Permutation.
Import ListNotations.
From PS Require Import Num RLemmas Valid ModelKernels ModelFuncs ModelAPI Spec SyncDefs.
Local Open Scope R_scope.

(* ------------------------------------------------------------------ *)
(* 0. lists, nthF / lastF, strictly sorted lists                        *)

Lemma nthF_0 x (l : list R) : nthF ROps (x :: l) 0 = x.
Proof. reflexivity. Qed.
Lemma nthF_S x (l : list R) i : nthF ROps (x :: l) (S i) = nthF ROps l i.
Proof. reflexivity. Qed.
Lemma lastF_cons2 x y (l : list R) : lastF ROps (x :: y :: l) = lastF ROps (y :: l).
Proof. reflexivity. Qed.
Lemma lastF_one (x : R) : lastF ROps [x] = x.
Proof. reflexivity. Qed.
Lemma lastF_app1 (l : list R) x : lastF ROps (l ++ [x]) = x.
Proof. unfold lastF. apply last_last. Qed.

Lemma lastF_nth (l : list R) : lastF ROps l = nthF ROps l (length l - 1).
Proof.
  induction l as [|x [|y l] IH]; try reflexivity.
  rewrite lastF_cons2, IH. cbn [length].
  replace (S (length l) - 1)%nat with (length l) by lia.
  replace (S (S (length l)) - 1)%nat with (S (length l)) by lia. reflexivity.
Qed.

Lemma ssorted_hd_le x l : ssorted (x :: l) -> Forall (fun y => x <= y) (x :: l).
Proof.
  intros H. apply ssorted_cons_inv in H as [_ H]. constructor; [lra|].
  eapply Forall_impl; [|exact H]. cbn; intros; lra.
Qed.

Lemma ssorted_nth_lt l : ssorted l -> forall i j, (i < j)%nat -> (j < length l)%nat ->
  nthF ROps l i < nthF ROps l j.
Proof.
  induction l as [|x l IH]; intros Hs i j Hij Hj; [cbn in Hj; lia|].
  apply ssorted_cons_inv in Hs as [S1 S2].
  destruct j as [|j]; [lia|]. cbn [length] in Hj. rewrite nthF_S.
  destruct i as [|i].
  - rewrite nthF_0. rewrite Forall_forall in S2. apply S2. apply nth_In. lia.
  - rewrite nthF_S. apply IH; auto; lia.
Qed.

Lemma ssorted_nth_le l : ssorted l -> forall i j, (i <= j)%nat -> (j < length l)%nat ->
  nthF ROps l i <= nthF ROps l j.
Proof.
  intros Hs i j Hij Hj. destruct (Nat.eq_dec i j) as [->|N]; [lra|].
  apply Rlt_le, ssorted_nth_lt; auto; lia.
Qed.

Lemma ssorted_le_last l : ssorted l -> forall i, (i < length l)%nat -> nthF ROps l i <= lastF ROps l.
Proof. intros Hs i Hi. rewrite lastF_nth. apply ssorted_nth_le; auto; lia. Qed.

Lemma ssorted_first_lt_last l : ssorted l -> (2 <= length l)%nat -> nthF ROps l 0 < lastF ROps l.
Proof. intros Hs H. rewrite lastF_nth. apply ssorted_nth_lt; auto; lia. Qed.

Lemma ssorted_tl x l : ssorted (x :: l) -> ssorted l.
Proof. intros H; apply ssorted_cons_inv in H; tauto. Qed.

Lemma In_nthF (l : list R) x : In x l -> exists i, (i < length l)%nat /\ nthF ROps l i = x.
Proof. intros H. destruct (In_nth l x 0 H) as (i & Hi & E). exists i; auto. Qed.

(* ------------------------------------------------------------------ *)
(* 1. searchsorted on strictly sorted lists                             *)

Lemma count_le_cons t x l :
  count_le ROps t (x :: l) = if Rltb t x then count_le ROps t l else S (count_le ROps t l).
Proof. unfold count_le; cbn [filter]. unfold nleb; cbn [nltb ROps]. destruct (Rltb t x); reflexivity. Qed.
Lemma count_lt_cons t x l :
  count_lt ROps t (x :: l) = if Rltb x t then S (count_lt ROps t l) else count_lt ROps t l.
Proof. unfold count_lt; cbn [filter nltb ROps]. destruct (Rltb x t); reflexivity. Qed.

Lemma count_le_all_gt t l : Forall (fun x => t < x) l -> count_le ROps t l = 0%nat.
Proof.
  induction 1 as [|x l H _ IH]; [reflexivity|].
  rewrite count_le_cons, IH. destruct (Rltb_spec t x); [reflexivity|lra].
Qed.
Lemma count_lt_all_ge t l : Forall (fun x => t <= x) l -> count_lt ROps t l = 0%nat.
Proof.
  induction 1 as [|x l H _ IH]; [reflexivity|].
  rewrite count_lt_cons, IH. destruct (Rltb_spec x t); [lra|reflexivity].
Qed.

Lemma filter_len_le {A} (p : A -> bool) l : (length (filter p l) <= length l)%nat.
Proof. induction l as [|a l IH]; cbn; [lia|]. destruct (p a); cbn; lia. Qed.
Lemma count_le_length t l : (count_le ROps t l <= length l)%nat.
Proof. unfold count_le. apply filter_len_le. Qed.
Lemma count_lt_length t l : (count_lt ROps t l <= length l)%nat.
Proof. unfold count_lt. apply filter_len_le. Qed.

Lemma count_le_spec t l : ssorted l -> forall i, (i < length l)%nat ->
  ((i < count_le ROps t l)%nat <-> nthF ROps l i <= t).
Proof.
  induction l as [|x l IH]; intros Hs i Hi; [cbn in Hi; lia|].
  pose proof (ssorted_hd_le _ _ Hs) as Hge.
  apply ssorted_cons_inv in Hs as [S1 S2]. rewrite count_le_cons.
  destruct (Rltb_spec t x) as [Htx|Htx].
  - rewrite count_le_all_gt.
    2:{ eapply Forall_impl; [|exact S2]. cbn; intros; lra. }
    split; [lia|]. intros Hn. exfalso.
    rewrite Forall_forall in Hge. specialize (Hge (nthF ROps (x :: l) i)).
    assert (In (nthF ROps (x :: l) i) (x :: l)) by (apply nth_In; auto).
    apply Hge in H. lra.
  - destruct i as [|i].
    + rewrite nthF_0. split; [lra|lia].
    + rewrite nthF_S. cbn [length] in Hi. rewrite <- IH by (auto; lia). lia.
Qed.

Lemma count_lt_spec t l : ssorted l -> forall i, (i < length l)%nat ->
  ((i < count_lt ROps t l)%nat <-> nthF ROps l i < t).
Proof.
  induction l as [|x l IH]; intros Hs i Hi; [cbn in Hi; lia|].
  pose proof (ssorted_hd_le _ _ Hs) as Hge.
  apply ssorted_cons_inv in Hs as [S1 S2]. rewrite count_lt_cons.
  destruct (Rltb_spec x t) as [Htx|Htx].
  - destruct i as [|i].
    + rewrite nthF_0. split; [lra|lia].
    + rewrite nthF_S. cbn [length] in Hi. rewrite <- IH by (auto; lia). lia.
  - rewrite count_lt_all_ge.
    2:{ eapply Forall_impl; [|exact S2]. cbn; intros; lra. }
    split; [lia|]. intros Hn. exfalso.
    rewrite Forall_forall in Hge. specialize (Hge (nthF ROps (x :: l) i)).
    assert (In (nthF ROps (x :: l) i) (x :: l)) by (apply nth_In; auto).
    apply Hge in H. lra.
Qed.

(* the textbook form: a split of the list at t *)
Lemma count_le_app t l1 l2 : Forall (fun x => x <= t) l1 -> Forall (fun x => t < x) l2 ->
  count_le ROps t (l1 ++ l2) = length l1.
Proof.
  induction 1 as [|x l1 H _ IH]; intros H2; cbn [app length].
  - apply count_le_all_gt; auto.
  - rewrite count_le_cons, IH by auto. destruct (Rltb_spec t x); [lra|reflexivity].
Qed.
Lemma count_lt_app t l1 l2 : Forall (fun x => x < t) l1 -> Forall (fun x => t <= x) l2 ->
  count_lt ROps t (l1 ++ l2) = length l1.
Proof.
  induction 1 as [|x l1 H _ IH]; intros H2; cbn [app length].
  - apply count_lt_all_ge; auto.
  - rewrite count_lt_cons, IH by auto. destruct (Rltb_spec x t); [reflexivity|lra].
Qed.

Lemma count_lt_le_count_le t l : (count_lt ROps t l <= count_le ROps t l)%nat.
Proof.
  induction l as [|x l IH]; [cbn; lia|].
  rewrite count_le_cons, count_lt_cons.
  destruct (Rltb_spec t x), (Rltb_spec x t); try lia; lra.
Qed.

(* ------------------------------------------------------------------ *)
(* 2. pwc_overlap / pwc_int_all                                         *)

Lemma overlap_cons2 x0 x1 r y ys a b :
  pwc_overlap ROps (x0 :: x1 :: r) (y :: ys) a b =
  (if Rltb (Rmax a x0) (Rmin b x1) then y * (Rmin b x1 - Rmax a x0) else 0)
  + pwc_overlap ROps (x1 :: r) ys a b.
Proof. cbn [pwc_overlap]. rops. reflexivity. Qed.

Lemma int_all_cons2 x0 x1 r y ys :
  pwc_int_all ROps (x0 :: x1 :: r) (y :: ys) = (x1 - x0) * y + pwc_int_all ROps (x1 :: r) ys.
Proof. reflexivity. Qed.

Lemma overlap_nil_ys xs a b : pwc_overlap ROps xs [] a b = 0.
Proof. destruct xs as [|? [|? ?]]; reflexivity. Qed.
Lemma int_all_nil_ys xs : pwc_int_all ROps xs [] = 0.
Proof. destruct xs as [|? [|? ?]]; reflexivity. Qed.

Ltac segt :=
  unfold Rmax, Rmin;
  repeat match goal with
         | |- context [Rle_dec ?a ?b] => destruct (Rle_dec a b)
         end;
  repeat match goal with
         | |- context [Rltb ?a ?b] => destruct (Rltb_spec a b)
         end; try lra; try nra; try (rewrite ?Rplus_0_r, ?Rplus_0_l; f_equal; lra).

Lemma overlap_right0 xs : forall ys a b, Forall (fun x => b <= x) xs -> pwc_overlap ROps xs ys a b = 0.
Proof.
  induction xs as [|x0 xs IH]; intros ys a b H; [reflexivity|].
  destruct xs as [|x1 r]; [reflexivity|]. destruct ys as [|y ys]; [reflexivity|].
  inversion H as [|? ? H0 H1]; subst. rewrite overlap_cons2, IH by auto.
  inversion H1; subst. segt.
Qed.

Lemma overlap_left0 xs : forall ys a b, Forall (fun x => x <= a) xs -> pwc_overlap ROps xs ys a b = 0.
Proof.
  induction xs as [|x0 xs IH]; intros ys a b H; [reflexivity|].
  destruct xs as [|x1 r]; [reflexivity|]. destruct ys as [|y ys]; [reflexivity|].
  inversion H as [|? ? H0 H1]; subst. rewrite overlap_cons2, IH by auto.
  inversion H1; subst. segt.
Qed.

Lemma overlap_int_all xs : forall ys a b, ssorted xs -> Forall (fun x => a <= x <= b) xs ->
  pwc_overlap ROps xs ys a b = pwc_int_all ROps xs ys.
Proof.
  induction xs as [|x0 xs IH]; intros ys a b Hs H; [reflexivity|].
  destruct xs as [|x1 r]; [reflexivity|]. destruct ys as [|y ys]; [reflexivity|].
  inversion H as [|? ? H0 H1]; subst. rewrite overlap_cons2, int_all_cons2, IH; auto.
  2:{ eapply ssorted_tl; eauto. }
  apply ssorted_cons_inv in Hs as [_ Hs]. inversion Hs; subst. inversion H1; subst.
  rewrite (Rmin_right b x1) by lra. rewrite (Rmax_right a x0) by lra.
  destruct (Rltb_spec x0 x1); lra.
Qed.

(* 3. additivity in the integration limits *)
Theorem pwc_overlap_additive : forall xs ys a b c, ssorted xs -> a <= b -> b <= c ->
  pwc_overlap ROps xs ys a b + pwc_overlap ROps xs ys b c = pwc_overlap ROps xs ys a c.
Proof.
  induction xs as [|x0 xs IH]; intros ys a b c Hs Hab Hbc; [cbn; lra|].
  destruct xs as [|x1 r]; [cbn; lra|]. destruct ys as [|y ys]; [cbn; lra|].
  rewrite !overlap_cons2.
  assert (Hx : x0 < x1).
  { apply ssorted_cons_inv in Hs as [_ Hs]. inversion Hs; auto. }
  rewrite <- (IH ys a b c (ssorted_tl _ _ Hs) Hab Hbc).
  assert (E : (if Rltb (Rmax a x0) (Rmin b x1) then y * (Rmin b x1 - Rmax a x0) else 0)
            + (if Rltb (Rmax b x0) (Rmin c x1) then y * (Rmin c x1 - Rmax b x0) else 0)
            = (if Rltb (Rmax a x0) (Rmin c x1) then y * (Rmin c x1 - Rmax a x0) else 0)).
  { segt. }
  lra.
Qed.

(* one piece: x_i <= a <= b <= x_{i+1} *)
Lemma overlap_piece : forall i xs ys a b, ssorted xs -> (S i < length xs)%nat -> (i < length ys)%nat ->
  nthF ROps xs i <= a -> a <= b -> b <= nthF ROps xs (S i) ->
  pwc_overlap ROps xs ys a b = nthF ROps ys i * (b - a).
Proof.
  induction i as [|i IH]; intros xs ys a b Hs Hl Hy H1 H2 H3.
  - destruct xs as [|x0 [|x1 r]]; cbn [length] in Hl; try lia.
    destruct ys as [|y ys]; cbn [length] in Hy; try lia.
    rewrite overlap_cons2, overlap_right0.
    2:{ apply ssorted_tl in Hs. apply ssorted_hd_le in Hs.
        eapply Forall_impl; [|exact Hs]. cbn. rewrite !nthF_S, nthF_0 in H3. intros; lra. }
    rewrite nthF_0 in *. rewrite nthF_S, nthF_0 in H3.
    rewrite (Rmax_left a x0) by lra. rewrite (Rmin_left b x1) by lra.
    destruct (Rltb_spec a b); [lra | replace b with a by lra; lra].
  - destruct xs as [|x0 [|x1 r]]; cbn [length] in Hl; try lia.
    destruct ys as [|y ys]; cbn [length] in Hy; try lia.
    rewrite overlap_cons2. rewrite !nthF_S in *.
    rewrite (IH (x1 :: r) ys a b); auto; [| eapply ssorted_tl; eauto | cbn [length]; lia | lia].
    assert (x1 <= nthF ROps (x1 :: r) i).
    { apply (ssorted_nth_le (x1 :: r)) with (i := 0%nat); [eapply ssorted_tl; eauto | lia | cbn [length]; lia]. }
    segt.
Qed.

Lemma skipn_nil_any {A} k : skipn k (@nil A) = [].
Proof. destruct k; reflexivity. Qed.

Lemma overlap_skipn : forall k xs ys a b, ssorted xs -> (k < length xs)%nat -> nthF ROps xs k <= a ->
  pwc_overlap ROps xs ys a b = pwc_overlap ROps (skipn k xs) (skipn k ys) a b.
Proof.
  induction k as [|k IH]; intros xs ys a b Hs Hl Ha; [reflexivity|].
  destruct xs as [|x0 [|x1 r]]; cbn [length] in Hl; try lia.
  destruct ys as [|y ys].
  { rewrite skipn_nil_any, !overlap_nil_ys. reflexivity. }
  rewrite overlap_cons2. cbn [skipn]. rewrite nthF_S in Ha.
  rewrite (IH (x1 :: r) ys a b); auto; [| eapply ssorted_tl; eauto | cbn [length]; lia].
  assert (x1 <= nthF ROps (x1 :: r) k).
  { apply (ssorted_nth_le (x1 :: r)) with (i := 0%nat); [eapply ssorted_tl; eauto | lia | cbn [length]; lia]. }
  cbn [skipn]. segt.
Qed.

Lemma overlap_prefix : forall e xs ys a, ssorted xs -> (e < length xs)%nat -> a <= nthF ROps xs 0 ->
  pwc_overlap ROps xs ys a (nthF ROps xs e) = pwc_int_all ROps (firstn (e + 1) xs) (firstn e ys).
Proof.
  induction e as [|e IH]; intros xs ys a Hs Hl Ha.
  - destruct xs as [|x0 r]; [reflexivity|]. cbn [firstn Nat.add].
    rewrite int_all_nil_ys. apply overlap_right0. rewrite nthF_0. apply ssorted_hd_le; auto.
  - destruct xs as [|x0 [|x1 r]]; cbn [length] in Hl; try lia.
    destruct ys as [|y ys].
    { rewrite overlap_nil_ys. cbn [firstn]. rewrite int_all_nil_ys. reflexivity. }
    rewrite overlap_cons2, nthF_S. cbn [firstn Nat.add].
    assert (Hx : x0 < x1).
    { apply ssorted_cons_inv in Hs as [_ Hs]. inversion Hs; auto. }
    rewrite nthF_0 in Ha.
    rewrite (IH (x1 :: r) ys a); [| eapply ssorted_tl; eauto | cbn [length]; lia | rewrite nthF_0; lra].
    replace (firstn (e + 1) (x1 :: r)) with (x1 :: firstn e r)
      by (replace (e + 1)%nat with (S e) by lia; reflexivity).
    rewrite int_all_cons2.
    assert (x1 <= nthF ROps (x1 :: r) e).
    { apply (ssorted_nth_le (x1 :: r)) with (i := 0%nat); [eapply ssorted_tl; eauto | lia | cbn [length]; lia]. }
    rewrite (Rmax_right a x0) by lra. rewrite (Rmin_right _ x1) by lra.
    destruct (Rltb_spec x0 x1); lra.
Qed.

Lemma nth_skipn_R : forall s k (l : list R), nthF ROps (skipn s l) k = nthF ROps l (s + k).
Proof.
  induction s as [|s IH]; intros k l; [reflexivity|].
  destruct l as [|x l]; [destruct k; reflexivity|]. cbn [skipn Nat.add]. rewrite nthF_S. apply IH.
Qed.

Lemma ssorted_skipn : forall k l, ssorted l -> ssorted (skipn k l).
Proof.
  induction k as [|k IH]; intros l Hs; [exact Hs|]. destruct l as [|x l]; [exact Hs|].
  cbn [skipn]. apply IH. eapply ssorted_tl; eauto.
Qed.

(* between two breakpoints: the numpy slices *)
Lemma overlap_slice xs ys s e : ssorted xs -> (s <= e)%nat -> (e < length xs)%nat ->
  pwc_overlap ROps xs ys (nthF ROps xs s) (nthF ROps xs e) =
  pwc_int_all ROps (slice xs s (e + 1)) (slice ys s e).
Proof.
  intros Hs Hse He. rewrite (overlap_skipn s xs ys) by (auto; try lia; lra).
  unfold slice. replace (e + 1 - s)%nat with ((e - s) + 1)%nat by lia.
  replace (nthF ROps xs e) with (nthF ROps (skipn s xs) (e - s)).
  2:{ rewrite nth_skipn_R. f_equal. lia. }
  apply overlap_prefix.
  - apply ssorted_skipn; auto.
  - rewrite skipn_length. lia.
  - rewrite nth_skipn_R. replace (s + 0)%nat with s by lia. lra.
Qed.

(* ------------------------------------------------------------------ *)
(* 3. integral and average (C10)                                        *)

Lemma ssorted_bounds l : ssorted l ->
  Forall (fun x => nthF ROps l 0 <= x <= lastF ROps l) l.
Proof.
  intros Hs. apply Forall_forall. intros x Hx.
  destruct (In_nthF _ _ Hx) as (i & Hi & <-). split.
  - apply ssorted_nth_le; auto; lia.
  - apply ssorted_le_last; auto.
Qed.

Theorem pwc_integral_none : forall f, wf_pwc f ->
  pwc_integral ROps f None =
  Ok (pwc_overlap ROps (fst f) (snd f) (nthF ROps (fst f) 0) (lastF ROps (fst f))).
Proof.
  intros [xs ys] [[Hs Hl] Hlen]. cbn [fst snd] in *. unfold pwc_integral.
  f_equal. symmetry. apply overlap_int_all; auto. apply ssorted_bounds; auto.
Qed.

Lemma integral_indices xs a b : ssorted xs -> (2 <= length xs)%nat ->
  nthF ROps xs 0 <= a -> a < b -> b <= lastF ROps xs ->
  exists s cl, count_le ROps a xs = S s /\ count_lt ROps b xs = S cl /\
    (S s <= length xs - 1)%nat /\ (S cl <= length xs - 1)%nat /\
    nthF ROps xs s <= a /\ a < nthF ROps xs (S s) /\
    nthF ROps xs cl < b /\ b <= nthF ROps xs (S cl).
Proof.
  intros Hs Hl H0 Hab Hb.
  pose proof (count_le_spec a xs Hs) as CL. pose proof (count_lt_spec b xs Hs) as CT.
  rewrite lastF_nth in Hb.
  destruct (count_le ROps a xs) as [|s] eqn:Es.
  { exfalso. assert (0 < 0)%nat; [|lia]. apply CL; [lia|exact H0]. }
  destruct (count_lt ROps b xs) as [|cl] eqn:Ec.
  { exfalso. assert (0 < 0)%nat; [|lia]. apply CT; [lia|lra]. }
  assert (B1 : (S s <= length xs - 1)%nat).
  { destruct (le_lt_dec (S s) (length xs - 1)) as [|Hc]; auto. exfalso.
    assert (nthF ROps xs (length xs - 1) <= a) by (apply CL; lia). lra. }
  assert (B2 : (S cl <= length xs - 1)%nat).
  { destruct (le_lt_dec (S cl) (length xs - 1)) as [|Hc]; auto. exfalso.
    assert (nthF ROps xs (length xs - 1) < b) by (apply CT; lia). lra. }
  exists s, cl. repeat split; auto.
  - apply CL; lia.
  - destruct (Rlt_le_dec a (nthF ROps xs (S s))) as [|Hc]; auto. apply CL in Hc; lia.
  - apply CT; lia.
  - destruct (Rlt_le_dec (nthF ROps xs (S cl)) b) as [Hc|]; auto. apply CT in Hc; lia.
Qed.

Theorem pwc_integral_overlap : forall f a b, wf_pwc f ->
  nthF ROps (fst f) 0 <= a -> a < b -> b <= lastF ROps (fst f) ->
  pwc_integral ROps f (Some (a, b)) = Ok (pwc_overlap ROps (fst f) (snd f) a b).
Proof.
  intros [xs ys] a b [[Hs Hl] Hlen] H0 Hab Hb. cbn [fst snd] in *.
  destruct (integral_indices xs a b Hs Hl H0 Hab Hb)
    as (s & cl & Es & Ec & B1 & B2 & A1 & A2 & C1 & C2).
  unfold pwc_integral. cbn [nltb ROps].
  destruct (Rltb_spec b a); [lra|]. destruct (Rltb_spec a (nthF ROps xs 0)); [lra|].
  destruct (Rltb_spec (lastF ROps xs) b); [lra|].
  rewrite Es, Ec. cbn [Nat.eqb].
  replace (S cl - 1)%nat with cl by lia.
  destruct (Nat.ltb_spec cl (S s)) as [Hlt|Hge].
  - (* both ends inside one piece *)
    assert (s = cl).
    { destruct (Nat.eq_dec s cl) as [|N]; auto. exfalso.
      assert (nthF ROps xs (S cl) <= nthF ROps xs s) by (apply ssorted_nth_le; auto; lia). lra. }
    subst cl. f_equal.
    rewrite (overlap_piece s xs ys a b); auto; try lia; try lra.
    cbn [nadd nsub nmul ROps]. ring.
  - (* general branch *)
    replace ((0 <? S s)%nat) with true by (symmetry; apply Nat.ltb_lt; lia).
    replace ((cl <? length xs)%nat) with true by (symmetry; apply Nat.ltb_lt; lia).
    cbn [andb negb]. f_equal.
    replace (S s - 1)%nat with s by lia.
    assert (X1 : nthF ROps xs (S s) <= nthF ROps xs cl) by (apply ssorted_nth_le; auto; lia).
    rewrite <- (pwc_overlap_additive xs ys a (nthF ROps xs (S s)) b) by (auto; lra).
    rewrite <- (pwc_overlap_additive xs ys (nthF ROps xs (S s)) (nthF ROps xs cl) b) by (auto; lra).
    rewrite (overlap_piece s xs ys a (nthF ROps xs (S s))); auto; try lia; try lra.
    rewrite (overlap_piece cl xs ys (nthF ROps xs cl) b); auto; try lia; try lra.
    rewrite (overlap_slice xs ys (S s) cl); auto; try lia.
    cbn [nadd nsub nmul ROps]. ring.
Qed.

Theorem pwc_integral_bad : forall f a b, wf_pwc f ->
  (b < a \/ a < nthF ROps (fst f) 0 \/ lastF ROps (fst f) < b) ->
  pwc_integral ROps f (Some (a, b)) = Err ValueError.
Proof.
  intros [xs ys] a b _ H. cbn [fst snd] in *. unfold pwc_integral. cbn [nltb ROps].
  destruct (Rltb_spec b a); [reflexivity|]. destruct (Rltb_spec a (nthF ROps xs 0)); [reflexivity|].
  destruct (Rltb_spec (lastF ROps xs) b); [reflexivity|]. lra.
Qed.

Theorem pwc_avrg_one : forall f a b, wf_pwc f ->
  nthF ROps (fst f) 0 <= a -> a < b -> b <= lastF ROps (fst f) ->
  pwc_avrg ROps f (IvOne a b) = Ok (pwc_overlap ROps (fst f) (snd f) a b / (b - a)).
Proof.
  intros f a b Hw H0 Hab Hb. unfold pwc_avrg, avrg_gen.
  rewrite pwc_integral_overlap by auto. reflexivity.
Qed.

Lemma sum_res_integrals f l : wf_pwc f ->
  Forall (fun p => nthF ROps (fst f) 0 <= fst p /\ fst p < snd p /\ snd p <= lastF ROps (fst f)) l ->
  sum_res ROps (map (fun p => pwc_integral ROps f (Some p)) l) =
  Ok (sumF ROps (map (fun p => pwc_overlap ROps (fst f) (snd f) (fst p) (snd p)) l)).
Proof.
  intros Hw. induction 1 as [|[a b] l (H0 & Hab & Hb) _ IH]; [reflexivity|].
  cbn [map sum_res fst snd] in *. rewrite pwc_integral_overlap by auto. rewrite IH. reflexivity.
Qed.

Theorem pwc_avrg_many : forall f l, wf_pwc f ->
  Forall (fun p => nthF ROps (fst f) 0 <= fst p /\ fst p < snd p /\ snd p <= lastF ROps (fst f)) l ->
  pwc_avrg ROps f (IvMany l) =
  Ok (sumF ROps (map (fun p => pwc_overlap ROps (fst f) (snd f) (fst p) (snd p)) l)
      / sumF ROps (map (fun p => snd p - fst p) l)).
Proof.
  intros f l Hw H. unfold pwc_avrg, avrg_gen. rewrite sum_res_integrals by auto. reflexivity.
Qed.

(* ------------------------------------------------------------------ *)
(* 4. evaluation (C10)                                                  *)

Lemma pwc_right_cons2 a b r y ys t :
  pwc_right ROps (a :: b :: r) (y :: ys) t =
  if negb (Rltb t a) && Rltb t b then Some y else pwc_right ROps (b :: r) ys t.
Proof. reflexivity. Qed.
Lemma pwc_left_cons2 a b r y ys t :
  pwc_left ROps (a :: b :: r) (y :: ys) t =
  if Rltb a t && negb (Rltb b t) then Some y else pwc_left ROps (b :: r) ys t.
Proof. reflexivity. Qed.

Lemma ssorted_hd_le_nth x l i : ssorted (x :: l) -> (i < length (x :: l))%nat -> x <= nthF ROps (x :: l) i.
Proof. intros Hs Hi. apply (ssorted_nth_le (x :: l) Hs 0 i); auto; lia. Qed.

Lemma pwc_right_idx : forall i xs ys t, ssorted xs -> (S i < length xs)%nat -> (i < length ys)%nat ->
  nthF ROps xs i <= t -> t < nthF ROps xs (S i) -> pwc_right ROps xs ys t = Some (nthF ROps ys i).
Proof.
  induction i as [|i IH]; intros xs ys t Hs Hl Hy H1 H2;
    (destruct xs as [|x0 [|x1 r]]; cbn [length] in Hl; try lia);
    (destruct ys as [|y ys]; cbn [length] in Hy; try lia);
    rewrite pwc_right_cons2; rewrite ?nthF_S, ?nthF_0 in *.
  - destruct (Rltb_spec t x0); [lra|]. destruct (Rltb_spec t x1); [reflexivity|lra].
  - pose proof (ssorted_hd_le_nth x1 r i (ssorted_tl _ _ Hs)) as Hh. cbn [length] in Hh.
    destruct (Rltb_spec t x1) as [Hc|Hc]; [exfalso; assert (x1 <= nthF ROps (x1 :: r) i) by (apply Hh; lia); lra|].
    rewrite andb_false_r. apply IH; auto; [eapply ssorted_tl; eauto | cbn [length]; lia | lia].
Qed.

Lemma pwc_left_idx : forall i xs ys t, ssorted xs -> (S i < length xs)%nat -> (i < length ys)%nat ->
  nthF ROps xs i < t -> t <= nthF ROps xs (S i) -> pwc_left ROps xs ys t = Some (nthF ROps ys i).
Proof.
  induction i as [|i IH]; intros xs ys t Hs Hl Hy H1 H2;
    (destruct xs as [|x0 [|x1 r]]; cbn [length] in Hl; try lia);
    (destruct ys as [|y ys]; cbn [length] in Hy; try lia);
    rewrite pwc_left_cons2; rewrite ?nthF_S, ?nthF_0 in *.
  - destruct (Rltb_spec x0 t); [|lra]. destruct (Rltb_spec x1 t); [lra|reflexivity].
  - pose proof (ssorted_hd_le_nth x1 r i (ssorted_tl _ _ Hs)) as Hh. cbn [length] in Hh.
    destruct (Rltb_spec x1 t) as [Hc|Hc]; [|exfalso; assert (x1 <= nthF ROps (x1 :: r) i) by (apply Hh; lia); lra].
    cbn [negb]. rewrite andb_false_r. apply IH; auto; [eapply ssorted_tl; eauto | cbn [length]; lia | lia].
Qed.

Lemma pwc_left_none xs : forall ys t, Forall (fun x => t <= x) xs -> pwc_left ROps xs ys t = None.
Proof.
  induction xs as [|x0 xs IH]; intros ys t H; [reflexivity|].
  destruct xs as [|x1 r]; [reflexivity|]. destruct ys as [|y ys]; [reflexivity|].
  inversion H; subst. rewrite pwc_left_cons2, IH by auto.
  destruct (Rltb_spec x0 t); [lra|reflexivity].
Qed.
Lemma pwc_right_none xs : forall ys t, Forall (fun x => x <= t) xs -> pwc_right ROps xs ys t = None.
Proof.
  induction xs as [|x0 xs IH]; intros ys t H; [reflexivity|].
  destruct xs as [|x1 r]; [reflexivity|]. destruct ys as [|y ys]; [reflexivity|].
  inversion H as [|? ? ? H1]; subst. inversion H1; subst. rewrite pwc_right_cons2, IH by auto.
  destruct (Rltb_spec t x1); [lra|]. rewrite andb_false_r. reflexivity.
Qed.

Lemma existsb_eq_In t xs : existsb (fun x => neqb ROps x t) xs = true <-> In t xs.
Proof.
  rewrite existsb_exists. cbn [neqb ROps]. split.
  - intros (x & Hx & E). apply Reqb_true in E. subst; auto.
  - intros H. exists t. split; auto. apply Reqb_true; auto.
Qed.

Lemma count_le_lt_notIn t xs : ~ In t xs -> count_le ROps t xs = count_lt ROps t xs.
Proof.
  induction xs as [|x xs IH]; intros H; [reflexivity|].
  rewrite count_le_cons, count_lt_cons, IH by (intros ?; apply H; right; auto).
  assert (x <> t) by (intros ->; apply H; left; auto).
  destruct (Rltb_spec t x), (Rltb_spec x t); try reflexivity; lra.
Qed.
Lemma count_le_lt_In t xs : ssorted xs -> In t xs -> count_le ROps t xs = S (count_lt ROps t xs).
Proof.
  induction xs as [|x xs IH]; intros Hs H; [destruct H|].
  apply ssorted_cons_inv in Hs as [S1 S2].
  rewrite count_le_cons, count_lt_cons. destruct H as [->|H].
  - rewrite count_le_all_gt by auto.
    rewrite count_lt_all_ge by (eapply Forall_impl; [|exact S2]; cbn; intros; lra).
    destruct (Rltb_spec t t); [lra|reflexivity].
  - rewrite IH by auto. rewrite Forall_forall in S2. apply S2 in H.
    destruct (Rltb_spec t x), (Rltb_spec x t); try reflexivity; lra.
Qed.
Lemma count_le_all_le t l : Forall (fun x => x <= t) l -> count_le ROps t l = length l.
Proof. intros H. rewrite <- (app_nil_r l) at 1. rewrite count_le_app; auto. Qed.

Lemma ssorted_bounds_lo l t : ssorted l -> t <= nthF ROps l 0 -> Forall (fun x => t <= x) l.
Proof. intros Hs H. eapply Forall_impl; [|apply ssorted_bounds; auto]. cbn; intros; lra. Qed.
Lemma ssorted_bounds_hi l t : ssorted l -> lastF ROps l <= t -> Forall (fun x => x <= t) l.
Proof. intros Hs H. eapply Forall_impl; [|apply ssorted_bounds; auto]. cbn; intros; lra. Qed.

(* position of an interior point *)
Lemma eval_indices xs t : ssorted xs -> (2 <= length xs)%nat ->
  nthF ROps xs 0 <= t -> t < lastF ROps xs ->
  exists k, count_le ROps t xs = S k /\ (S k <= length xs - 1)%nat /\
            nthF ROps xs k <= t /\ t < nthF ROps xs (S k).
Proof.
  intros Hs Hl H0 H1.
  destruct (integral_indices xs t (lastF ROps xs) Hs Hl H0 H1 (Rle_refl _))
    as (s & cl & Es & _ & B1 & _ & A1 & A2 & _). exists s. auto.
Qed.

Lemma in_range_guard xs t : nthF ROps xs 0 <= t <= lastF ROps xs ->
  negb (nleb ROps (nthF ROps xs 0) t && nleb ROps t (lastF ROps xs)) = false.
Proof.
  intros [H1 H2]. apply nleb_true in H1. apply nleb_true in H2. rewrite H1, H2. reflexivity.
Qed.
Lemma out_range_guard xs t : t < nthF ROps xs 0 \/ lastF ROps xs < t ->
  negb (nleb ROps (nthF ROps xs 0) t && nleb ROps t (lastF ROps xs)) = true.
Proof.
  intros [H|H]; apply nleb_false in H; rewrite H; [reflexivity|].
  rewrite andb_false_r. reflexivity.
Qed.

Theorem pwc_call_scalar_eval : forall f t, wf_pwc f ->
  nthF ROps (fst f) 0 <= t <= lastF ROps (fst f) ->
  exists v, pwc_eval ROps f t = Some v /\ pwc_call_scalar ROps f t = Ok v.
Proof.
  intros [xs ys] t [[Hs Hl] Hlen] Ht. cbn [fst snd] in *.
  unfold pwc_call_scalar, pwc_eval. cbn [fst snd]. rewrite in_range_guard by auto.
  pose proof (ssorted_first_lt_last xs Hs Hl) as Hfl. cbn [neqb ROps].
  destruct (Reqb_spec t (nthF ROps xs 0)) as [E0|N0].
  { exists (nthF ROps ys 0). split; [|reflexivity].
    rewrite pwc_left_none by (apply ssorted_bounds_lo; auto; lra).
    rewrite (pwc_right_idx 0 xs ys t); auto; try lia; try lra.
    subst t. apply (ssorted_nth_lt xs Hs 0 1); lia. }
  destruct (Reqb_spec t (lastF ROps xs)) as [E1|N1].
  { exists (lastF ROps ys). split; [|reflexivity].
    rewrite pwc_right_none by (apply ssorted_bounds_hi; auto; lra).
    rewrite (lastF_nth ys). replace (length ys - 1)%nat with (length xs - 2)%nat by lia.
    rewrite (pwc_left_idx (length xs - 2) xs ys t); auto; try lia.
    - subst t. rewrite lastF_nth. apply ssorted_nth_lt; auto; lia.
    - subst t. rewrite lastF_nth. replace (S (length xs - 2)) with (length xs - 1)%nat by lia. lra. }
  destruct (eval_indices xs t Hs Hl) as (k & Ek & Bk & K1 & K2); try lra.
  rewrite Ek. replace (S k - 1)%nat with k by lia.
  destruct (existsb (fun x => Reqb x t) xs) eqn:Ex.
  - apply (existsb_eq_In t xs) in Ex. destruct (In_nthF _ _ Ex) as (j & Hj & Ej).
    assert (j = k).
    { assert (j < S k)%nat by (rewrite <- Ek; apply count_le_spec; auto; lra).
      destruct (Nat.eq_dec j k) as [|N]; auto. exfalso.
      assert (nthF ROps xs j < nthF ROps xs k) by (apply ssorted_nth_lt; auto; lia). lra. }
    subst j. destruct k as [|k]; [exfalso; lra|].
    replace (S (S k) - 2)%nat with k by lia.
    rewrite (pwc_left_idx k xs ys t); auto; try lia; try lra.
    2:{ rewrite <- Ej. apply ssorted_nth_lt; auto; lia. }
    rewrite (pwc_right_idx (S k) xs ys t); auto; try lia; try lra.
    cbn [eval_of]. eexists; split; [reflexivity|]. f_equal. rops. lra.
  - assert (Hn : ~ In t xs).
    { intros Hin. apply (existsb_eq_In t xs) in Hin. cbn [neqb ROps] in Hin. congruence. }
    assert (nthF ROps xs k <> t).
    { intros E. apply Hn. rewrite <- E. apply nth_In. lia. }
    rewrite (pwc_left_idx k xs ys t); auto; try lia; try lra.
    rewrite (pwc_right_idx k xs ys t); auto; try lia; try lra.
    cbn [eval_of]. eexists; split; [reflexivity|]. f_equal. rops. lra.
Qed.

Theorem pwc_call_outside : forall f t, wf_pwc f ->
  (t < nthF ROps (fst f) 0 \/ lastF ROps (fst f) < t) ->
  pwc_call_scalar ROps f t = Err AssertionError.
Proof.
  intros [xs ys] t _ H. cbn [fst snd] in *. unfold pwc_call_scalar.
  rewrite out_range_guard by auto. reflexivity.
Qed.

Theorem pwc_call_paths_agree : forall f t, wf_pwc f ->
  pwc_call_seq1 ROps f t = pwc_call_scalar ROps f t.
Proof.
  intros [xs ys] t [[Hs Hl] Hlen]. cbn [fst snd] in *.
  unfold pwc_call_seq1, pwc_call_scalar.
  destruct (negb (nleb ROps (nthF ROps xs 0) t && nleb ROps t (lastF ROps xs))) eqn:G; [reflexivity|].
  apply negb_false_iff, andb_true_iff in G. destruct G as [G1 G2].
  apply nleb_true in G1. apply nleb_true in G2.
  pose proof (ssorted_first_lt_last xs Hs Hl) as Hfl. cbn [neqb ROps]. cbv zeta.
  destruct (Reqb_spec t (nthF ROps xs 0)) as [E0|N0].
  { destruct (eval_indices xs t Hs Hl) as (k & Ek & Bk & K1 & K2); try lra.
    assert (k = 0)%nat.
    { destruct k as [|k]; auto. exfalso.
      assert (nthF ROps xs 0 < nthF ROps xs (S k)) by (apply ssorted_nth_lt; auto; lia). lra. }
    subst k. rewrite Ek. change ((1 =? 0)%nat) with false. cbv iota.
    replace ((1 =? length xs)%nat) with false by (symmetry; apply Nat.eqb_neq; lia).
    change ((1 <? 1)%nat) with false. rewrite andb_false_r. reflexivity. }
  destruct (Reqb_spec t (lastF ROps xs)) as [E1|N1].
  { assert (Hin : In t xs).
    { subst t. rewrite lastF_nth. apply nth_In. lia. }
    pose proof (count_le_lt_In t xs Hs Hin) as Hc.
    rewrite count_le_all_le in Hc by (apply ssorted_bounds_hi; auto; lra).
    rewrite count_le_all_le by (apply ssorted_bounds_hi; auto; lra).
    replace ((length xs =? 0)%nat) with false by (symmetry; apply Nat.eqb_neq; lia).
    rewrite Nat.eqb_refl.
    replace (count_lt ROps t xs) with (length xs - 1)%nat by lia.
    rewrite Nat.eqb_refl. cbn [negb andb]. rewrite lastF_nth. do 2 f_equal. lia. }
  destruct (eval_indices xs t Hs Hl) as (k & Ek & Bk & K1 & K2); try lra.
  rewrite Ek. change ((S k =? 0)%nat) with false. cbv iota.
  replace ((S k =? length xs)%nat) with false by (symmetry; apply Nat.eqb_neq; lia).
  destruct (existsb (fun x => Reqb x t) xs) eqn:Ex.
  - apply (existsb_eq_In t xs) in Ex.
    pose proof (count_le_lt_In t xs Hs Ex) as Hc. rewrite Ek in Hc. injection Hc as Hc. rewrite <- Hc.
    assert (k <> 0)%nat.
    { intros ->. destruct (In_nthF _ _ Ex) as (j & Hj & Ej).
      destruct j as [|j]; [lra|].
      assert (S j < 1)%nat by (rewrite <- Ek; apply count_le_spec; auto; lra). lia. }
    replace ((S k =? k)%nat) with false by (symmetry; apply Nat.eqb_neq; lia).
    replace ((1 <? S k)%nat) with true by (symmetry; apply Nat.ltb_lt; lia).
    replace ((S k <? length xs)%nat) with true by (symmetry; apply Nat.ltb_lt; lia).
    reflexivity.
  - assert (Hn : ~ In t xs).
    { intros Hin. apply (existsb_eq_In t xs) in Hin. cbn [neqb ROps] in Hin. congruence. }
    rewrite <- (count_le_lt_notIn t xs Hn), Ek, Nat.eqb_refl. reflexivity.
Qed.

(* ------------------------------------------------------------------ *)
(* 5. sort_unique, pieces, pwc_at                                       *)

Lemma insert_u_cons x y r :
  insert_u ROps x (y :: r) =
  if Rltb x y then x :: y :: r else if Reqb x y then y :: r else y :: insert_u ROps x r.
Proof. reflexivity. Qed.

Lemma insert_u_In x l : forall z, In z (insert_u ROps x l) <-> z = x \/ In z l.
Proof.
  induction l as [|y r IH]; intros z.
  - cbn. intuition.
  - rewrite insert_u_cons. destruct (Rltb_spec x y) as [H|H].
    + cbn [In]. intuition.
    + destruct (Reqb_spec x y) as [E|E].
      * subst. cbn [In]. intuition.
      * cbn [In]. rewrite IH. intuition.
Qed.

Lemma ssorted_cons_lt p x l : ssorted (x :: l) -> p < x -> ssorted (p :: x :: l).
Proof.
  intros Hs H. apply ssorted_cons; auto.
  eapply Forall_impl; [|apply ssorted_hd_le; exact Hs]. cbn; intros; lra.
Qed.

Lemma insert_u_sorted x l : ssorted l -> ssorted (insert_u ROps x l).
Proof.
  induction l as [|y r IH]; intros Hs.
  - cbn. apply ssorted_cons; [apply ssorted_nil|constructor].
  - rewrite insert_u_cons. destruct (Rltb_spec x y) as [H|H].
    + apply ssorted_cons_lt; auto.
    + destruct (Reqb_spec x y) as [E|E]; auto.
      apply ssorted_cons_inv in Hs as [S1 S2]. apply ssorted_cons; auto.
      apply Forall_forall. intros z Hz. apply insert_u_In in Hz as [->|Hz]; [lra|].
      rewrite Forall_forall in S2; auto.
Qed.

Lemma sort_unique_In l : forall z, In z (sort_unique ROps l) <-> In z l.
Proof.
  induction l as [|x l IH]; intros z; [reflexivity|].
  unfold sort_unique in *. cbn [fold_right]. rewrite insert_u_In, IH. cbn [In]. intuition.
Qed.
Lemma sort_unique_sorted l : ssorted (sort_unique ROps l).
Proof.
  induction l as [|x l IH]; [apply ssorted_nil|].
  unfold sort_unique in *. cbn [fold_right]. apply insert_u_sorted; auto.
Qed.

Lemma ssorted_ext l : forall l', ssorted l -> ssorted l' -> (forall x, In x l <-> In x l') -> l = l'.
Proof.
  induction l as [|a l IH]; intros [|b l'] Hs Hs' H.
  - reflexivity.
  - exfalso. apply (H b). left; auto.
  - exfalso. apply (H a). left; auto.
  - apply ssorted_cons_inv in Hs as [S1 S2]. apply ssorted_cons_inv in Hs' as [S1' S2'].
    rewrite Forall_forall in S2, S2'.
    assert (a = b).
    { destruct (proj1 (H a) (or_introl eq_refl)) as [E|Ha]; auto.
      destruct (proj2 (H b) (or_introl eq_refl)) as [E|Hb]; auto.
      apply S2' in Ha. apply S2 in Hb. lra. }
    subst b. f_equal. apply IH; auto. intros x. split; intros Hx.
    + destruct (proj1 (H x) (or_intror Hx)) as [E|]; auto. apply S2 in Hx. lra.
    + destruct (proj2 (H x) (or_intror Hx)) as [E|]; auto. apply S2' in Hx. lra.
Qed.

Lemma sort_unique_char l l' : ssorted l' -> (forall x, In x l' <-> In x l) -> sort_unique ROps l = l'.
Proof.
  intros Hs H. apply ssorted_ext; auto using sort_unique_sorted.
  intros x. rewrite sort_unique_In, H. reflexivity.
Qed.

Lemma mid_R a b : mid ROps (a, b) = (a + b) / 2.
Proof. unfold mid. rops. reflexivity. Qed.
Lemma mid_between a b : a < b -> a < mid ROps (a, b) < b.
Proof. intros H. rewrite mid_R. lra. Qed.

Lemma pieces_cons2 a b (r : list R) : pieces (a :: b :: r) = (a, b) :: pieces (b :: r).
Proof. reflexivity. Qed.

Lemma pieces_length (l : list R) : length (pieces l) = (length l - 1)%nat.
Proof.
  induction l as [|a [|b r] IH]; try reflexivity.
  rewrite pieces_cons2. cbn [length] in *. rewrite IH. lia.
Qed.

(* consecutive breakpoints: nothing of the list lies strictly between them *)
Lemma pieces_In l : ssorted l -> forall q, In q (pieces l) ->
  In (fst q) l /\ In (snd q) l /\ fst q < snd q /\ (forall z, In z l -> z <= fst q \/ snd q <= z).
Proof.
  induction l as [|a [|b r] IH]; intros Hs q Hq; [destruct Hq | destruct Hq |].
  rewrite pieces_cons2 in Hq. pose proof (ssorted_tl _ _ Hs) as Hs1.
  pose proof (ssorted_hd_le _ _ Hs1) as Hb. rewrite Forall_forall in Hb.
  assert (Hab : a < b).
  { apply ssorted_cons_inv in Hs as [_ F]. inversion F; auto. }
  destruct Hq as [<-|Hq]; cbn [fst snd].
  - repeat split; auto; [left; auto | right; left; auto |].
    intros z [<-|Hz]; [left; lra | right; apply Hb; auto].
  - destruct (IH Hs1 q Hq) as (I1 & I2 & I3 & I4).
    repeat split; auto; [right; auto | right; auto |].
    intros z [<-|Hz]; auto. left. apply Hb in I1. lra.
Qed.

Lemma pieces_mid_gt x l q : ssorted (x :: l) -> In q (pieces (x :: l)) -> x < mid ROps q.
Proof.
  intros Hs Hq. destruct (pieces_In _ Hs q Hq) as (I1 & _ & I3 & _).
  pose proof (ssorted_hd_le _ _ Hs) as Hb. rewrite Forall_forall in Hb. apply Hb in I1.
  destruct q as [a b]. cbn [fst snd] in *. pose proof (mid_between a b I3). lra.
Qed.

Lemma pwc_at_cons2 a b r y ys m :
  pwc_at ROps (a :: b :: r) (y :: ys) m =
  if Rltb a m && Rltb m b then Some y else pwc_at ROps (b :: r) ys m.
Proof. reflexivity. Qed.

Lemma pwc_at_first p x l c vs m : p < m -> m < x -> pwc_at ROps (p :: x :: l) (c :: vs) m = Some c.
Proof.
  intros H1 H2. rewrite pwc_at_cons2.
  destruct (Rltb_spec p m); [|lra]. destruct (Rltb_spec m x); [reflexivity|lra].
Qed.
Lemma pwc_at_skip p x l c vs m : x <= m ->
  pwc_at ROps (p :: x :: l) (c :: vs) m = pwc_at ROps (x :: l) vs m.
Proof.
  intros H. rewrite pwc_at_cons2. destruct (Rltb_spec m x); [lra|]. rewrite andb_false_r. reflexivity.
Qed.
Lemma pwc_at_rehead p p' l ys m : p < m -> p' < m ->
  pwc_at ROps (p :: l) ys m = pwc_at ROps (p' :: l) ys m.
Proof.
  intros H1 H2. destruct l as [|x l]; [reflexivity|]. destruct ys as [|c vs]; [reflexivity|].
  rewrite !pwc_at_cons2. destruct (Rltb_spec p m); [|lra]. destruct (Rltb_spec p' m); [|lra]. reflexivity.
Qed.

(* ------------------------------------------------------------------ *)
(* 6. addition (C09): the two-cursor merge                              *)

Definition tailF (e1 e2 : R) (s1 s2 : list (R * R)) : list (R * R) :=
  match s1, s2 with
  | _ :: _, _ => map (fun p => (fst p, snd p + e2)) s1
  | [], _ :: _ => map (fun p => (fst p, snd p + e1)) s2
  | [], [] => []
  end.

(* everything the loop and the tail copy emit *)
Definition merged (fuel : nat) (e1 e2 c1 : R) (r1 : list (R * R)) (c2 : R) (r2 : list (R * R)) :=
  let '(out, (d1, s1, d2, s2)) := pwc_add_loop ROps fuel c1 r1 c2 r2 in out ++ tailF e1 e2 s1 s2.

Lemma merged_nil_l fuel e1 e2 c1 c2 r2 :
  merged fuel e1 e2 c1 [] c2 r2 = map (fun p => (fst p, snd p + e1)) r2.
Proof. destruct fuel; unfold merged; cbn [pwc_add_loop]; destruct r2; reflexivity. Qed.
Lemma merged_nil_r fuel e1 e2 c1 r1 c2 :
  merged fuel e1 e2 c1 r1 c2 [] = map (fun p => (fst p, snd p + e2)) r1.
Proof. destruct fuel; unfold merged; cbn [pwc_add_loop]; destruct r1 as [|[x v] r1]; reflexivity. Qed.

Lemma merged_step k e1 e2 c1 x1 v1 r1 c2 x2 v2 r2 :
  merged (S k) e1 e2 c1 ((x1, v1) :: r1) c2 ((x2, v2) :: r2) =
  if Rltb x1 x2 then (x1, v1 + c2) :: merged k e1 e2 v1 r1 c2 ((x2, v2) :: r2)
  else if Rltb x2 x1 then (x2, c1 + v2) :: merged k e1 e2 c1 ((x1, v1) :: r1) v2 r2
  else (x1, v1 + v2) :: merged k e1 e2 v1 r1 v2 r2.
Proof.
  unfold merged. cbn [pwc_add_loop nltb ROps].
  destruct (Rltb x1 x2).
  - destruct (pwc_add_loop ROps k v1 r1 c2 ((x2, v2) :: r2)) as [out [[[d1 s1] d2] s2]]. reflexivity.
  - destruct (Rltb x2 x1).
    + destruct (pwc_add_loop ROps k c1 ((x1, v1) :: r1) v2 r2) as [out [[[d1 s1] d2] s2]]. reflexivity.
    + destruct (pwc_add_loop ROps k v1 r1 v2 r2) as [out [[[d1 s1] d2] s2]]. reflexivity.
Qed.

Lemma map_fst_tail e (r : list (R * R)) : map fst (map (fun q => (fst q, snd q + e)) r) = map fst r.
Proof. rewrite map_map. apply map_ext. reflexivity. Qed.
Lemma map_snd_tail e (r : list (R * R)) :
  map snd (map (fun q => (fst q, snd q + e)) r) = map (fun q => snd q + e) r.
Proof. rewrite map_map. apply map_ext. reflexivity. Qed.

(* a function given by its current value and the remaining (breakpoint, value after) events *)
Definition evs_ok (p L : R) (r : list (R * R)) : Prop := ssorted (p :: map fst r ++ [L]).
Definition fn (p L c : R) (r : list (R * R)) : list R * list R :=
  (p :: map fst r ++ [L], c :: map snd r).

Lemma evs_ok_tail p L x v r : evs_ok p L ((x, v) :: r) -> evs_ok x L r /\ p < x.
Proof.
  unfold evs_ok. cbn [map fst app]. intros H. split; [eapply ssorted_tl; eauto|].
  apply ssorted_cons_inv in H as [_ F]. inversion F; auto.
Qed.
Lemma evs_ok_rehead p p' L x v r : evs_ok p L ((x, v) :: r) -> p' < x -> evs_ok p' L ((x, v) :: r).
Proof.
  unfold evs_ok. cbn [map fst app]. intros H Hp. apply ssorted_cons_lt; auto. eapply ssorted_tl; eauto.
Qed.
Lemma evs_ok_lt p L r : evs_ok p L r -> p < L.
Proof.
  unfold evs_ok. intros H. apply ssorted_cons_inv in H as [_ F].
  rewrite Forall_forall in F. apply F. apply in_or_app. right. left. reflexivity.
Qed.

Lemma merged_keys : forall fuel e1 e2 c1 r1 c2 r2 p L,
  (length r1 + length r2 <= fuel)%nat -> evs_ok p L r1 -> evs_ok p L r2 ->
  ssorted (p :: map fst (merged fuel e1 e2 c1 r1 c2 r2) ++ [L]) /\
  (forall x, In x (map fst (merged fuel e1 e2 c1 r1 c2 r2)) <-> In x (map fst r1) \/ In x (map fst r2)).
Proof.
  induction fuel as [|k IH]; intros e1 e2 c1 r1 c2 r2 p L Hf O1 O2.
  - destruct r1; [|cbn [length] in Hf; lia]. destruct r2; [|cbn [length] in Hf; lia].
    rewrite merged_nil_l. split; [exact O1|]. intros x. cbn. tauto.
  - destruct r1 as [|[x1 v1] r1].
    { rewrite merged_nil_l, map_fst_tail. split; [exact O2|]. intros x. cbn [map In]. tauto. }
    destruct r2 as [|[x2 v2] r2].
    { rewrite merged_nil_r, map_fst_tail. split; [exact O1|]. intros x. cbn [map In]. tauto. }
    rewrite merged_step. cbn [length] in Hf.
    destruct (evs_ok_tail _ _ _ _ _ O1) as [T1 P1]. destruct (evs_ok_tail _ _ _ _ _ O2) as [T2 P2].
    destruct (Rltb_spec x1 x2) as [H12|H12]; [|destruct (Rltb_spec x2 x1) as [H21|H21]].
    + destruct (IH e1 e2 v1 r1 c2 ((x2, v2) :: r2) x1 L) as [I1 I2];
        [cbn [length]; lia | exact T1 | eapply evs_ok_rehead; eauto |].
      cbn [map fst app]. split; [apply ssorted_cons_lt; auto|].
      intros x. cbn [In]. rewrite I2. cbn [map fst In]. tauto.
    + destruct (IH e1 e2 c1 ((x1, v1) :: r1) v2 r2 x2 L) as [I1 I2];
        [cbn [length]; lia | eapply evs_ok_rehead; eauto | exact T2 |].
      cbn [map fst app]. split; [apply ssorted_cons_lt; auto|].
      intros x. cbn [In]. rewrite I2. cbn [map fst In]. tauto.
    + assert (x2 = x1) by lra. subst x2.
      destruct (IH e1 e2 v1 r1 v2 r2 x1 L) as [I1 I2]; [lia | exact T1 | exact T2 |].
      cbn [map fst app]. split; [apply ssorted_cons_lt; auto|].
      intros x. cbn [In]. rewrite I2. cbn [map fst In]. tauto.
Qed.

(* value of the pointwise sum on a piece, as in pwc_add_spec *)
Definition addval (f g : list R * list R) (q : R * R) : R :=
  optsum ROps (pwc_at ROps (fst f) (snd f) (mid ROps q)) (pwc_at ROps (fst g) (snd g) (mid ROps q)).

Lemma pwc_add_spec_unfold f g :
  pwc_add_spec ROps f g =
  (sort_unique ROps (fst f ++ fst g), map (addval f g) (pieces (sort_unique ROps (fst f ++ fst g)))).
Proof. reflexivity. Qed.

Lemma tail_vals_l : forall r2 p L c1 c2, evs_ok p L r2 ->
  (c1 + c2) :: map (fun q => snd q + c1) r2 =
  map (addval (fn p L c1 []) (fn p L c2 r2)) (pieces (p :: map fst r2 ++ [L])).
Proof.
  induction r2 as [|[x v] r IH]; intros p L c1 c2 O.
  - pose proof (evs_ok_lt _ _ _ O) as HpL. pose proof (mid_between p L HpL) as Hm.
    cbn [map app pieces]. unfold addval, fn. cbn [fst snd map app].
    rewrite !pwc_at_first by lra. reflexivity.
  - destruct (evs_ok_tail _ _ _ _ _ O) as [T P]. pose proof (evs_ok_lt _ _ _ T) as HxL.
    pose proof (mid_between p x P) as Hm.
    cbn [map fst snd app]. rewrite pieces_cons2. cbn [map]. f_equal.
    + unfold addval, fn. cbn [fst snd map app]. rewrite !pwc_at_first by lra. reflexivity.
    + rewrite (Rplus_comm v c1). rewrite (IH x L c1 v T). apply map_ext_in. intros q Hq.
      pose proof (pieces_mid_gt x _ q T Hq) as Hg.
      unfold addval, fn. cbn [fst snd map app]. f_equal.
      * apply pwc_at_rehead; lra.
      * symmetry. apply pwc_at_skip. lra.
Qed.

Lemma tail_vals_r : forall r1 p L c1 c2, evs_ok p L r1 ->
  (c1 + c2) :: map (fun q => snd q + c2) r1 =
  map (addval (fn p L c1 r1) (fn p L c2 [])) (pieces (p :: map fst r1 ++ [L])).
Proof.
  induction r1 as [|[x v] r IH]; intros p L c1 c2 O.
  - pose proof (evs_ok_lt _ _ _ O) as HpL. pose proof (mid_between p L HpL) as Hm.
    cbn [map app pieces]. unfold addval, fn. cbn [fst snd map app].
    rewrite !pwc_at_first by lra. reflexivity.
  - destruct (evs_ok_tail _ _ _ _ _ O) as [T P]. pose proof (evs_ok_lt _ _ _ T) as HxL.
    pose proof (mid_between p x P) as Hm.
    cbn [map fst snd app]. rewrite pieces_cons2. cbn [map]. f_equal.
    + unfold addval, fn. cbn [fst snd map app]. rewrite !pwc_at_first by lra. reflexivity.
    + rewrite (IH x L v c2 T). apply map_ext_in. intros q Hq.
      pose proof (pieces_mid_gt x _ q T Hq) as Hg.
      unfold addval, fn. cbn [fst snd map app]. f_equal.
      * symmetry. apply pwc_at_skip. lra.
      * apply pwc_at_rehead; lra.
Qed.

Lemma merged_vals : forall fuel e1 e2 c1 r1 c2 r2 p L,
  (length r1 + length r2 <= fuel)%nat -> evs_ok p L r1 -> evs_ok p L r2 ->
  e1 = lastF ROps (c1 :: map snd r1) -> e2 = lastF ROps (c2 :: map snd r2) ->
  (c1 + c2) :: map snd (merged fuel e1 e2 c1 r1 c2 r2) =
  map (addval (fn p L c1 r1) (fn p L c2 r2))
      (pieces (p :: map fst (merged fuel e1 e2 c1 r1 c2 r2) ++ [L])).
Proof.
  induction fuel as [|k IH]; intros e1 e2 c1 r1 c2 r2 p L Hf O1 O2 E1 E2.
  - destruct r1; [|cbn [length] in Hf; lia]. destruct r2; [|cbn [length] in Hf; lia].
    rewrite merged_nil_l. apply (tail_vals_l [] p L c1 c2 O2).
  - destruct r1 as [|[x1 v1] r1].
    { rewrite merged_nil_l, map_fst_tail, map_snd_tail. cbn [map] in E1. rewrite lastF_one in E1.
      subst e1. apply tail_vals_l; auto. }
    destruct r2 as [|[x2 v2] r2].
    { rewrite merged_nil_r, map_fst_tail, map_snd_tail. cbn [map] in E2. rewrite lastF_one in E2.
      subst e2. apply tail_vals_r; auto. }
    cbn [length] in Hf. cbn [map snd] in E1, E2. rewrite lastF_cons2 in E1, E2.
    destruct (evs_ok_tail _ _ _ _ _ O1) as [T1 P1]. destruct (evs_ok_tail _ _ _ _ _ O2) as [T2 P2].
    pose proof (evs_ok_lt _ _ _ T1) as L1. pose proof (evs_ok_lt _ _ _ T2) as L2.
    rewrite merged_step.
    destruct (Rltb_spec x1 x2) as [H12|H12]; [|destruct (Rltb_spec x2 x1) as [H21|H21]].
    + assert (O2' : evs_ok x1 L ((x2, v2) :: r2)) by (eapply evs_ok_rehead; eauto).
      assert (Hk : (length r1 + length ((x2, v2) :: r2) <= k)%nat) by (cbn [length]; lia).
      destruct (merged_keys k e1 e2 v1 r1 c2 ((x2, v2) :: r2) x1 L Hk T1 O2') as [K1 _].
      pose proof (mid_between p x1 P1) as Hm.
      cbn [map fst snd app]. rewrite pieces_cons2. cbn [map]. f_equal.
      * unfold addval, fn. cbn [fst snd map app]. rewrite !pwc_at_first by lra. reflexivity.
      * rewrite (IH e1 e2 v1 r1 c2 ((x2, v2) :: r2) x1 L Hk T1 O2' E1 E2).
        apply map_ext_in. intros q Hq. pose proof (pieces_mid_gt x1 _ q K1 Hq) as Hg.
        unfold addval, fn. cbn [fst snd map app]. f_equal.
        -- symmetry. apply pwc_at_skip. lra.
        -- apply pwc_at_rehead; lra.
    + assert (O1' : evs_ok x2 L ((x1, v1) :: r1)) by (eapply evs_ok_rehead; eauto).
      assert (Hk : (length ((x1, v1) :: r1) + length r2 <= k)%nat) by (cbn [length]; lia).
      destruct (merged_keys k e1 e2 c1 ((x1, v1) :: r1) v2 r2 x2 L Hk O1' T2) as [K1 _].
      pose proof (mid_between p x2 P2) as Hm.
      cbn [map fst snd app]. rewrite pieces_cons2. cbn [map]. f_equal.
      * unfold addval, fn. cbn [fst snd map app]. rewrite !pwc_at_first by lra. reflexivity.
      * rewrite (IH e1 e2 c1 ((x1, v1) :: r1) v2 r2 x2 L Hk O1' T2 E1 E2).
        apply map_ext_in. intros q Hq. pose proof (pieces_mid_gt x2 _ q K1 Hq) as Hg.
        unfold addval, fn. cbn [fst snd map app]. f_equal.
        -- apply pwc_at_rehead; lra.
        -- symmetry. apply pwc_at_skip. lra.
    + assert (x2 = x1) by lra. subst x2.
      assert (Hk : (length r1 + length r2 <= k)%nat) by lia.
      destruct (merged_keys k e1 e2 v1 r1 v2 r2 x1 L Hk T1 T2) as [K1 _].
      pose proof (mid_between p x1 P1) as Hm.
      cbn [map fst snd app]. rewrite pieces_cons2. cbn [map]. f_equal.
      * unfold addval, fn. cbn [fst snd map app]. rewrite !pwc_at_first by lra. reflexivity.
      * rewrite (IH e1 e2 v1 r1 v2 r2 x1 L Hk T1 T2 E1 E2).
        apply map_ext_in. intros q Hq. pose proof (pieces_mid_gt x1 _ q K1 Hq) as Hg.
        unfold addval, fn. cbn [fst snd map app]. f_equal.
        -- symmetry. apply pwc_at_skip. lra.
        -- symmetry. apply pwc_at_skip. lra.
Qed.

Lemma map_fst_combine : forall (a b : list R), length a = length b -> map fst (combine a b) = a.
Proof.
  induction a as [|x a IH]; intros [|y b] H; cbn [length] in H; try discriminate; [reflexivity|].
  cbn [combine map fst]. f_equal. apply IH. lia.
Qed.
Lemma map_snd_combine : forall (a b : list R), length a = length b -> map snd (combine a b) = b.
Proof.
  induction a as [|x a IH]; intros [|y b] H; cbn [length] in H; try discriminate; [reflexivity|].
  cbn [combine map snd]. f_equal. apply IH. lia.
Qed.
Lemma combine_fst_snd (r : list (R * R)) : combine (map fst r) (map snd r) = r.
Proof. induction r as [|[x v] r IH]; [reflexivity|]. cbn [map combine fst snd]. f_equal. exact IH. Qed.

Lemma removelast_app1 {A} (l : list A) a : removelast (l ++ [a]) = l.
Proof. apply removelast_last. Qed.

Lemma wf_decomp f : wf_pwc f -> exists p L c r, f = fn p L c r /\ evs_ok p L r.
Proof.
  destruct f as [xs ys]. intros [[Hs Hl] Hlen]. cbn [fst snd] in *.
  destruct xs as [|p xs']; [cbn in Hl; lia|]. destruct ys as [|c ys']; [cbn in *; lia|].
  cbn [length] in *. assert (Hne : xs' <> []) by (intros ->; cbn in Hl; lia).
  pose proof (app_removelast_last 0 Hne) as Ex.
  set (K := removelast xs') in *. set (L := last xs' 0) in *.
  assert (HK : length K = length ys').
  { assert (length xs' = length (K ++ [L])) by (rewrite <- Ex; reflexivity).
    rewrite app_length in H. cbn [length] in H. lia. }
  exists p, L, c, (combine K ys'). unfold fn, evs_ok.
  rewrite map_fst_combine, map_snd_combine by auto. rewrite <- Ex. split; auto.
Qed.

Lemma interior_fn (p L c : R) (r : list (R * R)) : interior (p :: map fst r ++ [L]) (c :: map snd r) = r.
Proof. unfold interior. cbn [tl]. rewrite removelast_app1. apply combine_fst_snd. Qed.

Lemma pwc_add_unfold a0 x1 c1 y1 b0 x2 c2 y2 :
  pwc_add ROps (a0 :: x1, c1 :: y1) (b0 :: x2, c2 :: y2) =
  if negb (Reqb a0 b0) then Err AssertionError
  else if negb (Reqb (lastF ROps (a0 :: x1)) (lastF ROps (b0 :: x2))) then Err AssertionError
  else
    let E := merged (length (a0 :: x1) + length (b0 :: x2))
                    (lastF ROps (c1 :: y1)) (lastF ROps (c2 :: y2))
                    c1 (interior (a0 :: x1) (c1 :: y1)) c2 (interior (b0 :: x2) (c2 :: y2)) in
    Ok (a0 :: map fst E ++ [lastF ROps (a0 :: x1)], (c1 + c2) :: map snd E).
Proof.
  unfold pwc_add, merged. cbn [neqb ROps].
  destruct (negb (Reqb a0 b0)); [reflexivity|].
  destruct (negb (Reqb (lastF ROps (a0 :: x1)) (lastF ROps (b0 :: x2)))); [reflexivity|].
  cbv zeta.
  destruct (pwc_add_loop ROps (length (a0 :: x1) + length (b0 :: x2)) c1
              (interior (a0 :: x1) (c1 :: y1)) c2 (interior (b0 :: x2) (c2 :: y2)))
    as [out [[[d1 s1] d2] s2]].
  reflexivity.
Qed.

Lemma lastF_fn p K L : lastF ROps (p :: K ++ [L]) = L.
Proof. apply (lastF_app1 (p :: K) L). Qed.

Lemma pwc_add_fn p L c1 r1 c2 r2 : evs_ok p L r1 -> evs_ok p L r2 ->
  pwc_add ROps (fn p L c1 r1) (fn p L c2 r2) = Ok (pwc_add_spec ROps (fn p L c1 r1) (fn p L c2 r2)).
Proof.
  intros O1 O2. rewrite pwc_add_spec_unfold. unfold fn at 1 2. rewrite pwc_add_unfold.
  rewrite !lastF_fn, !interior_fn.
  destruct (Reqb_spec p p) as [_|N]; [|congruence]. destruct (Reqb_spec L L) as [_|N]; [|congruence].
  cbn [negb]. cbv zeta.
  set (fuel := (length (p :: map fst r1 ++ [L]) + length (p :: map fst r2 ++ [L]))%nat).
  set (e1 := lastF ROps (c1 :: map snd r1)). set (e2 := lastF ROps (c2 :: map snd r2)).
  assert (Hf : (length r1 + length r2 <= fuel)%nat).
  { unfold fuel. cbn [length]. rewrite !app_length, !map_length. lia. }
  destruct (merged_keys fuel e1 e2 c1 r1 c2 r2 p L Hf O1 O2) as [K1 K2].
  change (fst (fn p L c1 r1)) with (p :: map fst r1 ++ [L]).
  change (fst (fn p L c2 r2)) with (p :: map fst r2 ++ [L]).
  assert (Eb : sort_unique ROps ((p :: map fst r1 ++ [L]) ++ (p :: map fst r2 ++ [L])) =
               p :: map fst (merged fuel e1 e2 c1 r1 c2 r2) ++ [L]).
  { apply sort_unique_char; auto. intros x. rewrite in_app_iff. cbn [In]. rewrite !in_app_iff.
    rewrite K2. cbn [In]. tauto. }
  rewrite Eb. do 2 f_equal. apply merged_vals; auto.
Qed.

(* 9. the merge loop computes the pointwise sum on the merged support *)
Theorem pwc_add_eq_spec : forall f g, wf_pwc f -> wf_pwc g ->
  nthF ROps (fst f) 0 = nthF ROps (fst g) 0 -> lastF ROps (fst f) = lastF ROps (fst g) ->
  pwc_add ROps f g = Ok (pwc_add_spec ROps f g).
Proof.
  intros f g Hf Hg H0 HL.
  destruct (wf_decomp f Hf) as (p & L & c1 & r1 & -> & O1).
  destruct (wf_decomp g Hg) as (p' & L' & c2 & r2 & -> & O2).
  unfold fn in H0, HL. cbn [fst] in H0, HL. rewrite !lastF_fn in HL. rewrite !nthF_0 in H0.
  subst p' L'. apply pwc_add_fn; auto.
Qed.

Lemma ssorted_two l a b : ssorted l -> In a l -> In b l -> a < b -> (2 <= length l)%nat.
Proof.
  intros _ Ha Hb Hab. destruct l as [|x [|y r]]; cbn [length]; try lia.
  - destruct Ha.
  - destruct Ha as [<-|[]]. destruct Hb as [<-|[]]. lra.
Qed.

Lemma wf_first_in f : wf_pwc f -> In (nthF ROps (fst f) 0) (fst f) /\ In (lastF ROps (fst f)) (fst f)
  /\ nthF ROps (fst f) 0 < lastF ROps (fst f).
Proof.
  intros [[Hs Hl] _]. repeat split.
  - apply nth_In. lia.
  - rewrite lastF_nth. apply nth_In. lia.
  - apply ssorted_first_lt_last; auto.
Qed.

(* 10 *)
Theorem pwc_add_wf : forall f g, wf_pwc f -> wf_pwc g ->
  nthF ROps (fst f) 0 = nthF ROps (fst g) 0 -> lastF ROps (fst f) = lastF ROps (fst g) ->
  wf_pwc (pwc_add_spec ROps f g).
Proof.
  intros f g Hf Hg _ _. rewrite pwc_add_spec_unfold. unfold wf_pwc, wf_x. cbn [fst snd].
  destruct (wf_first_in f Hf) as (I1 & I2 & I3).
  assert (H2 : (2 <= length (sort_unique ROps (fst f ++ fst g)))%nat).
  { apply (ssorted_two _ (nthF ROps (fst f) 0) (lastF ROps (fst f)) (sort_unique_sorted _)); auto;
      apply sort_unique_In, in_or_app; left; auto. }
  repeat split; auto using sort_unique_sorted.
  rewrite map_length, pieces_length. lia.
Qed.

(* ------------------------------------------------------------------ *)
(* 7. algebra of the pointwise sum                                      *)

Definition optval (a : option R) : R := match a with Some x => x | None => 0 end.
Lemma optsum_val a b : optsum ROps a b = optval a + optval b.
Proof. destruct a, b; cbn; lra. Qed.
Lemma optsum_comm a b : optsum ROps a b = optsum ROps b a.
Proof. rewrite !optsum_val. lra. Qed.

Lemma pwc_add_spec_comm f g : pwc_add_spec ROps f g = pwc_add_spec ROps g f.
Proof.
  rewrite !pwc_add_spec_unfold.
  assert (E : sort_unique ROps (fst f ++ fst g) = sort_unique ROps (fst g ++ fst f)).
  { apply sort_unique_char; [apply sort_unique_sorted|].
    intros x. rewrite sort_unique_In, !in_app_iff. tauto. }
  rewrite E. f_equal. apply map_ext. intros q. unfold addval. apply optsum_comm.
Qed.

(* 12 *)
Theorem pwc_add_comm : forall f g, wf_pwc f -> wf_pwc g ->
  nthF ROps (fst f) 0 = nthF ROps (fst g) 0 -> lastF ROps (fst f) = lastF ROps (fst g) ->
  pwc_add_spec ROps f g = pwc_add_spec ROps g f.
Proof. intros f g _ _ _ _. apply pwc_add_spec_comm. Qed.

(* 14 *)
Lemma pwc_at_map c xs : forall ys t,
  pwc_at ROps xs (map (fun y => y * c) ys) t = option_map (fun y => y * c) (pwc_at ROps xs ys t).
Proof.
  induction xs as [|a xs IH]; intros ys t; [reflexivity|].
  destruct xs as [|b r]; [reflexivity|]. destruct ys as [|y ys]; [reflexivity|].
  cbn [map]. rewrite !pwc_at_cons2. destruct (Rltb a t && Rltb t b); [reflexivity|apply IH].
Qed.
Theorem pwc_mul_pointwise : forall f c t,
  pwc_at ROps (fst (pwc_mul ROps f c)) (snd (pwc_mul ROps f c)) t =
  option_map (fun y => y * c) (pwc_at ROps (fst f) (snd f) t).
Proof. intros f c t. unfold pwc_mul. cbn [fst snd nmul ROps]. apply pwc_at_map. Qed.

(* a piecewise constant function is constant between two consecutive breakpoints *)
Lemma pwc_at_const_on xs : forall ys a b m m',
  (forall z, In z xs -> z <= a \/ b <= z) -> a < m < b -> a < m' < b ->
  pwc_at ROps xs ys m = pwc_at ROps xs ys m'.
Proof.
  induction xs as [|x0 xs IH]; intros ys a b m m' H Hm Hm'; [reflexivity|].
  destruct xs as [|x1 r]; [reflexivity|]. destruct ys as [|y ys]; [reflexivity|].
  rewrite !pwc_at_cons2.
  rewrite (IH ys a b m m') by (auto; intros; apply H; right; auto).
  assert (E0 : Rltb x0 m = Rltb x0 m').
  { destruct (H x0 (or_introl eq_refl)); destruct (Rltb_spec x0 m), (Rltb_spec x0 m'); auto; lra. }
  assert (E1 : Rltb m x1 = Rltb m' x1).
  { destruct (H x1 (or_intror (or_introl eq_refl))); destruct (Rltb_spec m x1), (Rltb_spec m' x1); auto; lra. }
  rewrite E0, E1. reflexivity.
Qed.

Lemma pwc_at_pieces (V : R * R -> R) bs : ssorted bs -> forall q m, In q (pieces bs) ->
  fst q < m < snd q -> pwc_at ROps bs (map V (pieces bs)) m = Some (V q).
Proof.
  induction bs as [|a [|b r] IH]; intros Hs q m Hq Hm; [destruct Hq|destruct Hq|].
  rewrite pieces_cons2 in *. cbn [map]. rewrite pwc_at_cons2. destruct Hq as [<-|Hq].
  - cbn [fst snd] in Hm. destruct (Rltb_spec a m); [|lra]. destruct (Rltb_spec m b); [reflexivity|lra].
  - pose proof (ssorted_tl _ _ Hs) as Hs1.
    destruct (pieces_In _ Hs1 q Hq) as (I1 & _).
    pose proof (ssorted_hd_le _ _ Hs1) as Hb. rewrite Forall_forall in Hb. apply Hb in I1.
    destruct (Rltb_spec m b); [lra|]. rewrite andb_false_r. apply IH; auto.
Qed.

Lemma locate bs : ssorted bs -> forall lo hi m, In lo bs -> In hi bs -> lo < m < hi -> ~ In m bs ->
  exists q, In q (pieces bs) /\ fst q < m < snd q.
Proof.
  induction bs as [|z bs IH]; intros Hs lo hi m Hlo Hhi Hm Hn; [destruct Hlo|].
  destruct bs as [|z' r].
  { destruct Hlo as [<-|[]]. destruct Hhi as [<-|[]]. lra. }
  pose proof (ssorted_hd_le _ _ Hs) as Hb. rewrite Forall_forall in Hb.
  pose proof (ssorted_tl _ _ Hs) as Hs1.
  assert (Hzz : z < z') by (apply ssorted_cons_inv in Hs as [_ F]; inversion F; auto).
  assert (m <> z') by (intros ->; apply Hn; right; left; auto).
  destruct (Rlt_le_dec m z') as [Hl|Hl].
  - exists (z, z'). rewrite pieces_cons2. split; [left; auto|]. cbn [fst snd].
    apply Hb in Hlo. lra.
  - destruct (IH Hs1 z' hi m) as (q & Hq & Hqm); auto.
    + left; auto.
    + destruct Hhi as [<-|]; auto. lra.
    + lra.
    + intros Hc. apply Hn. right; auto.
    + exists q. rewrite pieces_cons2. split; auto. right; auto.
Qed.

(* value of the sum away from the merged breakpoints *)
Lemma add_spec_at f g m lo hi :
  In lo (fst f ++ fst g) -> In hi (fst f ++ fst g) -> lo < m < hi -> ~ In m (fst f ++ fst g) ->
  pwc_at ROps (fst (pwc_add_spec ROps f g)) (snd (pwc_add_spec ROps f g)) m =
  Some (optsum ROps (pwc_at ROps (fst f) (snd f) m) (pwc_at ROps (fst g) (snd g) m)).
Proof.
  intros Hlo Hhi Hm Hn. rewrite pwc_add_spec_unfold. cbn [fst snd].
  set (B := sort_unique ROps (fst f ++ fst g)).
  assert (HsB : ssorted B) by apply sort_unique_sorted.
  destruct (locate B HsB lo hi m) as (q & Hq & Hqm); auto;
    try (apply sort_unique_In; auto).
  { intros Hc. apply Hn. unfold B in Hc. apply (proj1 (sort_unique_In _ _)) in Hc. auto. }
  rewrite (pwc_at_pieces _ B HsB q m Hq Hqm). unfold addval.
  destruct (pieces_In B HsB q Hq) as (_ & _ & I3 & I4).
  destruct q as [a b]. cbn [fst snd] in *. pose proof (mid_between a b I3) as Hmid.
  do 2 f_equal.
  - apply (pwc_at_const_on (fst f) (snd f) a b); auto.
    intros z Hz. apply I4. apply sort_unique_In, in_or_app. left; auto.
  - apply (pwc_at_const_on (fst g) (snd g) a b); auto.
    intros z Hz. apply I4. apply sort_unique_In, in_or_app. right; auto.
Qed.

Lemma wf_in_range f : wf_pwc f ->
  forall z, In z (fst f) -> nthF ROps (fst f) 0 <= z <= lastF ROps (fst f).
Proof.
  intros [[Hs _] _] z Hz. pose proof (ssorted_bounds _ Hs) as Hb.
  rewrite Forall_forall in Hb. apply Hb; auto.
Qed.

(* 13 *)
Theorem pwc_add_assoc : forall f g h, wf_pwc f -> wf_pwc g -> wf_pwc h ->
  nthF ROps (fst f) 0 = nthF ROps (fst g) 0 -> lastF ROps (fst f) = lastF ROps (fst g) ->
  nthF ROps (fst g) 0 = nthF ROps (fst h) 0 -> lastF ROps (fst g) = lastF ROps (fst h) ->
  pwc_add_spec ROps (pwc_add_spec ROps f g) h = pwc_add_spec ROps f (pwc_add_spec ROps g h).
Proof.
  intros f g h Hf Hg Hh E0 EL E0' EL'.
  rewrite (pwc_add_spec_unfold (pwc_add_spec ROps f g) h).
  rewrite (pwc_add_spec_unfold f (pwc_add_spec ROps g h)).
  set (fg := pwc_add_spec ROps f g). set (gh := pwc_add_spec ROps g h).
  assert (Ffg : fst fg = sort_unique ROps (fst f ++ fst g)) by reflexivity.
  assert (Fgh : fst gh = sort_unique ROps (fst g ++ fst h)) by reflexivity.
  set (B := sort_unique ROps (fst f ++ fst gh)).
  assert (HsB : ssorted B) by apply sort_unique_sorted.
  assert (InB : forall x, In x B <-> In x (fst f) \/ In x (fst g) \/ In x (fst h)).
  { intros x. unfold B. rewrite sort_unique_In, in_app_iff, Fgh, sort_unique_In, in_app_iff. tauto. }
  assert (EB : sort_unique ROps (fst fg ++ fst h) = B).
  { apply sort_unique_char; auto. intros x.
    rewrite InB, in_app_iff, Ffg, sort_unique_In, in_app_iff. tauto. }
  rewrite EB. f_equal. apply map_ext_in. intros q Hq.
  destruct (pieces_In B HsB q Hq) as (I1 & I2 & I3 & I4).
  destruct (wf_first_in f Hf) as (F1 & F2 & F3). destruct (wf_first_in g Hg) as (G1 & G2 & G3).
  pose proof (wf_in_range f Hf) as Rf. pose proof (wf_in_range g Hg) as Rg.
  pose proof (wf_in_range h Hh) as Rh.
  set (x0 := nthF ROps (fst f) 0) in *. set (L := lastF ROps (fst f)) in *.
  assert (RB : forall z, In z B -> x0 <= z <= L).
  { intros z Hz. apply InB in Hz. destruct Hz as [Hz|[Hz|Hz]].
    - apply Rf; auto.
    - apply Rg in Hz. lra.
    - apply Rh in Hz. lra. }
  destruct q as [a b]. cbn [fst snd] in *. pose proof (mid_between a b I3) as Hmid.
  set (m := mid ROps (a, b)) in *.
  assert (HnB : ~ In m B).
  { intros Hc. destruct (I4 m Hc); lra. }
  pose proof (RB a I1) as Ra. pose proof (RB b I2) as Rb.
  unfold addval. subst fg gh. change (mid ROps (a, b)) with m.
  rewrite (add_spec_at f g m x0 L); [| apply in_or_app; left; auto | apply in_or_app; left; auto | lra |].
  2:{ intros Hc. apply HnB, InB. apply in_app_or in Hc. tauto. }
  rewrite (add_spec_at g h m x0 L);
    [| apply in_or_app; left; rewrite E0; auto | apply in_or_app; left; rewrite EL; auto | lra |].
  2:{ intros Hc. apply HnB, InB. apply in_app_or in Hc. tauto. }
  rewrite !optsum_val. cbn [optval]. rewrite ?optsum_val. lra.
Qed.

(* ------------------------------------------------------------------ *)
(* 8. the integral of the sum (11)                                      *)

Lemma int_all_add (F G : R * R -> R) bs : forall P,
  pwc_int_all ROps bs (map (fun q => F q + G q) P) =
  pwc_int_all ROps bs (map F P) + pwc_int_all ROps bs (map G P).
Proof.
  induction bs as [|a bs IH]; intros P; [cbn; lra|].
  destruct bs as [|b r]; [cbn; lra|]. destruct P as [|q P]; [cbn; lra|].
  cbn [map]. rewrite !int_all_cons2, IH. ring.
Qed.

(* sampling a function on a refinement of its breakpoints keeps the integral *)
Lemma refine_int : forall bs' b0 xs' ys,
  ssorted (b0 :: bs') -> ssorted (b0 :: xs') -> length xs' = length ys ->
  incl xs' bs' -> (forall z, In z bs' -> z <= lastF ROps (b0 :: xs')) ->
  pwc_int_all ROps (b0 :: bs')
    (map (fun q => optval (pwc_at ROps (b0 :: xs') ys (mid ROps q))) (pieces (b0 :: bs')))
  = pwc_int_all ROps (b0 :: xs') ys.
Proof.
  induction bs' as [|b1 bs IH]; intros b0 xs' ys Hb Hx Hlen Hincl Hlast.
  - destruct xs' as [|x1 xr]; [|exfalso; apply (Hincl x1); left; auto].
    destruct ys; [reflexivity|discriminate].
  - assert (H01 : b0 < b1) by (apply ssorted_cons_inv in Hb as [_ F]; inversion F; auto).
    pose proof (ssorted_tl _ _ Hb) as Hb1.
    pose proof (ssorted_hd_le _ _ Hb1) as Hge. rewrite Forall_forall in Hge.
    destruct xs' as [|x1 xr].
    { exfalso. specialize (Hlast b1 (or_introl eq_refl)). rewrite lastF_one in Hlast. lra. }
    destruct ys as [|y ys]; [discriminate|]. cbn [length] in Hlen.
    pose proof (ssorted_tl _ _ Hx) as Hx1.
    assert (H0x : b0 < x1) by (apply ssorted_cons_inv in Hx as [_ F]; inversion F; auto).
    pose proof (ssorted_hd_le _ _ Hx1) as Hgx. rewrite Forall_forall in Hgx.
    assert (Hb1x : b1 <= x1) by (apply Hge, Hincl; left; auto).
    pose proof (mid_between b0 b1 H01) as Hm.
    rewrite pieces_cons2. cbn [map]. rewrite !int_all_cons2.
    rewrite pwc_at_first by lra. cbn [optval].
    rewrite lastF_cons2 in Hlast.
    destruct (Req_dec b1 x1) as [E|N].
    + subst x1.
      rewrite (map_ext_in _ (fun q => optval (pwc_at ROps (b1 :: xr) ys (mid ROps q)))).
      2:{ intros q Hq. pose proof (pieces_mid_gt b1 _ q Hb1 Hq).
          rewrite pwc_at_skip by lra. reflexivity. }
      rewrite (IH b1 xr ys Hb1 Hx1).
      * ring.
      * lia.
      * intros z Hz. assert (Hz' : In z (b1 :: bs)) by (apply Hincl; right; auto).
        destruct Hz' as [<-|]; auto. exfalso.
        apply ssorted_cons_inv in Hx1 as [_ F]. rewrite Forall_forall in F. apply F in Hz. lra.
      * intros z Hz. apply Hlast. right; auto.
    + assert (Hlt : b1 < x1) by lra.
      assert (Hx' : ssorted (b1 :: x1 :: xr)) by (apply ssorted_cons_lt; auto).
      rewrite (map_ext_in _ (fun q => optval (pwc_at ROps (b1 :: x1 :: xr) (y :: ys) (mid ROps q)))).
      2:{ intros q Hq. pose proof (pieces_mid_gt b1 _ q Hb1 Hq).
          rewrite (pwc_at_rehead b0 b1) by lra. reflexivity. }
      rewrite (IH b1 (x1 :: xr) (y :: ys) Hb1 Hx').
      * rewrite int_all_cons2. ring.
      * cbn [length]. lia.
      * intros z Hz. assert (Hz' : In z (b1 :: bs)) by (apply Hincl; auto).
        destruct Hz' as [<-|]; auto. exfalso. apply Hgx in Hz. lra.
      * intros z Hz. rewrite lastF_cons2. apply Hlast. right; auto.
Qed.

Lemma refine_int_wf f B : wf_pwc f -> ssorted B -> incl (fst f) B ->
  (forall z, In z B -> nthF ROps (fst f) 0 <= z <= lastF ROps (fst f)) ->
  pwc_int_all ROps B (map (fun q => optval (pwc_at ROps (fst f) (snd f) (mid ROps q))) (pieces B))
  = pwc_int_all ROps (fst f) (snd f).
Proof.
  destruct f as [xs ys]. intros [[Hs Hl] Hlen] HsB Hincl HR. cbn [fst snd] in *.
  destruct xs as [|x0 xs']; [cbn in Hl; lia|]. rewrite nthF_0 in HR.
  destruct B as [|b0 B']; [exfalso; apply (Hincl x0); left; auto|].
  assert (b0 = x0).
  { pose proof (HR b0 (or_introl eq_refl)) as [Hb _].
    destruct (Hincl x0 (or_introl eq_refl)) as [|Hin]; auto.
    apply ssorted_cons_inv in HsB as [_ F]. rewrite Forall_forall in F. apply F in Hin. lra. }
  subst b0. apply refine_int; auto.
  - intros z Hz. assert (Hz' : In z (x0 :: B')) by (apply Hincl; right; auto).
    destruct Hz' as [<-|]; auto. exfalso.
    apply ssorted_cons_inv in Hs as [_ F]. rewrite Forall_forall in F. apply F in Hz. lra.
  - intros z Hz. apply HR. right; auto.
Qed.

Theorem pwc_add_integral : forall f g, wf_pwc f -> wf_pwc g ->
  nthF ROps (fst f) 0 = nthF ROps (fst g) 0 -> lastF ROps (fst f) = lastF ROps (fst g) ->
  pwc_int_all ROps (fst (pwc_add_spec ROps f g)) (snd (pwc_add_spec ROps f g)) =
  pwc_int_all ROps (fst f) (snd f) + pwc_int_all ROps (fst g) (snd g).
Proof.
  intros f g Hf Hg E0 EL. rewrite pwc_add_spec_unfold. cbn [fst snd].
  set (B := sort_unique ROps (fst f ++ fst g)).
  assert (HsB : ssorted B) by apply sort_unique_sorted.
  pose proof (wf_in_range f Hf) as Rf. pose proof (wf_in_range g Hg) as Rg.
  assert (RB : forall z, In z B -> nthF ROps (fst f) 0 <= z <= lastF ROps (fst f)).
  { intros z Hz. unfold B in Hz. apply (proj1 (sort_unique_In _ _)) in Hz.
    apply in_app_or in Hz as [Hz|Hz]; [apply Rf; auto|]. rewrite E0, EL. apply Rg; auto. }
  rewrite (map_ext (addval f g)
             (fun q => optval (pwc_at ROps (fst f) (snd f) (mid ROps q))
                       + optval (pwc_at ROps (fst g) (snd g) (mid ROps q))))
    by (intros q; unfold addval; apply optsum_val).
  rewrite int_all_add. f_equal.
  - apply refine_int_wf; auto.
    intros z Hz. apply sort_unique_In, in_or_app. left; auto.
  - apply refine_int_wf; auto.
    + intros z Hz. apply sort_unique_In, in_or_app. right; auto.
    + intros z Hz. rewrite <- E0, <- EL. apply RB; auto.
Qed.

(* in terms of the model's own integral *)
Corollary pwc_add_integral_model : forall f g, wf_pwc f -> wf_pwc g ->
  nthF ROps (fst f) 0 = nthF ROps (fst g) 0 -> lastF ROps (fst f) = lastF ROps (fst g) ->
  exists s, pwc_add ROps f g = Ok s /\
    pwc_integral ROps s None =
    Ok (pwc_int_all ROps (fst f) (snd f) + pwc_int_all ROps (fst g) (snd g)).
Proof.
  intros f g Hf Hg E0 EL. exists (pwc_add_spec ROps f g). split; [apply pwc_add_eq_spec; auto|].
  rewrite <- pwc_add_integral by auto.
  destruct (pwc_add_spec ROps f g) as [xs ys]. reflexivity.
Qed.

(* canonical form: equal breakpoints and equal values at the piece midpoints *)
Lemma pwc_values_pieces xs : forall ys, ssorted xs -> length xs = S (length ys) ->
  map Some ys = map (fun q => pwc_at ROps xs ys (mid ROps q)) (pieces xs).
Proof.
  induction xs as [|a xs IH]; intros ys Hs Hl; [discriminate|].
  destruct xs as [|b r].
  { destruct ys; [reflexivity|discriminate]. }
  destruct ys as [|y ys]; [cbn in Hl; lia|].
  assert (Hab : a < b) by (apply ssorted_cons_inv in Hs as [_ F]; inversion F; auto).
  pose proof (ssorted_tl _ _ Hs) as Hs1. pose proof (mid_between a b Hab) as Hm.
  rewrite pieces_cons2. cbn [map]. rewrite pwc_at_first by lra. f_equal.
  rewrite (IH ys Hs1) by (cbn [length] in *; lia).
  apply map_ext_in. intros q Hq. pose proof (pieces_mid_gt b _ q Hs1 Hq).
  rewrite pwc_at_skip by lra. reflexivity.
Qed.

Lemma pwc_canonical xs ys ys' : ssorted xs -> length xs = S (length ys) -> length xs = S (length ys') ->
  (forall q, In q (pieces xs) -> pwc_at ROps xs ys (mid ROps q) = pwc_at ROps xs ys' (mid ROps q)) ->
  ys = ys'.
Proof.
  intros Hs H1 H2 H.
  assert (E : map Some ys = map Some ys').
  { rewrite (pwc_values_pieces xs ys), (pwc_values_pieces xs ys') by auto. apply map_ext_in. exact H. }
  clear - E. revert ys' E. induction ys as [|y ys IH]; intros [|y' ys'] E; try discriminate; auto.
  cbn [map] in E. injection E as E1 E2. subst. f_equal. auto.
Qed.

(* ------------------------------------------------------------------ *)
Print Assumptions pwc_add_eq_spec.
Print Assumptions pwc_integral_overlap.
Print Assumptions pwc_overlap_additive.
Print Assumptions pwc_call_scalar_eval.
Print Assumptions pwc_call_paths_agree.
Print Assumptions pwc_add_integral.
Print Assumptions pwc_add_assoc.
