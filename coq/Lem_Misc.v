(* Lem_Misc.v — small remaining facts: plottable data of piecewise-constant functions. *)
From Coq Require Import List Bool Arith Reals Lra Lia.
Import ListNotations.
From PS Require Import Num RLemmas Valid ModelFuncs.
Local Open Scope R_scope.

Lemma dup_length {A} (l : list A) : length (dup l) = (2 * length l)%nat.
Proof. induction l as [|a l IH]; cbn [dup length]; lia. Qed.

Lemma removelast_len {A} (l : list A) : length (removelast l) = (length l - 1)%nat.
Proof. induction l as [|a [|b l] IH]; cbn [removelast length] in *; lia. Qed.

Lemma dup_nth {A} (l : list A) d k : (k < length l)%nat ->
  nth (2 * k) (dup l) d = nth k l d /\ nth (2 * k + 1) (dup l) d = nth k l d.
Proof.
  revert k; induction l as [|a l IH]; intros k Hk; cbn [length] in Hk; [lia|].
  destruct k as [|k]; [cbn; split; reflexivity|].
  replace (2 * S k)%nat with (S (S (2 * k))) by lia.
  replace (S (S (2 * k)) + 1)%nat with (S (S (2 * k + 1))) by lia.
  cbn [dup nth]. apply IH. lia.
Qed.

(* get_plottable_data of a piecewise-constant function: every piece k contributes the two points
   (x_k, y_k) and (x_k+1, y_k): x0, then each interior breakpoint twice, then xn; each value twice *)
Theorem pwc_plottable_spec : forall f : list R * list R, wf_pwc f ->
  pwc_plottable f = (match fst f with [] => [] | x0 :: r => x0 :: removelast (dup r) end, dup (snd f)) /\
  length (fst (pwc_plottable f)) = (2 * length (snd f))%nat /\
  length (snd (pwc_plottable f)) = (2 * length (snd f))%nat /\
  (forall k, (k < length (snd f))%nat ->
     nth (2 * k) (snd (pwc_plottable f)) 0 = nth k (snd f) 0 /\ nth (2 * k + 1) (snd (pwc_plottable f)) 0 = nth k (snd f) 0).
Proof.
  intros [xs ys] [[_ Hl] He]. cbn [fst snd] in *. unfold pwc_plottable, plot_x. cbn [fst snd].
  split; [reflexivity|]. split; [|split; [apply dup_length | intros k Hk; apply dup_nth; exact Hk]].
  destruct xs as [|x0 r]; cbn [length] in *; [lia|].
  cbn [length]. assert (length r = length ys) by lia.
  destruct r as [|x1 r']; cbn [length] in *; [lia|].
  rewrite removelast_len, dup_length. cbn [length]. lia.
Qed.
