(* Lem_Sync.v — the SPIKE-Synchronisation scan against its declarative spec. *)
From Coq Require Import List Bool Arith ZArith Reals Lra Lia Sorted Permutation.
Import ListNotations.
From PS Require Import Num RLemmas Valid ModelKernels ModelFuncs ModelAPI Spec SyncDefs.
Local Open Scope R_scope.

(* ------------------------------------------------------------------ *)
(* 1. the coincidence window                                           *)

Definition fs_gF (lim : R) (c : @ctx R) : R :=
  match c_next c with Some y => y - c_cur c | None => lim end.
Definition fs_gP (lim : R) (c : @ctx R) : R :=
  match c_prev c with Some p => c_cur c - p | None => lim end.

Lemma fs_gapF lim c : gapF ROps lim (Some c) = fs_gF lim c.
Proof. destruct c as [p x [n|]]; reflexivity. Qed.
Lemma fs_gapP lim c : gapP ROps lim (Some c) = fs_gP lim c.
Proof. destruct c as [[p|] x n]; reflexivity. Qed.

Lemma fs_interp_le a b t : interp ROps a b t <= b.
Proof.
  unfold interp. rops. cbv zeta.
  destruct (Rltb_spec t (Rmin a b)).
  - apply Rmin_r.
  - destruct (Rltb_spec b t); lra.
Qed.
Lemma fs_interp_ge a b t : Rmin a b <= interp ROps a b t.
Proof.
  unfold interp. rops. cbv zeta.
  destruct (Rltb_spec t (Rmin a b)).
  - lra.
  - destruct (Rltb_spec b t); try lra. apply Rmin_r.
Qed.

(* the two orientations of tau_spec *)
Definition fs_tau_el (lim m : R) (e l : @ctx R) : R :=
  Rmin (Rmin (interp ROps (fs_gP lim e / 2) (fs_gF lim e / 2) (m / 4))
             (interp ROps (fs_gF lim l / 2) (fs_gP lim l / 2) (m / 4)))
       (lim / 2).

Lemma fs_tau_spec_le lim m c1 c2 : c_cur c1 <= c_cur c2 ->
  tau_spec ROps lim m c1 c2 = fs_tau_el lim m c1 c2.
Proof.
  intros H. unfold tau_spec, fs_tau_el.
  replace (nleb ROps (c_cur c1) (c_cur c2)) with true
    by (symmetry; apply nleb_true; exact H).
  rewrite !fs_gapF, !fs_gapP. rops. reflexivity.
Qed.
Lemma fs_tau_spec_gt lim m c1 c2 : c_cur c2 < c_cur c1 ->
  tau_spec ROps lim m c1 c2 = fs_tau_el lim m c2 c1.
Proof.
  intros H. unfold tau_spec, fs_tau_el.
  replace (nleb ROps (c_cur c1) (c_cur c2)) with false
    by (symmetry; apply nleb_false; exact H).
  rewrite !fs_gapF, !fs_gapP. rops. reflexivity.
Qed.

Lemma fs_tau_sym lim m c1 c2 : c_cur c1 <> c_cur c2 ->
  tau_spec ROps lim m c1 c2 = tau_spec ROps lim m c2 c1.
Proof.
  intros H. destruct (Rlt_dec (c_cur c1) (c_cur c2)) as [L|L].
  - rewrite fs_tau_spec_le by lra. rewrite fs_tau_spec_gt by lra. reflexivity.
  - rewrite fs_tau_spec_gt by lra. rewrite fs_tau_spec_le by lra. reflexivity.
Qed.

Lemma fs_get_tau lim m c1 c2 :
  get_tau ROps (Some c1) (Some c2) lim m = tau_spec ROps lim m c1 c2.
Proof.
  unfold get_tau, get_tau_gen, first_le.
  destruct (Rlt_dec (c_cur c2) (c_cur c1)) as [L|L].
  - replace (nleb ROps (c_cur c1) (c_cur c2)) with false
      by (symmetry; apply nleb_false; exact L).
    rewrite fs_tau_spec_gt by exact L. unfold fs_tau_el.
    rewrite !fs_gapF, !fs_gapP. rops.
    rewrite (Rmin_comm (interp ROps (fs_gF lim c1 / 2) _ _)). reflexivity.
  - replace (nleb ROps (c_cur c1) (c_cur c2)) with true
      by (symmetry; apply nleb_true; lra).
    rewrite fs_tau_spec_le by lra. unfold fs_tau_el.
    rewrite !fs_gapF, !fs_gapP. rops. reflexivity.
Qed.

Lemma fs_tau_el_bound lim m e l :
  fs_tau_el lim m e l <= fs_gF lim e / 2 /\
  fs_tau_el lim m e l <= fs_gP lim l / 2 /\
  fs_tau_el lim m e l <= lim / 2.
Proof.
  unfold fs_tau_el.
  pose proof (fs_interp_le (fs_gP lim e / 2) (fs_gF lim e / 2) (m / 4)) as H1.
  pose proof (fs_interp_le (fs_gF lim l / 2) (fs_gP lim l / 2) (m / 4)) as H2.
  set (A := interp ROps (fs_gP lim e / 2) (fs_gF lim e / 2) (m / 4)) in *.
  set (B := interp ROps (fs_gF lim l / 2) (fs_gP lim l / 2) (m / 4)) in *.
  pose proof (Rmin_l (Rmin A B) (lim / 2)).
  pose proof (Rmin_r (Rmin A B) (lim / 2)).
  pose proof (Rmin_l A B). pose proof (Rmin_r A B).
  repeat split; lra.
Qed.

Lemma fs_tau_el_pos lim m e l :
  0 < lim -> 0 < fs_gF lim e -> 0 < fs_gP lim e -> 0 < fs_gF lim l -> 0 < fs_gP lim l ->
  0 < fs_tau_el lim m e l.
Proof.
  intros Hl H1 H2 H3 H4. unfold fs_tau_el.
  pose proof (fs_interp_ge (fs_gP lim e / 2) (fs_gF lim e / 2) (m / 4)) as G1.
  pose proof (fs_interp_ge (fs_gF lim l / 2) (fs_gP lim l / 2) (m / 4)) as G2.
  set (A := interp ROps (fs_gP lim e / 2) (fs_gF lim e / 2) (m / 4)) in *.
  set (B := interp ROps (fs_gF lim l / 2) (fs_gP lim l / 2) (m / 4)) in *.
  assert (0 < A) by (eapply Rlt_le_trans; [|exact G1]; apply Rmin_glb_lt; lra).
  assert (0 < B) by (eapply Rlt_le_trans; [|exact G2]; apply Rmin_glb_lt; lra).
  repeat apply Rmin_glb_lt; lra.
Qed.

(* bounds in terms of tau_spec, by the order of the two spike times *)
Lemma fs_tau_lt_bound lim m c d : c_cur c < c_cur d ->
  tau_spec ROps lim m c d <= fs_gF lim c / 2 /\ tau_spec ROps lim m c d <= fs_gP lim d / 2.
Proof.
  intros H. rewrite fs_tau_spec_le by lra.
  destruct (fs_tau_el_bound lim m c d) as (A & B & _). split; assumption.
Qed.
Lemma fs_tau_gt_bound lim m c d : c_cur d < c_cur c ->
  tau_spec ROps lim m c d <= fs_gP lim c / 2 /\ tau_spec ROps lim m c d <= fs_gF lim d / 2.
Proof.
  intros H. rewrite fs_tau_spec_gt by lra.
  destruct (fs_tau_el_bound lim m d c) as (A & B & _). split; assumption.
Qed.

Definition fs_wfc (c : @ctx R) : Prop :=
  (forall p, c_prev c = Some p -> p < c_cur c) /\ (forall n, c_next c = Some n -> c_cur c < n).

Lemma fs_wfc_gaps lim c : 0 < lim -> fs_wfc c -> 0 < fs_gF lim c /\ 0 < fs_gP lim c.
Proof.
  intros Hl [Hp Hn]. unfold fs_gF, fs_gP. split.
  - destruct (c_next c) as [n|]; [specialize (Hn n eq_refl); lra | assumption].
  - destruct (c_prev c) as [p|]; [specialize (Hp p eq_refl); lra | assumption].
Qed.

Lemma fs_tau_pos lim m c d : 0 < lim -> fs_wfc c -> fs_wfc d -> 0 < tau_spec ROps lim m c d.
Proof.
  intros Hl Wc Wd.
  destruct (fs_wfc_gaps lim c Hl Wc), (fs_wfc_gaps lim d Hl Wd).
  destruct (Rlt_dec (c_cur d) (c_cur c)) as [L|L].
  - rewrite fs_tau_spec_gt by lra. apply fs_tau_el_pos; assumption.
  - rewrite fs_tau_spec_le by lra. apply fs_tau_el_pos; assumption.
Qed.

Lemma fs_true_max ts te mt : true_max ROps ts te mt = lim_of ROps ts te mt.
Proof. reflexivity. Qed.

Lemma fs_lim_pos ts te mt : ts < te -> 0 < lim_of ROps ts te mt.
Proof.
  intros H. unfold lim_of. rops.
  destruct (Rltb_spec 0 mt).
  - apply Rmin_glb_lt; lra.
  - lra.
Qed.

(* ------------------------------------------------------------------ *)
(* 2. zippers over sorted trains, contexts                             *)

Lemma fs_rev_cons_app {A} (x : A) p f : rev (x :: p) ++ f = rev p ++ x :: f.
Proof. cbn [rev]. rewrite <- app_assoc. reflexivity. Qed.

Lemma fs_ssorted_In x l y : ssorted (x :: l) -> In y l -> x < y.
Proof.
  intros H Hy. apply ssorted_cons_inv in H as [_ H].
  rewrite Forall_forall in H. auto.
Qed.

Lemma fs_zip_lt p f x a : ssorted (rev p ++ f) -> In x p -> In a f -> x < a.
Proof.
  intros H Hx Ha. apply ssorted_app_inv in H as (_ & _ & H).
  apply H; [rewrite <- in_rev; exact Hx | exact Ha].
Qed.
Lemma fs_zip_p p f x x' : ssorted (rev (x :: p) ++ f) -> In x' p -> x' < x.
Proof.
  rewrite fs_rev_cons_app. intros H Hx.
  eapply fs_zip_lt; [exact H | exact Hx | left; reflexivity].
Qed.
Lemma fs_zip_f p f a a' : ssorted (rev p ++ a :: f) -> In a' f -> a < a'.
Proof.
  intros H Ha. apply ssorted_app_inv in H as (_ & H & _).
  eapply fs_ssorted_In; eassumption.
Qed.
Lemma fs_zip_notin_p p f x : ssorted (rev (x :: p) ++ f) -> ~ In x (rev p).
Proof.
  intros H Hx. rewrite <- in_rev in Hx.
  pose proof (fs_zip_p _ _ _ _ H Hx). lra.
Qed.
Lemma fs_zip_notin_f p f x : ssorted (rev (x :: p) ++ f) -> ~ In x f.
Proof.
  rewrite fs_rev_cons_app. intros H Hx.
  pose proof (fs_zip_f _ _ _ _ H Hx). lra.
Qed.

Lemma fs_split_unique {A} (a : A) : forall l1 l2 r1 r2,
  l1 ++ a :: r1 = l2 ++ a :: r2 -> ~ In a l1 -> ~ In a l2 -> l1 = l2 /\ r1 = r2.
Proof.
  induction l1 as [|x l1 IH]; intros [|y l2] r1 r2 E N1 N2; cbn in *.
  - inversion E; auto.
  - inversion E; subst. exfalso; apply N2; auto.
  - inversion E; subst. exfalso; apply N1; auto.
  - inversion E; subst. destruct (IH l2 r1 r2 H1) as [-> ->]; auto.
Qed.

Lemma fs_zip_unique x p f q g :
  ssorted (rev (x :: p) ++ f) -> rev (x :: p) ++ f = rev (x :: q) ++ g -> p = q /\ f = g.
Proof.
  intros S E.
  assert (S' : ssorted (rev (x :: q) ++ g)) by (rewrite <- E; exact S).
  pose proof (fs_zip_notin_p _ _ _ S) as N1. pose proof (fs_zip_notin_p _ _ _ S') as N2.
  rewrite !fs_rev_cons_app in E.
  destruct (fs_split_unique x _ _ _ _ E N1 N2) as [E1 E2].
  split; [|exact E2].
  rewrite <- (rev_involutive p), <- (rev_involutive q), E1. reflexivity.
Qed.

(* contexts as zipper positions *)
Lemma fs_ctx_in_zip (d : @ctx R) : forall s p0, In d (contexts_from (hd_error p0) s) ->
  exists p f, rev p ++ f = rev p0 ++ s /\ ctx_of p f = Some d.
Proof.
  induction s as [|x r IH]; intros p0 H; cbn [contexts_from] in H.
  - destruct H.
  - destruct H as [H|H].
    + exists (x :: p0), r. split; [apply fs_rev_cons_app | cbn; congruence].
    + destruct (IH (x :: p0) H) as (p & f & E & C).
      exists p, f. split; [rewrite E; apply fs_rev_cons_app | exact C].
Qed.

Lemma fs_zip_in_ctx0 (x : R) (f : list R) : forall l p0,
  In (mkCtx (hd_error (rev l ++ p0)) x (hd_error f)) (contexts_from (hd_error p0) (l ++ x :: f)).
Proof.
  induction l as [|z l IH]; intros p0; cbn [app contexts_from rev].
  - left; reflexivity.
  - right. rewrite <- app_assoc. cbn [app]. apply (IH (z :: p0)).
Qed.

Lemma fs_zip_in_ctx (s : list R) p f d : rev p ++ f = s -> ctx_of p f = Some d -> In d (contexts s).
Proof.
  intros E C. destruct p as [|x p]; [discriminate|]. cbn in C. inversion C; subst d; clear C.
  subst s. rewrite fs_rev_cons_app.
  pose proof (fs_zip_in_ctx0 x f (rev p) []) as H.
  rewrite app_nil_r, rev_involutive in H. exact H.
Qed.

Lemma fs_ctx_zip (s : list R) d : In d (contexts s) ->
  exists p f, rev (c_cur d :: p) ++ f = s /\ d = mkCtx (hd_error p) (c_cur d) (hd_error f).
Proof.
  intros H. destruct (fs_ctx_in_zip d s [] H) as (p & f & E & C).
  destruct p as [|x p]; [discriminate|]. cbn [ctx_of] in C. inversion C; subst d; clear C.
  exists p, f. split; [exact E | reflexivity].
Qed.

Lemma fs_ctx_cur_in (s : list R) d : In d (contexts s) -> In (c_cur d) s.
Proof.
  intros H. destruct (fs_ctx_zip s d H) as (p & f & E & _). rewrite <- E.
  rewrite fs_rev_cons_app. apply in_or_app. right; left; reflexivity.
Qed.

Lemma fs_zip_wfc x p f : ssorted (rev (x :: p) ++ f) ->
  fs_wfc (mkCtx (hd_error p) x (hd_error f)).
Proof.
  intros S. split; cbn; intros y Hy.
  - destruct p as [|z p]; inversion Hy; subst. eapply fs_zip_p; [exact S | left; reflexivity].
  - destruct f as [|z f]; inversion Hy; subst. rewrite fs_rev_cons_app in S.
    eapply fs_zip_f; [exact S | left; reflexivity].
Qed.

Lemma fs_ctx_wfc (s : list R) d : ssorted s -> In d (contexts s) -> fs_wfc d.
Proof.
  intros S H. destruct (fs_ctx_zip s d H) as (p & f & E & D). rewrite D.
  apply fs_zip_wfc. rewrite E. exact S.
Qed.

(* non-adjacency: a spike of the same train strictly in between *)
Lemma fs_NA_next (s : list R) d y : ssorted s -> In d (contexts s) -> In y s -> c_cur d < y ->
  exists n, c_next d = Some n /\ n <= y.
Proof.
  intros S H Hy L. destruct (fs_ctx_zip s d H) as (p & f & E & D).
  rewrite <- E in Hy, S. rewrite D; cbn [c_next].
  apply in_app_or in Hy. destruct Hy as [Hy|Hy].
  - rewrite <- in_rev in Hy. destruct Hy as [Hy|Hy]; [lra|].
    pose proof (fs_zip_p _ _ _ _ S Hy). lra.
  - destruct f as [|n f]; [destruct Hy|]. exists n. split; [reflexivity|].
    destruct Hy as [Hy|Hy]; [lra|].
    rewrite fs_rev_cons_app in S. apply ssorted_app_inv in S as (_ & S & _).
    apply ssorted_cons_inv in S as [S _].
    pose proof (fs_ssorted_In _ _ _ S Hy). lra.
Qed.

Lemma fs_NA_prev (s : list R) d y : ssorted s -> In d (contexts s) -> In y s -> y < c_cur d ->
  exists q, c_prev d = Some q /\ y <= q.
Proof.
  intros S H Hy L. destruct (fs_ctx_zip s d H) as (p & f & E & D).
  rewrite <- E in Hy, S. rewrite D; cbn [c_prev].
  apply in_app_or in Hy. destruct Hy as [Hy|Hy].
  - rewrite <- in_rev in Hy. destruct Hy as [Hy|Hy]; [lra|].
    destruct p as [|q p]; [destruct Hy|]. exists q. split; [reflexivity|].
    destruct Hy as [Hy|Hy]; [lra|].
    assert (S' : ssorted (rev (q :: p) ++ c_cur d :: f)) by (rewrite <- fs_rev_cons_app; exact S).
    pose proof (fs_zip_p _ _ _ _ S' Hy). lra.
  - assert (c_cur d < y); [|lra].
    eapply fs_zip_lt; [exact S | left; reflexivity | exact Hy].
Qed.

(* find in contexts *)
Lemma fs_find_ctx0 a f : forall l p0, ~ In a l ->
  find (fun c => neqb ROps (c_cur c) a) (contexts_from (hd_error p0) (l ++ a :: f))
  = Some (mkCtx (hd_error (rev l ++ p0)) a (hd_error f)).
Proof.
  induction l as [|z l IH]; intros p0 N; cbn [app contexts_from rev find c_cur neqb ROps].
  - destruct (Reqb_spec a a); [reflexivity | congruence].
  - destruct (Reqb_spec z a) as [E|E]; [exfalso; apply N; left; exact E|].
    rewrite <- app_assoc. cbn [app]. apply (IH (z :: p0)).
    intros H; apply N; right; exact H.
Qed.

Lemma fs_find_ctx a p f : ssorted (rev (a :: p) ++ f) ->
  find (fun c => neqb ROps (c_cur c) a) (contexts (rev (a :: p) ++ f))
  = Some (mkCtx (hd_error p) a (hd_error f)).
Proof.
  intros S. pose proof (fs_zip_notin_p _ _ _ S) as N.
  rewrite fs_rev_cons_app.
  pose proof (fs_find_ctx0 a f (rev p) [] N) as H.
  rewrite app_nil_r, rev_involutive in H. exact H.
Qed.

Lemma fs_find_none a : forall s prev, ~ In a s ->
  find (fun c => neqb ROps (c_cur c) a) (contexts_from prev s) = None.
Proof.
  induction s as [|z s IH]; intros prev N; cbn [contexts_from find c_cur neqb ROps].
  - reflexivity.
  - destruct (Reqb_spec z a) as [E|E]; [exfalso; apply N; left; exact E|].
    apply IH. intros H; apply N; right; exact H.
Qed.

(* ------------------------------------------------------------------ *)
(* 3. a partner is always one of the two neighbours in the other train *)

Definition fs_nearP (lim m : R) (c : @ctx R) (q g : list R) : bool :=
  match q with
  | y :: q' => Rltb (c_cur c - y) (tau_spec ROps lim m c (mkCtx (hd_error q') y (hd_error g)))
  | [] => false
  end.
Definition fs_nearN (lim m : R) (c : @ctx R) (q g : list R) : bool :=
  match g with
  | b :: g' => Rltb (b - c_cur c) (tau_spec ROps lim m c (mkCtx (hd_error q) b (hd_error g')))
  | [] => false
  end.

Lemma fs_coinc_true lim m c d :
  coinc ROps lim m c d = true <->
  c_cur c <> c_cur d /\ Rabs (c_cur c - c_cur d) < tau_spec ROps lim m c d.
Proof.
  unfold coinc. rops. rewrite andb_true_iff, negb_true_iff, Reqb_false, Rltb_true. tauto.
Qed.

Lemma fs_has_partner lim m c s q g :
  ssorted s -> rev q ++ g = s ->
  (forall y, In y q -> y < c_cur c) -> (forall b, In b g -> c_cur c < b) ->
  has_partner ROps lim m c (contexts s) = fs_nearP lim m c q g || fs_nearN lim m c q g.
Proof.
  intros S E Hq Hg. apply eq_true_iff_eq. split.
  - unfold has_partner. rewrite existsb_exists. intros (d & Hd & Cd).
    apply fs_coinc_true in Cd as [Nd Cd].
    pose proof (fs_ctx_cur_in _ _ Hd) as Hin.
    destruct (fs_ctx_zip _ _ Hd) as (p & f & Ez & Dd).
    rewrite <- E in Hin. apply in_app_or in Hin. rewrite <- in_rev in Hin.
    apply orb_true_iff. destruct Hin as [Hin|Hin].
    + left. destruct q as [|y q']; [destruct Hin|]. unfold fs_nearP. apply Rltb_true.
      pose proof (Hq y (or_introl eq_refl)) as Ly.
      destruct Hin as [Hin|Hin].
      * (* the nearest earlier spike *)
        assert (Z : p = q' /\ f = g).
        { apply (fs_zip_unique (c_cur d)); [rewrite Ez; exact S|].
          rewrite Ez, <- E, Hin. reflexivity. }
        destruct Z as [-> ->]. rewrite Hin. rewrite <- Dd.
        rewrite Rabs_right in Cd by lra. exact Cd.
      * exfalso. assert (L : c_cur d < y).
        { rewrite <- E in S. eapply fs_zip_p; eassumption. }
        assert (Iy : In y s).
        { rewrite <- E. apply in_or_app. left. rewrite <- in_rev. left; reflexivity. }
        destruct (fs_NA_next _ _ _ S Hd Iy L) as (n & Hn & Ln).
        assert (Lc : c_cur d < c_cur c) by lra.
        destruct (fs_tau_gt_bound lim m c d Lc) as [_ B].
        unfold fs_gF in B. rewrite Hn in B.
        rewrite Rabs_right in Cd by lra. lra.
    + right. destruct g as [|b g']; [destruct Hin|]. unfold fs_nearN. apply Rltb_true.
      pose proof (Hg b (or_introl eq_refl)) as Lb.
      destruct Hin as [Hin|Hin].
      * assert (Z : p = q /\ f = g').
        { apply (fs_zip_unique (c_cur d)); [rewrite Ez; exact S|].
          rewrite Ez, <- E, Hin. rewrite fs_rev_cons_app. reflexivity. }
        destruct Z as [-> ->]. rewrite Hin. rewrite <- Dd.
        rewrite Rabs_left1 in Cd by lra. lra.
      * exfalso. assert (L : b < c_cur d).
        { rewrite <- E in S. eapply fs_zip_f; eassumption. }
        assert (Ib : In b s).
        { rewrite <- E. apply in_or_app. right. left; reflexivity. }
        destruct (fs_NA_prev _ _ _ S Hd Ib L) as (n & Hn & Ln).
        assert (Lc : c_cur c < c_cur d) by lra.
        destruct (fs_tau_lt_bound lim m c d Lc) as [_ B].
        unfold fs_gP in B. rewrite Hn in B.
        rewrite Rabs_left1 in Cd by lra. lra.
  - rewrite orb_true_iff. unfold has_partner. rewrite existsb_exists.
    intros [H|H].
    + destruct q as [|y q']; [discriminate|]. unfold fs_nearP in H. apply Rltb_true in H.
      pose proof (Hq y (or_introl eq_refl)) as Ly.
      exists (mkCtx (hd_error q') y (hd_error g)). split.
      * eapply fs_zip_in_ctx; [exact E | reflexivity].
      * apply fs_coinc_true. cbn [c_cur]. split; [lra|].
        rewrite Rabs_right by lra. exact H.
    + destruct g as [|b g']; [discriminate|]. unfold fs_nearN in H. apply Rltb_true in H.
      pose proof (Hg b (or_introl eq_refl)) as Lb.
      exists (mkCtx (hd_error q) b (hd_error g')). split.
      * eapply (fs_zip_in_ctx s (b :: q) g'); [rewrite fs_rev_cons_app; exact E | reflexivity].
      * apply fs_coinc_true. cbn [c_cur]. split; [lra|].
        rewrite Rabs_left1 by lra. lra.
Qed.

(* helpers for the per-spike scan and the per-train projections *)
Definition fs_le_hd (x : R) (g : list R) : Prop :=
  match g with z :: _ => x <= z | [] => True end.

Lemma fs_skip x : forall f2 p2,
  exists q2 g2, skip_before ROps x p2 f2 = (q2, g2) /\ rev q2 ++ g2 = rev p2 ++ f2 /\
    fs_le_hd x g2 /\ ((q2 = p2 /\ g2 = f2) \/ exists y q', q2 = y :: q' /\ y < x).
Proof.
  induction f2 as [|y f2 IH]; intros p2; cbn [skip_before nltb ROps].
  - exists p2, []. repeat split; auto; exact Logic.I.
  - destruct (Rltb_spec y x) as [L|L].
    + destruct (IH (y :: p2)) as (q2 & g2 & E & Z & Lg & D). exists q2, g2.
      split; [exact E|]. split; [rewrite Z; apply fs_rev_cons_app|]. split; [exact Lg|].
      right. destruct D as [[-> ->]|D]; [exists y, p2; auto | exact D].
    + exists p2, (y :: f2). repeat split; auto. cbn; lra.
Qed.

Lemma fs_is_shared_eq (c : @ctx R) : forall s prev,
  is_shared ROps c (contexts_from prev s) = existsb (fun y => Reqb (c_cur c) y) s.
Proof.
  unfold is_shared. induction s as [|z s IH]; intros prev;
    cbn [contexts_from existsb c_cur neqb ROps]; [reflexivity|]. rewrite IH. reflexivity.
Qed.
Lemma fs_is_shared_true (c : @ctx R) s : In (c_cur c) s -> is_shared ROps c (contexts s) = true.
Proof.
  intros H. unfold contexts. rewrite fs_is_shared_eq. apply existsb_exists.
  exists (c_cur c). split; [exact H | apply Reqb_true; reflexivity].
Qed.
Lemma fs_is_shared_false (c : @ctx R) s : ~ In (c_cur c) s -> is_shared ROps c (contexts s) = false.
Proof.
  intros H. unfold contexts. rewrite fs_is_shared_eq.
  destruct (existsb _ s) eqn:E; [|reflexivity]. exfalso.
  apply existsb_exists in E as (y & Hy & Ey). apply Reqb_true in Ey. subst y. auto.
Qed.

Definition fs_sv (lim m : R) (s2 : list R) (c : @ctx R) : R :=
  if has_partner ROps lim m c (contexts s2) || is_shared ROps c (contexts s2)
  then n1 ROps else n0 ROps.

(* ------------------------------------------------------------------ *)
(* 4. the merge scan                                                   *)

Definition fs_lt_hd (a : R) (f : list R) : Prop :=
  match f with b :: _ => a < b | [] => True end.
Definition fs_hd_lt (p : list R) (a : R) : Prop :=
  match p with x :: _ => x < a | [] => True end.

Section Scan.
  Variables (lim m : R) (s1 s2 : list R).
  Hypothesis S1 : ssorted s1.
  Hypothesis S2 : ssorted s2.

  Definition fs_tau : option (@ctx R) -> option (@ctx R) -> R :=
    fun c1 c2 => get_tau ROps c1 c2 lim m.

  Definition fs_hit1 (p1 : list R) (a : R) (f1' p2 f2 : list R) : bool :=
    match p2 with
    | y :: _ => nltb ROps (nsub ROps a y) (fs_tau (ctx_of (a :: p1) f1') (ctx_of p2 f2))
    | [] => false
    end.
  Definition fs_hit2 (p1 f1 p2 : list R) (b : R) (f2' : list R) : bool :=
    match p1 with
    | x :: _ => nltb ROps (nsub ROps b x) (fs_tau (ctx_of p1 f1) (ctx_of (b :: p2) f2'))
    | [] => false
    end.

  Record fs_inv (p1 f1 p2 f2 : list R) : Prop := mk_fs_inv {
    fi_1 : rev p1 ++ f1 = s1;
    fi_2 : rev p2 ++ f2 = s2;
    fi_12 : match p1, f2 with x :: _, b :: _ => x < b | _, _ => True end;
    fi_21 : match p2, f1 with y :: _, a :: _ => y < a | _, _ => True end }.
  Arguments fi_1 {_ _ _ _} _.
  Arguments fi_2 {_ _ _ _} _.
  Arguments fi_12 {_ _ _ _} _.
  Arguments fi_21 {_ _ _ _} _.

  Lemma fs_inv_S1 p1 f1 p2 f2 : fs_inv p1 f1 p2 f2 -> ssorted (rev p1 ++ f1).
  Proof. intros I. rewrite (fi_1 I). exact S1. Qed.
  Arguments fs_inv_S1 {_ _ _ _} _.
  Lemma fs_inv_S2 p1 f1 p2 f2 : fs_inv p1 f1 p2 f2 -> ssorted (rev p2 ++ f2).
  Proof. intros I. rewrite (fi_2 I). exact S2. Qed.
  Arguments fs_inv_S2 {_ _ _ _} _.

  Lemma fs_inv_adv1 p1 a f1' p2 f2 :
    fs_inv p1 (a :: f1') p2 f2 -> fs_lt_hd a f2 -> fs_inv (a :: p1) f1' p2 f2.
  Proof.
    intros I L. pose proof (fs_inv_S1 I) as Z1. destruct I as [E1 E2 I12 I21]. split.
    - rewrite fs_rev_cons_app. exact E1.
    - exact E2.
    - destruct f2 as [|b f2]; [exact I|]. exact L.
    - destruct p2 as [|y p2]; [exact I|]. destruct f1' as [|a' f1']; [exact I|].
      assert (a < a') by (eapply fs_zip_f; [exact Z1 | left; reflexivity]). lra.
  Qed.
  Arguments fs_inv_adv1 {_ _ _ _ _} _ _.
  Lemma fs_inv_adv2 p1 f1 p2 b f2' :
    fs_inv p1 f1 p2 (b :: f2') -> fs_lt_hd b f1 -> fs_inv p1 f1 (b :: p2) f2'.
  Proof.
    intros I L. pose proof (fs_inv_S2 I) as Z2. destruct I as [E1 E2 I12 I21]. split.
    - exact E1.
    - rewrite fs_rev_cons_app. exact E2.
    - destruct p1 as [|x p1]; [exact I|]. destruct f2' as [|b' f2']; [exact I|].
      assert (b < b') by (eapply fs_zip_f; [exact Z2 | left; reflexivity]). lra.
    - destruct f1 as [|a f1]; [exact I|]. exact L.
  Qed.
  Arguments fs_inv_adv2 {_ _ _ _ _} _ _.
  Lemma fs_inv_both p1 a f1' p2 f2' :
    fs_inv p1 (a :: f1') p2 (a :: f2') -> fs_inv (a :: p1) f1' (a :: p2) f2'.
  Proof.
    intros I. pose proof (fs_inv_S1 I) as Z1. pose proof (fs_inv_S2 I) as Z2.
    destruct I as [E1 E2 I12 I21]. split.
    - rewrite fs_rev_cons_app. exact E1.
    - rewrite fs_rev_cons_app. exact E2.
    - destruct f2' as [|b' f2']; [exact I|].
      eapply fs_zip_f; [exact Z2 | left; reflexivity].
    - destruct f1' as [|a' f1']; [exact I|].
      eapply fs_zip_f; [exact Z1 | left; reflexivity].
  Qed.
  Arguments fs_inv_both {_ _ _ _ _} _.

  Lemma fs_inv_init : fs_inv [] s1 [] s2.
  Proof. split; try reflexivity; exact I. Qed.

  (* induction principle of the scan *)
  Lemma fs_scan_ind (P : list R -> list R -> list R -> list R -> list (@sev R) -> Prop) :
    (forall p1 p2, fs_inv p1 [] p2 [] -> P p1 [] p2 [] []) ->
    (forall p1 a f1' p2 f2 r, fs_inv p1 (a :: f1') p2 f2 -> fs_lt_hd a f2 ->
        fs_inv (a :: p1) f1' p2 f2 -> P (a :: p1) f1' p2 f2 r ->
        P p1 (a :: f1') p2 f2 (Adv1 a (fs_hit1 p1 a f1' p2 f2) :: r)) ->
    (forall p1 f1 p2 b f2' r, fs_inv p1 f1 p2 (b :: f2') -> fs_lt_hd b f1 ->
        fs_inv p1 f1 (b :: p2) f2' -> P p1 f1 (b :: p2) f2' r ->
        P p1 f1 p2 (b :: f2') (Adv2 b (fs_hit2 p1 f1 p2 b f2') :: r)) ->
    (forall p1 a f1' p2 f2' r, fs_inv p1 (a :: f1') p2 (a :: f2') ->
        fs_inv (a :: p1) f1' (a :: p2) f2' -> P (a :: p1) f1' (a :: p2) f2' r ->
        P p1 (a :: f1') p2 (a :: f2') (Both a :: r)) ->
    forall k p1 f1 p2 f2, fs_inv p1 f1 p2 f2 -> (length f1 + length f2 <= k)%nat ->
      P p1 f1 p2 f2 (coinc_events ROps fs_tau k p1 f1 p2 f2).
  Proof.
    intros H0 H1 H2 H3. induction k as [|k IH]; intros p1 f1 p2 f2 I Hk.
    - destruct f1; [|cbn in Hk; lia]. destruct f2; [|cbn in Hk; lia]. cbn. apply H0; exact I.
    - destruct f1 as [|a f1']; destruct f2 as [|b f2']; cbn [coinc_events].
      + apply H0; exact I.
      + assert (L : fs_lt_hd b []) by exact Logic.I.
        pose proof (fs_inv_adv2 I L) as I'.
        apply (H2 p1 [] p2 b f2'); auto. apply IH; [exact I'|]. cbn in *; lia.
      + assert (L : fs_lt_hd a []) by exact Logic.I.
        pose proof (fs_inv_adv1 I L) as I'.
        apply (H1 p1 a f1' p2 []); auto. apply IH; [exact I'|]. cbn in *; lia.
      + cbn [nltb ROps]. destruct (Rltb_spec a b) as [L|L].
        * assert (L' : fs_lt_hd a (b :: f2')) by exact L.
          pose proof (fs_inv_adv1 I L') as I'.
          apply (H1 p1 a f1' p2 (b :: f2')); auto. apply IH; [exact I'|]. cbn in *; lia.
        * destruct (Rltb_spec b a) as [G|G].
          -- assert (L' : fs_lt_hd b (a :: f1')) by exact G.
             pose proof (fs_inv_adv2 I L') as I'.
             apply (H2 p1 (a :: f1') p2 b f2'); auto. apply IH; [exact I'|]. cbn in *; lia.
          -- assert (b = a) by lra. subst b.
             pose proof (fs_inv_both I) as I'.
             apply H3; auto. apply IH; [exact I'|]. cbn in *; lia.
  Qed.

  (* what a hit means *)
  Lemma fs_hit1_true p1 a f1' p2 f2 :
    fs_inv p1 (a :: f1') p2 f2 -> fs_hit1 p1 a f1' p2 f2 = true ->
    exists y p2', p2 = y :: p2' /\ y < a /\
      let ca := mkCtx (hd_error p1) a (hd_error f1') in
      let cy := mkCtx (hd_error p2') y (hd_error f2) in
      a - y < tau_spec ROps lim m ca cy /\
      a - y < fs_gP lim ca / 2 /\ a - y < fs_gF lim cy / 2.
  Proof.
    intros I H. unfold fs_hit1 in H. destruct p2 as [|y p2']; [discriminate|].
    exists y, p2'. split; [reflexivity|].
    pose proof (fi_21 I) as L. cbn in L. split; [exact L|].
    cbn [ctx_of] in H. unfold fs_tau in H. rewrite fs_get_tau in H.
    cbn [nltb nsub ROps] in H. apply Rltb_true in H. cbv zeta.
    split; [exact H|].
    match type of H with _ < tau_spec _ _ _ ?c ?d =>
      destruct (fs_tau_gt_bound lim m c d) as [B1 B2]; [cbn; exact L|] end.
    split; lra.
  Qed.
  Arguments fs_hit1_true {_ _ _ _ _} _ _.

  Lemma fs_hit2_true p1 f1 p2 b f2' :
    fs_inv p1 f1 p2 (b :: f2') -> fs_hit2 p1 f1 p2 b f2' = true ->
    exists x p1', p1 = x :: p1' /\ x < b /\
      let cx := mkCtx (hd_error p1') x (hd_error f1) in
      let cb := mkCtx (hd_error p2) b (hd_error f2') in
      b - x < tau_spec ROps lim m cx cb /\
      b - x < fs_gF lim cx / 2 /\ b - x < fs_gP lim cb / 2.
  Proof.
    intros I H. unfold fs_hit2 in H. destruct p1 as [|x p1']; [discriminate|].
    exists x, p1'. split; [reflexivity|].
    pose proof (fi_12 I) as L. cbn in L. split; [exact L|].
    cbn [ctx_of] in H. unfold fs_tau in H. rewrite fs_get_tau in H.
    cbn [nltb nsub ROps] in H. apply Rltb_true in H. cbv zeta.
    split; [exact H|].
    match type of H with _ < tau_spec _ _ _ ?c ?d =>
      destruct (fs_tau_lt_bound lim m c d) as [B1 B2]; [cbn; exact L|] end.
    split; lra.
  Qed.
  Arguments fs_hit2_true {_ _ _ _ _} _ _.

  (* the event before the current position *)
  Definition fs_prev_ok (prev : option (@sev R)) (p1 f1 p2 f2 : list R) : Prop :=
    match prev with
    | None => p1 = [] /\ p2 = []
    | Some (Adv1 x h) =>
        exists p1', p1 = x :: p1' /\ fs_hd_lt p2 x /\ h = fs_hit1 p1' x f1 p2 f2
    | Some (Adv2 y h) =>
        exists p2', p2 = y :: p2' /\ fs_hd_lt p1 y /\ h = fs_hit2 p1 f1 p2' y f2
    | Some (Both x) => exists p1' p2', p1 = x :: p1' /\ p2 = x :: p2'
    end.

  Lemma fs_clean_step1 prev p1 a f1' p2 f2 :
    fs_inv p1 (a :: f1') p2 f2 -> fs_prev_ok prev p1 (a :: f1') p2 f2 ->
    fs_hit1 p1 a f1' p2 f2 = true -> exists y, prev = Some (Adv2 y false).
  Proof.
    intros I PO H. pose proof (fs_inv_S1 I) as Z1.
    destruct (fs_hit1_true I H) as (y & p2' & -> & Ly & _ & B1 & B2).
    destruct prev as [[x h'|y' h'|x]|]; cbn [fs_prev_ok] in PO.
    - exfalso. destruct PO as (p1' & -> & Lx & _). cbn in Lx.
      unfold fs_gP in B1; cbn in B1.
      assert (x < a) by (eapply fs_zip_lt; [exact Z1 | left; reflexivity | left; reflexivity]).
      lra.
    - destruct PO as (p2'' & E & Lx & Hh). inversion E; subst y' p2''; clear E.
      exists y. destruct h'; [exfalso|reflexivity]. symmetry in Hh.
      assert (I' : fs_inv p1 (a :: f1') p2' (y :: f2)).
      { destruct I as [E1 E2 I12 I21]. split.
        - exact E1.
        - rewrite <- fs_rev_cons_app. exact E2.
        - destruct p1; [exact Logic.I | exact Lx].
        - destruct p2' as [|y0 p2']; [exact Logic.I|].
          assert (y0 < y); [|lra].
          rewrite <- E2 in S2. eapply fs_zip_p; [exact S2 | left; reflexivity]. }
      destruct (fs_hit2_true I' Hh) as (x & p1' & -> & Lxy & _ & C1 & C2).
      unfold fs_gP in B1; cbn in B1. unfold fs_gF in C1; cbn in C1. lra.
    - exfalso. destruct PO as (p1' & p2'' & -> & E). inversion E; subst.
      unfold fs_gP in B1; cbn in B1. lra.
    - destruct PO as [_ E]. discriminate.
  Qed.

  Lemma fs_clean_step2 prev p1 f1 p2 b f2' :
    fs_inv p1 f1 p2 (b :: f2') -> fs_prev_ok prev p1 f1 p2 (b :: f2') ->
    fs_hit2 p1 f1 p2 b f2' = true -> exists x, prev = Some (Adv1 x false).
  Proof.
    intros I PO H. pose proof (fs_inv_S2 I) as Z2.
    destruct (fs_hit2_true I H) as (x & p1' & -> & Lx & _ & B1 & B2).
    destruct prev as [[x' h'|y h'|y]|]; cbn [fs_prev_ok] in PO.
    - destruct PO as (p1'' & E & Ly & Hh). inversion E; subst x' p1''; clear E.
      exists x. destruct h'; [exfalso|reflexivity]. symmetry in Hh.
      assert (I' : fs_inv p1' (x :: f1) p2 (b :: f2')).
      { destruct I as [E1 E2 I12 I21]. split.
        - rewrite <- fs_rev_cons_app. exact E1.
        - exact E2.
        - destruct p1' as [|x0 p1']; [exact Logic.I|].
          assert (x0 < x); [|lra].
          rewrite <- E1 in S1. eapply fs_zip_p; [exact S1 | left; reflexivity].
        - destruct p2; [exact Logic.I | exact Ly]. }
      destruct (fs_hit1_true I' Hh) as (y & p2' & -> & Lxy & _ & C1 & C2).
      unfold fs_gP in B2; cbn in B2. unfold fs_gF in C2; cbn in C2. lra.
    - exfalso. destruct PO as (p2' & -> & Ly & _). cbn in Ly.
      unfold fs_gP in B2; cbn in B2.
      assert (y < b) by (eapply fs_zip_lt; [exact Z2 | left; reflexivity | left; reflexivity]).
      lra.
    - exfalso. destruct PO as (p1'' & p2' & E & ->). inversion E; subst.
      unfold fs_gP in B2; cbn in B2. lra.
    - destruct PO as [E _]. discriminate.
  Qed.

  Lemma fs_clean_gen k p1 f1 p2 f2 :
    fs_inv p1 f1 p2 f2 -> (length f1 + length f2 <= k)%nat ->
    forall prev, fs_prev_ok prev p1 f1 p2 f2 ->
    clean_from prev (coinc_events ROps fs_tau k p1 f1 p2 f2) = true.
  Proof.
    apply (fs_scan_ind (fun p1 f1 p2 f2 evs =>
      forall prev, fs_prev_ok prev p1 f1 p2 f2 -> clean_from prev evs = true)).
    - reflexivity.
    - intros q1 a g1 q2 g2 r I L I' IH prev PO. cbn [clean_from].
      apply andb_true_iff. split.
      + destruct (fs_hit1 q1 a g1 q2 g2) eqn:H; [|reflexivity].
        destruct (fs_clean_step1 _ _ _ _ _ _ I PO H) as (y & ->). reflexivity.
      + apply IH. cbn [fs_prev_ok]. exists q1. split; [reflexivity|]. split; [|reflexivity].
        pose proof (fi_21 I) as Z. destruct q2; [exact Logic.I | exact Z].
    - intros q1 g1 q2 b g2 r I L I' IH prev PO. cbn [clean_from].
      apply andb_true_iff. split.
      + destruct (fs_hit2 q1 g1 q2 b g2) eqn:H; [|reflexivity].
        destruct (fs_clean_step2 _ _ _ _ _ _ I PO H) as (y & ->). reflexivity.
      + apply IH. cbn [fs_prev_ok]. exists q2. split; [reflexivity|]. split; [|reflexivity].
        pose proof (fi_12 I) as Z. destruct q1; [exact Logic.I | exact Z].
    - intros q1 a g1 q2 g2 r I I' IH prev PO. cbn [clean_from].
      apply IH. cbn [fs_prev_ok]. exists q1, q2. split; reflexivity.
  Qed.

  Lemma fs_scan_clean : clean_from None (coinc_scan ROps fs_tau s1 s2) = true.
  Proof.
    unfold coinc_scan. apply fs_clean_gen.
    - exact fs_inv_init.
    - apply le_n.
    - split; reflexivity.
  Qed.

  (* ---------------------------------------------------------------- *)
  (* values: look-ahead form of the look-back write                     *)

  Definition fs_next_hit (evs : list (@sev R)) : bool :=
    match evs with
    | Adv1 _ true :: _ => true
    | Adv2 _ true :: _ => true
    | _ => false
    end.

  Fixpoint fs_entries (evs : list (@sev R)) : list (R * R * R) :=
    match evs with
    | [] => []
    | Adv1 t h :: r =>
        (t, if h || fs_next_hit r then n1 ROps else n0 ROps, n1 ROps) :: fs_entries r
    | Adv2 t h :: r =>
        (t, if h || fs_next_hit r then n1 ROps else n0 ROps, n1 ROps) :: fs_entries r
    | Both t :: r => (t, n2 ROps, n2 ROps) :: fs_entries r
    end.

  Lemma fs_clean_both_next t r :
    clean_from (Some (Both t)) r = true -> fs_next_hit r = false.
  Proof.
    destruct r as [|[u [|]|u [|]|u] r]; cbn; intros H; try reflexivity; discriminate.
  Qed.

  Lemma fs_mark_la : forall evs prev acc, clean_from prev evs = true ->
    mark_events ROps (n1 ROps) (n1 ROps) (n2 ROps) evs acc
    = rev (if fs_next_hit evs then set_head_val (n1 ROps) acc else acc) ++ fs_entries evs.
  Proof.
    induction evs as [|e r IH]; intros prev acc C.
    - cbn. rewrite app_nil_r. reflexivity.
    - cbn [clean_from] in C. apply andb_true_iff in C as [_ C].
      destruct e as [t h|t h|t]; cbn [mark_events fs_entries].
      + destruct h.
        * rewrite (IH _ _ C). cbn [fs_next_hit orb].
          destruct (fs_next_hit r); cbn [set_head_val rev]; rewrite <- app_assoc; reflexivity.
        * rewrite (IH _ _ C). cbn [fs_next_hit orb].
          destruct (fs_next_hit r); cbn [set_head_val rev]; rewrite <- app_assoc; reflexivity.
      + destruct h.
        * rewrite (IH _ _ C). cbn [fs_next_hit orb].
          destruct (fs_next_hit r); cbn [set_head_val rev]; rewrite <- app_assoc; reflexivity.
        * rewrite (IH _ _ C). cbn [fs_next_hit orb].
          destruct (fs_next_hit r); cbn [set_head_val rev]; rewrite <- app_assoc; reflexivity.
      + rewrite (IH _ _ C). rewrite (fs_clean_both_next _ _ C). cbn [fs_next_hit rev].
        rewrite <- app_assoc. reflexivity.
  Qed.

  (* ---------------------------------------------------------------- *)
  (* the hit flags against the neighbour tests of section 3             *)

  Lemma fs_all_p p f a : ssorted (rev p ++ f) -> fs_hd_lt p a -> forall y, In y p -> y < a.
  Proof.
    destruct p as [|y0 p]; intros S L y Hy; [destruct Hy|]. cbn in L.
    destruct Hy as [<-|Hy]; [exact L|]. pose proof (fs_zip_p _ _ _ _ S Hy). lra.
  Qed.
  Lemma fs_all_f p f a : ssorted (rev p ++ f) -> fs_lt_hd a f -> forall b, In b f -> a < b.
  Proof.
    destruct f as [|b0 f]; intros S L b Hb; [destruct Hb|]. cbn in L.
    destruct Hb as [<-|Hb]; [exact L|]. pose proof (fs_zip_f _ _ _ _ S Hb). lra.
  Qed.

  Lemma fs_inv_hd21 p1 a f1' p2 f2 : fs_inv p1 (a :: f1') p2 f2 -> fs_hd_lt p2 a.
  Proof. intros I. pose proof (fi_21 I) as Z. destruct p2; [exact Logic.I | exact Z]. Qed.
  Lemma fs_inv_hd12 p1 f1 p2 b f2' : fs_inv p1 f1 p2 (b :: f2') -> fs_hd_lt p1 b.
  Proof. intros I. pose proof (fi_12 I) as Z. destruct p1; [exact Logic.I | exact Z]. Qed.
  Arguments fs_inv_hd21 {_ _ _ _ _} _.
  Arguments fs_inv_hd12 {_ _ _ _ _} _.

  Lemma fs_hit1_after1 a p1 a' f1'' p2 f2 :
    fs_inv (a :: p1) (a' :: f1'') p2 f2 -> fs_hd_lt p2 a ->
    fs_hit1 (a :: p1) a' f1'' p2 f2 = false.
  Proof.
    intros I L. destruct (fs_hit1 (a :: p1) a' f1'' p2 f2) eqn:H; [exfalso|reflexivity].
    destruct (fs_hit1_true I H) as (y & p2' & -> & Ly & _ & B1 & _). cbn in L.
    unfold fs_gP in B1; cbn in B1.
    assert (a < a')
      by (eapply fs_zip_lt; [exact (fs_inv_S1 I) | left; reflexivity | left; reflexivity]).
    lra.
  Qed.
  Lemma fs_hit2_after2 b p1 f1 p2 b' f2'' :
    fs_inv p1 f1 (b :: p2) (b' :: f2'') -> fs_hd_lt p1 b ->
    fs_hit2 p1 f1 (b :: p2) b' f2'' = false.
  Proof.
    intros I L. destruct (fs_hit2 p1 f1 (b :: p2) b' f2'') eqn:H; [exfalso|reflexivity].
    destruct (fs_hit2_true I H) as (x & p1' & -> & Lx & _ & _ & B2). cbn in L.
    unfold fs_gP in B2; cbn in B2.
    assert (b < b')
      by (eapply fs_zip_lt; [exact (fs_inv_S2 I) | left; reflexivity | left; reflexivity]).
    lra.
  Qed.

  (* whether the next event is a hit, from the state *)
  Definition fs_nh (p1 f1 p2 f2 : list R) : bool :=
    match f1, f2 with
    | [], [] => false
    | a :: f1', [] => fs_hit1 p1 a f1' p2 []
    | [], b :: f2' => fs_hit2 p1 [] p2 b f2'
    | a :: f1', b :: f2' =>
        if Rltb a b then fs_hit1 p1 a f1' p2 f2
        else if Rltb b a then fs_hit2 p1 f1 p2 b f2' else false
    end.

  Lemma fs_nh_adv1 p1 a f1' p2 f2 :
    fs_lt_hd a f2 -> fs_nh p1 (a :: f1') p2 f2 = fs_hit1 p1 a f1' p2 f2.
  Proof.
    intros L. destruct f2 as [|b f2']; cbn [fs_nh]; [reflexivity|]. cbn in L.
    destruct (Rltb_spec a b); [reflexivity | lra].
  Qed.
  Lemma fs_nh_adv2 p1 f1 p2 b f2' :
    fs_lt_hd b f1 -> fs_nh p1 f1 p2 (b :: f2') = fs_hit2 p1 f1 p2 b f2'.
  Proof.
    intros L. destruct f1 as [|a f1']; cbn [fs_nh]; [reflexivity|]. cbn in L.
    destruct (Rltb_spec a b); [lra|]. destruct (Rltb_spec b a); [reflexivity | lra].
  Qed.
  Lemma fs_nh_both p1 a f1' p2 f2' : fs_nh p1 (a :: f1') p2 (a :: f2') = false.
  Proof. cbn [fs_nh]. destruct (Rltb_spec a a); [lra | reflexivity]. Qed.

  Lemma fs_hit1_nearP p1 a f1' p2 f2 :
    fs_hit1 p1 a f1' p2 f2 = fs_nearP lim m (mkCtx (hd_error p1) a (hd_error f1')) p2 f2.
  Proof.
    unfold fs_hit1, fs_nearP. destruct p2 as [|y p2']; [reflexivity|].
    cbn [ctx_of]. unfold fs_tau. rewrite fs_get_tau. reflexivity.
  Qed.
  Lemma fs_hit2_nearP p1 f1 p2 b f2' :
    fs_inv p1 f1 p2 (b :: f2') ->
    fs_hit2 p1 f1 p2 b f2' = fs_nearP lim m (mkCtx (hd_error p2) b (hd_error f2')) p1 f1.
  Proof.
    intros I. unfold fs_hit2, fs_nearP. destruct p1 as [|x p1']; [reflexivity|].
    pose proof (fi_12 I) as L. cbn in L.
    cbn [ctx_of]. unfold fs_tau. rewrite fs_get_tau.
    rewrite fs_tau_sym by (cbn; lra). reflexivity.
  Qed.

  Lemma fs_nh_nearN1 p1 a f1' p2 f2 :
    fs_inv (a :: p1) f1' p2 f2 -> fs_hd_lt p2 a -> fs_lt_hd a f2 ->
    fs_nh (a :: p1) f1' p2 f2 = fs_nearN lim m (mkCtx (hd_error p1) a (hd_error f1')) p2 f2.
  Proof.
    intros I Lp Lf. destruct f2 as [|b f2']; destruct f1' as [|a' f1'']; cbn [fs_nh fs_nearN].
    - reflexivity.
    - apply fs_hit1_after1; assumption.
    - unfold fs_hit2. cbn [ctx_of]. unfold fs_tau. rewrite fs_get_tau. reflexivity.
    - cbn in Lf.
      assert (La : a < a')
        by (eapply fs_zip_lt; [exact (fs_inv_S1 I) | left; reflexivity | left; reflexivity]).
      match goal with |- _ = Rltb _ (tau_spec _ _ _ ?c ?d) =>
        destruct (fs_tau_lt_bound lim m c d) as [B _]; [cbn; exact Lf|] end.
      unfold fs_gF in B; cbn in B.
      destruct (Rltb_spec a' b) as [L|L].
      + rewrite fs_hit1_after1 by assumption. symmetry. apply Rltb_false. cbn [c_cur hd_error]. lra.
      + destruct (Rltb_spec b a') as [G|G].
        * unfold fs_hit2. cbn [ctx_of]. unfold fs_tau. rewrite fs_get_tau. reflexivity.
        * symmetry. apply Rltb_false. cbn [c_cur hd_error]. lra.
  Qed.

  Lemma fs_nh_nearN2 p1 f1 p2 b f2' :
    fs_inv p1 f1 (b :: p2) f2' -> fs_hd_lt p1 b -> fs_lt_hd b f1 ->
    fs_nh p1 f1 (b :: p2) f2' = fs_nearN lim m (mkCtx (hd_error p2) b (hd_error f2')) p1 f1.
  Proof.
    intros I Lp Lf. destruct f1 as [|a f1']; destruct f2' as [|b' f2'']; cbn [fs_nh fs_nearN].
    - reflexivity.
    - apply fs_hit2_after2; assumption.
    - cbn in Lf. unfold fs_hit1. cbn [ctx_of]. unfold fs_tau. rewrite fs_get_tau.
      rewrite fs_tau_sym by (cbn; lra). reflexivity.
    - cbn in Lf.
      assert (Lb : b < b')
        by (eapply fs_zip_lt; [exact (fs_inv_S2 I) | left; reflexivity | left; reflexivity]).
      match goal with |- _ = Rltb _ (tau_spec _ _ _ ?c ?d) =>
        destruct (fs_tau_lt_bound lim m c d) as [B _]; [cbn; exact Lf|] end.
      unfold fs_gF in B; cbn in B.
      destruct (Rltb_spec a b') as [L|L].
      + unfold fs_hit1. cbn [ctx_of]. unfold fs_tau. rewrite fs_get_tau.
        rewrite fs_tau_sym by (cbn; lra). reflexivity.
      + destruct (Rltb_spec b' a) as [G|G].
        * rewrite fs_hit2_after2 by assumption. symmetry. apply Rltb_false. cbn [c_cur hd_error]. lra.
        * symmetry. apply Rltb_false. cbn [c_cur hd_error]. lra.
  Qed.

  Lemma fs_val1 p1 a f1' p2 f2 :
    fs_inv p1 (a :: f1') p2 f2 -> fs_lt_hd a f2 ->
    fs_hit1 p1 a f1' p2 f2 || fs_nh (a :: p1) f1' p2 f2
    = has_partner ROps lim m (mkCtx (hd_error p1) a (hd_error f1')) (contexts s2).
  Proof.
    intros I L. pose proof (fs_inv_adv1 I L) as I'. pose proof (fs_inv_hd21 I) as Lp.
    rewrite (fs_has_partner lim m _ s2 p2 f2 S2 (fi_2 I)).
    - rewrite fs_hit1_nearP, fs_nh_nearN1 by assumption. reflexivity.
    - cbn [c_cur]. apply (fs_all_p p2 f2); [exact (fs_inv_S2 I) | exact Lp].
    - cbn [c_cur]. apply (fs_all_f p2 f2); [exact (fs_inv_S2 I) | exact L].
  Qed.

  Lemma fs_val2 p1 f1 p2 b f2' :
    fs_inv p1 f1 p2 (b :: f2') -> fs_lt_hd b f1 ->
    fs_hit2 p1 f1 p2 b f2' || fs_nh p1 f1 (b :: p2) f2'
    = has_partner ROps lim m (mkCtx (hd_error p2) b (hd_error f2')) (contexts s1).
  Proof.
    intros I L. pose proof (fs_inv_adv2 I L) as I'. pose proof (fs_inv_hd12 I) as Lp.
    rewrite (fs_has_partner lim m _ s1 p1 f1 S1 (fi_1 I)).
    - rewrite (fs_hit2_nearP _ _ _ _ _ I), fs_nh_nearN2 by assumption. reflexivity.
    - cbn [c_cur]. apply (fs_all_p p1 f1); [exact (fs_inv_S1 I) | exact Lp].
    - cbn [c_cur]. apply (fs_all_f p1 f1); [exact (fs_inv_S1 I) | exact L].
  Qed.

  (* ---------------------------------------------------------------- *)
  (* entries of the scan against the per-time specification             *)

  Definition fs_ev_t (e : @sev R) : R :=
    match e with Adv1 t _ => t | Adv2 t _ => t | Both t => t end.

  Definition fs_v (c : @ctx R) (others : list (@ctx R)) : R :=
    if has_partner ROps lim m c others then n1 ROps else n0 ROps.
  Definition fs_G (t : R) : R * R * R :=
    match find (fun c => neqb ROps (c_cur c) t) (contexts s1),
          find (fun c => neqb ROps (c_cur c) t) (contexts s2) with
    | Some _, Some _ => (t, n2 ROps, n2 ROps)
    | Some c, None => (t, fs_v c (contexts s2), n1 ROps)
    | None, Some c => (t, fs_v c (contexts s1), n1 ROps)
    | None, None => (t, n0 ROps, n1 ROps)
    end.

  Lemma fs_find1 a p1 f1' p2 f2 : fs_inv (a :: p1) f1' p2 f2 ->
    find (fun c => neqb ROps (c_cur c) a) (contexts s1)
    = Some (mkCtx (hd_error p1) a (hd_error f1')).
  Proof.
    intros I. pose proof (fs_inv_S1 I) as Z. rewrite <- (fi_1 I). apply fs_find_ctx. exact Z.
  Qed.
  Lemma fs_find2 b p1 f1 p2 f2' : fs_inv p1 f1 (b :: p2) f2' ->
    find (fun c => neqb ROps (c_cur c) b) (contexts s2)
    = Some (mkCtx (hd_error p2) b (hd_error f2')).
  Proof.
    intros I. pose proof (fs_inv_S2 I) as Z. rewrite <- (fi_2 I). apply fs_find_ctx. exact Z.
  Qed.
  Lemma fs_notin2 p1 a f1' p2 f2 : fs_inv p1 (a :: f1') p2 f2 -> fs_lt_hd a f2 -> ~ In a s2.
  Proof.
    intros I L H. pose proof (fs_inv_S2 I) as Z. rewrite <- (fi_2 I) in H.
    apply in_app_or in H. destruct H as [H|H].
    - rewrite <- in_rev in H. pose proof (fs_all_p p2 f2 a Z (fs_inv_hd21 I) a H). lra.
    - pose proof (fs_all_f p2 f2 a Z L a H). lra.
  Qed.
  Lemma fs_notin1 p1 f1 p2 b f2' : fs_inv p1 f1 p2 (b :: f2') -> fs_lt_hd b f1 -> ~ In b s1.
  Proof.
    intros I L H. pose proof (fs_inv_S1 I) as Z. rewrite <- (fi_1 I) in H.
    apply in_app_or in H. destruct H as [H|H].
    - rewrite <- in_rev in H. pose proof (fs_all_p p1 f1 b Z (fs_inv_hd12 I) b H). lra.
    - pose proof (fs_all_f p1 f1 b Z L b H). lra.
  Qed.

  Lemma fs_values_gen k p1 f1 p2 f2 :
    fs_inv p1 f1 p2 f2 -> (length f1 + length f2 <= k)%nat ->
    fs_next_hit (coinc_events ROps fs_tau k p1 f1 p2 f2) = fs_nh p1 f1 p2 f2 /\ fs_entries (coinc_events ROps fs_tau k p1 f1 p2 f2)
    = map fs_G (map fs_ev_t (coinc_events ROps fs_tau k p1 f1 p2 f2)).
  Proof.
    apply (fs_scan_ind (fun p1 f1 p2 f2 evs =>
      fs_next_hit evs = fs_nh p1 f1 p2 f2 /\ fs_entries evs = map fs_G (map fs_ev_t evs))).
    - intros; split; reflexivity.
    - intros q1 a g1 q2 g2 r I L I' [IH1 IH2]. split.
      + rewrite fs_nh_adv1 by exact L. cbn [fs_next_hit].
        destruct (fs_hit1 q1 a g1 q2 g2); reflexivity.
      + cbn [fs_entries map fs_ev_t]. rewrite IH1, IH2. f_equal.
        unfold fs_G. rewrite (fs_find1 _ _ _ _ _ I').
        unfold contexts at 1. rewrite (fs_find_none a s2 None (fs_notin2 _ _ _ _ _ I L)).
        unfold fs_v. rewrite <- (fs_val1 _ _ _ _ _ I L). reflexivity.
    - intros q1 g1 q2 b g2 r I L I' [IH1 IH2]. split.
      + rewrite fs_nh_adv2 by exact L. cbn [fs_next_hit].
        destruct (fs_hit2 q1 g1 q2 b g2); reflexivity.
      + cbn [fs_entries map fs_ev_t]. rewrite IH1, IH2. f_equal.
        unfold fs_G. rewrite (fs_find2 _ _ _ _ _ I').
        unfold contexts at 1. rewrite (fs_find_none b s1 None (fs_notin1 _ _ _ _ _ I L)).
        unfold fs_v. rewrite <- (fs_val2 _ _ _ _ _ I L). reflexivity.
    - intros q1 a g1 q2 g2 r I I' [IH1 IH2]. split.
      + rewrite fs_nh_both. reflexivity.
      + cbn [fs_entries map fs_ev_t]. rewrite IH2. f_equal.
        unfold fs_G. rewrite (fs_find1 _ _ _ _ _ I'), (fs_find2 _ _ _ _ _ I'). reflexivity.
  Qed.

  Lemma fs_times_gen k p1 f1 p2 f2 :
    fs_inv p1 f1 p2 f2 -> (length f1 + length f2 <= k)%nat ->
    (forall t, In t (map fs_ev_t (coinc_events ROps fs_tau k p1 f1 p2 f2)) <-> In t f1 \/ In t f2)
    /\ ssorted (map fs_ev_t (coinc_events ROps fs_tau k p1 f1 p2 f2)).
  Proof.
    apply (fs_scan_ind (fun p1 f1 p2 f2 evs =>
      (forall t, In t (map fs_ev_t evs) <-> In t f1 \/ In t f2) /\ ssorted (map fs_ev_t evs))).
    - intros; split; [intros t; cbn; tauto | apply ssorted_nil].
    - intros q1 a g1 q2 g2 r I L I' [IH1 IH2]. split.
      + intros t. cbn [map fs_ev_t In]. rewrite IH1. tauto.
      + cbn [map fs_ev_t]. apply ssorted_cons; [exact IH2|]. apply Forall_forall.
        intros t Ht. apply IH1 in Ht. destruct Ht as [Ht|Ht].
        * eapply fs_zip_f; [exact (fs_inv_S1 I) | exact Ht].
        * eapply (fs_all_f q2 g2); [exact (fs_inv_S2 I) | exact L | exact Ht].
    - intros q1 g1 q2 b g2 r I L I' [IH1 IH2]. split.
      + intros t. cbn [map fs_ev_t In]. rewrite IH1. tauto.
      + cbn [map fs_ev_t]. apply ssorted_cons; [exact IH2|]. apply Forall_forall.
        intros t Ht. apply IH1 in Ht. destruct Ht as [Ht|Ht].
        * eapply (fs_all_f q1 g1); [exact (fs_inv_S1 I) | exact L | exact Ht].
        * eapply fs_zip_f; [exact (fs_inv_S2 I) | exact Ht].
    - intros q1 a g1 q2 g2 r I I' [IH1 IH2]. split.
      + intros t. cbn [map fs_ev_t In]. rewrite IH1. tauto.
      + cbn [map fs_ev_t]. apply ssorted_cons; [exact IH2|]. apply Forall_forall.
        intros t Ht. apply IH1 in Ht. destruct Ht as [Ht|Ht].
        * eapply fs_zip_f; [exact (fs_inv_S1 I) | exact Ht].
        * eapply fs_zip_f; [exact (fs_inv_S2 I) | exact Ht].
  Qed.

  (* ---------------------------------------------------------------- *)
  (* per-train projections of the marked events                         *)

  Fixpoint fs_proj1 (evs : list (@sev R)) : list R :=
    match evs with
    | [] => []
    | Adv1 _ h :: r => (if h || fs_next_hit r then n1 ROps else n0 ROps) :: fs_proj1 r
    | Adv2 _ _ :: r => fs_proj1 r
    | Both _ :: r => n1 ROps :: fs_proj1 r
    end.
  Fixpoint fs_proj2 (evs : list (@sev R)) : list R :=
    match evs with
    | [] => []
    | Adv1 _ _ :: r => fs_proj2 r
    | Adv2 _ h :: r => (if h || fs_next_hit r then n1 ROps else n0 ROps) :: fs_proj2 r
    | Both _ :: r => n1 ROps :: fs_proj2 r
    end.

  Lemma fs_proj_gen k p1 f1 p2 f2 :
    fs_inv p1 f1 p2 f2 -> (length f1 + length f2 <= k)%nat ->
    fs_next_hit (coinc_events ROps fs_tau k p1 f1 p2 f2) = fs_nh p1 f1 p2 f2 /\
    fs_proj1 (coinc_events ROps fs_tau k p1 f1 p2 f2)
      = map (fs_sv lim m s2) (contexts_from (hd_error p1) f1) /\
    fs_proj2 (coinc_events ROps fs_tau k p1 f1 p2 f2)
      = map (fs_sv lim m s1) (contexts_from (hd_error p2) f2).
  Proof.
    apply (fs_scan_ind (fun p1 f1 p2 f2 evs =>
      fs_next_hit evs = fs_nh p1 f1 p2 f2 /\
      fs_proj1 evs = map (fs_sv lim m s2) (contexts_from (hd_error p1) f1) /\
      fs_proj2 evs = map (fs_sv lim m s1) (contexts_from (hd_error p2) f2))).
    - intros; repeat split; reflexivity.
    - intros q1 a g1 q2 g2 r I L I' (IH1 & IH2 & IH3). split; [|split].
      + rewrite fs_nh_adv1 by exact L. cbn [fs_next_hit].
        destruct (fs_hit1 q1 a g1 q2 g2); reflexivity.
      + cbn [fs_proj1 contexts_from map]. rewrite IH1, IH2. f_equal.
        unfold fs_sv. rewrite <- (fs_val1 _ _ _ _ _ I L).
        rewrite fs_is_shared_false by (cbn [c_cur]; exact (fs_notin2 _ _ _ _ _ I L)).
        rewrite orb_false_r. reflexivity.
      + cbn [fs_proj2]. exact IH3.
    - intros q1 g1 q2 b g2 r I L I' (IH1 & IH2 & IH3). split; [|split].
      + rewrite fs_nh_adv2 by exact L. cbn [fs_next_hit].
        destruct (fs_hit2 q1 g1 q2 b g2); reflexivity.
      + cbn [fs_proj1]. exact IH2.
      + cbn [fs_proj2 contexts_from map]. rewrite IH1, IH3. f_equal.
        unfold fs_sv. rewrite <- (fs_val2 _ _ _ _ _ I L).
        rewrite fs_is_shared_false by (cbn [c_cur]; exact (fs_notin1 _ _ _ _ _ I L)).
        rewrite orb_false_r. reflexivity.
    - intros q1 a g1 q2 g2 r I I' (IH1 & IH2 & IH3). split; [|split].
      + rewrite fs_nh_both. reflexivity.
      + cbn [fs_proj1 contexts_from map]. rewrite IH2. f_equal.
        unfold fs_sv. rewrite fs_is_shared_true, orb_true_r; [reflexivity|].
        cbn [c_cur]. rewrite <- (fi_2 I). apply in_or_app. right. left. reflexivity.
      + cbn [fs_proj2 contexts_from map]. rewrite IH3. f_equal.
        unfold fs_sv. rewrite fs_is_shared_true, orb_true_r; [reflexivity|].
        cbn [c_cur]. rewrite <- (fi_1 I). apply in_or_app. right. left. reflexivity.
  Qed.

End Scan.

(* ------------------------------------------------------------------ *)
(* 5. sort_unique                                                      *)

Lemma fs_In_insert_u x : forall l t, In t (insert_u ROps x l) <-> t = x \/ In t l.
Proof.
  induction l as [|y r IH]; intros t; cbn [insert_u nltb neqb ROps].
  - cbn. intuition.
  - destruct (Rltb_spec x y) as [L|L].
    + cbn [In]. intuition.
    + destruct (Reqb_spec x y) as [E|E].
      * cbn [In]. subst. intuition.
      * cbn [In]. rewrite IH. intuition.
Qed.

Lemma fs_ssorted_insert_u x : forall l, ssorted l -> ssorted (insert_u ROps x l).
Proof.
  induction l as [|y r IH]; intros S; cbn [insert_u nltb neqb ROps].
  - apply ssorted_cons; [apply ssorted_nil | constructor].
  - destruct (Rltb_spec x y) as [L|L].
    + apply ssorted_cons; [exact S|]. apply Forall_forall. intros t [<-|Ht]; [exact L|].
      pose proof (fs_ssorted_In _ _ _ S Ht). lra.
    + destruct (Reqb_spec x y) as [E|E]; [exact S|].
      apply ssorted_cons_inv in S as [S F].
      apply ssorted_cons; [apply IH; exact S|]. apply Forall_forall. intros t Ht.
      apply fs_In_insert_u in Ht. destruct Ht as [->|Ht]; [lra|].
      rewrite Forall_forall in F. auto.
Qed.

Lemma fs_In_sort_unique : forall l t, In t (sort_unique ROps l) <-> In t l.
Proof.
  induction l as [|x l IH]; intros t; cbn [sort_unique fold_right].
  - tauto.
  - fold (sort_unique ROps l). rewrite fs_In_insert_u, IH. cbn [In]. intuition.
Qed.
Lemma fs_ssorted_sort_unique : forall l, ssorted (sort_unique ROps l).
Proof.
  induction l as [|x l IH]; cbn [sort_unique fold_right].
  - apply ssorted_nil.
  - apply fs_ssorted_insert_u. exact IH.
Qed.

Lemma fs_ssorted_ext : forall l1 l2, ssorted l1 -> ssorted l2 ->
  (forall t, In t l1 <-> In t l2) -> l1 = l2.
Proof.
  induction l1 as [|x l1 IH]; intros [|y l2] A B H.
  - reflexivity.
  - exfalso. apply (proj2 (H y)). left; reflexivity.
  - exfalso. apply (proj1 (H x)). left; reflexivity.
  - assert (E : x = y).
    { destruct (proj1 (H x) (or_introl eq_refl)) as [E|E]; [auto|].
      destruct (proj2 (H y) (or_introl eq_refl)) as [E'|E']; [auto|].
      pose proof (fs_ssorted_In _ _ _ A E'). pose proof (fs_ssorted_In _ _ _ B E). lra. }
    subst y. f_equal. apply IH.
    + apply ssorted_cons_inv in A as [A _]. exact A.
    + apply ssorted_cons_inv in B as [B _]. exact B.
    + intros t. split; intros Ht.
      * destruct (proj1 (H t) (or_intror Ht)) as [E|E]; [|exact E].
        pose proof (fs_ssorted_In _ _ _ A Ht). lra.
      * destruct (proj2 (H t) (or_intror Ht)) as [E|E]; [|exact E].
        pose proof (fs_ssorted_In _ _ _ B Ht). lra.
Qed.

(* ------------------------------------------------------------------ *)
(* 6. main theorems on the merged scan                                 *)

Lemma fs_scan_times lim m s1 s2 : ssorted s1 -> ssorted s2 ->
  map fs_ev_t (coinc_scan ROps (fs_tau lim m) s1 s2) = sort_unique ROps (s1 ++ s2).
Proof.
  intros S1 S2. unfold coinc_scan.
  destruct (fs_times_gen lim m s1 s2 S1 S2 (length s1 + length s2) [] s1 [] s2
              (fs_inv_init s1 s2) (le_n _)) as [H1 H2].
  apply fs_ssorted_ext; [exact H2 | apply fs_ssorted_sort_unique |].
  intros t. rewrite H1, fs_In_sort_unique, in_app_iff. tauto.
Qed.

Theorem scan_clean : forall s1 s2 ts te mt m, valid ts te s1 -> valid ts te s2 ->
  clean_from None (coinc_scan ROps (tau_fn ROps (get_tau ROps) ts te mt m) s1 s2) = true.
Proof.
  intros s1 s2 ts te mt m (_ & S1 & _) (_ & S2 & _).
  exact (fs_scan_clean (true_max ROps ts te mt) m s1 s2 S1 S2).
Qed.

Theorem sync_profile_spec : forall s1 s2 ts te mt m, valid ts te s1 -> valid ts te s2 ->
  coincidence_profile_gen ROps (get_tau ROps) s1 s2 ts te mt m = sync_spec ROps s1 s2 ts te mt m.
Proof.
  intros s1 s2 ts te mt m (_ & S1 & _) (_ & S2 & _).
  unfold coincidence_profile_gen, sync_spec.
  change (tau_fn ROps (get_tau ROps) ts te mt m) with (fs_tau (lim_of ROps ts te mt) m).
  set (lim := lim_of ROps ts te mt).
  rewrite (fs_mark_la _ None [] (fs_scan_clean lim m s1 s2 S1 S2)).
  assert (E : (if fs_next_hit (coinc_scan ROps (fs_tau lim m) s1 s2)
               then set_head_val (n1 ROps) [] else []) = @nil (R * R * R))
    by (destruct (fs_next_hit _); reflexivity).
  rewrite E. cbn [rev app].
  destruct (fs_values_gen lim m s1 s2 S1 S2 (length s1 + length s2) [] s1 [] s2
              (fs_inv_init s1 s2) (le_n _)) as [_ V].
  fold (coinc_scan ROps (fs_tau lim m) s1 s2) in V. rewrite V.
  rewrite (fs_scan_times lim m s1 s2 S1 S2).
  reflexivity.
Qed.

(* ------------------------------------------------------------------ *)
(* 7. the per-spike scan                                               *)

Section Single.
  Variables (lim m : R) (s1 s2 : list R).
  Hypothesis S1 : ssorted s1.
  Hypothesis S2 : ssorted s2.
  Hypothesis Hlim : 0 < lim.

  Record fs_sinv (p1 f1 p2 f2 : list R) : Prop := mk_fs_sinv {
    si_1 : rev p1 ++ f1 = s1;
    si_2 : rev p2 ++ f2 = s2;
    si_3 : match p1 with
           | [] => p2 = []
           | xp :: _ => forall y0, In y0 (tl p2) -> y0 < xp
           end }.

  Lemma fs_absltb u v c d :
    nltb ROps (nabs ROps (nsub ROps u v)) (fs_tau lim m (Some c) (Some d))
    = Rltb (Rabs (u - v)) (tau_spec ROps lim m c d).
  Proof. unfold fs_tau. rewrite fs_get_tau. rops. reflexivity. Qed.

  Lemma fs_single_step p1 x f1' p2 f2 :
    fs_sinv p1 (x :: f1') p2 f2 ->
    exists q g,
      coinc_single_loop ROps (fs_tau lim m) p1 (x :: f1') p2 f2
      = fs_sv lim m s2 (mkCtx (hd_error p1) x (hd_error f1'))
        :: coinc_single_loop ROps (fs_tau lim m) (x :: p1) f1' q g
      /\ fs_sinv (x :: p1) f1' q g.
  Proof.
    intros I. destruct I as [E1 E2 I3].
    assert (Z1 : ssorted (rev (x :: p1) ++ f1')) by (rewrite fs_rev_cons_app, E1; exact S1).
    pose proof (fs_zip_wfc _ _ _ Z1) as Wc.
    cbn [coinc_single_loop].
    destruct (fs_skip x f2 p2) as (q2 & g2 & Sk & Ez & Lg & D). rewrite Sk.
    rewrite E2 in Ez.
    assert (Z2 : ssorted (rev q2 ++ g2)) by (rewrite Ez; exact S2).
    cbn [ctx_of].
    set (c := mkCtx (hd_error p1) x (hd_error f1')) in *.
    assert (E1' : rev (x :: p1) ++ f1' = s1) by (rewrite fs_rev_cons_app; exact E1).
    assert (CA : fs_hd_lt q2 x \/ exists y q2', q2 = y :: q2' /\ x <= y).
    { destruct q2 as [|y q2']; [left; exact Logic.I|].
      destruct (Rlt_dec y x) as [L|L]; [left; exact L|].
      right. exists y, q2'. split; [reflexivity | lra]. }
    destruct CA as [LA | (y & q2' & -> & LB)].
    - (* everything consumed in train 2 is below x *)
      pose proof (fs_all_p q2 g2 x Z2 LA) as Hq.
      assert (StepT : match q2 with [] => true | y :: _ => nltb ROps y x end = true).
      { destruct q2 as [|y q2']; [reflexivity|]. cbn in LA. cbn [nltb ROps].
        apply Rltb_true. exact LA. }
      assert (HA : match q2 with
                   | [] => false
                   | y :: _ => nltb ROps (nabs ROps (nsub ROps x y))
                                 (fs_tau lim m (Some c) (ctx_of q2 g2))
                   end = fs_nearP lim m c q2 g2).
      { destruct q2 as [|y q2']; [reflexivity|]. cbn in LA. cbn [ctx_of fs_nearP].
        rewrite fs_absltb. rewrite Rabs_right by lra. reflexivity. }
      rewrite HA.
      destruct g2 as [|z g2'].
      + exists q2, []. split.
        * f_equal. unfold fs_sv.
          rewrite (fs_has_partner lim m c s2 q2 [] S2 Ez Hq) by (intros b []).
          rewrite fs_is_shared_false.
          -- cbn [fs_nearN]. rewrite !orb_false_r. reflexivity.
          -- rewrite <- Ez, app_nil_r, <- in_rev. intros H. specialize (Hq _ H). cbn in Hq. lra.
        * split; [exact E1' | exact Ez |].
          intros y0 H. apply Hq. destruct q2; [destruct H | right; exact H].
      + rewrite StepT. cbn in Lg. exists (z :: q2), g2'.
        assert (Wz : fs_wfc (mkCtx (hd_error q2) z (hd_error g2'))).
        { apply fs_zip_wfc. rewrite fs_rev_cons_app. exact Z2. }
        split.
        * f_equal. rewrite fs_absltb. unfold fs_sv.
          destruct (Req_dec z x) as [Ezx|Nzx].
          -- subst z. replace (x - x) with 0 by lra. rewrite Rabs_R0.
             replace (Rltb 0 _) with true
               by (symmetry; apply Rltb_true; apply fs_tau_pos; assumption).
             rewrite orb_true_r. rewrite fs_is_shared_true, orb_true_r; [reflexivity|].
             rewrite <- Ez. apply in_or_app. right. left. reflexivity.
          -- assert (Lz : x < z) by lra.
             assert (Hg : forall b, In b (z :: g2') -> x < b).
             { apply (fs_all_f q2 (z :: g2')); [exact Z2 | exact Lz]. }
             rewrite (fs_has_partner lim m c s2 q2 (z :: g2') S2 Ez Hq Hg).
             rewrite fs_is_shared_false.
             ++ rewrite orb_false_r. cbn [fs_nearN]. rewrite Rabs_right by lra. reflexivity.
             ++ rewrite <- Ez. intros H. apply in_app_or in H. destruct H as [H|H].
                ** rewrite <- in_rev in H. specialize (Hq _ H). cbn in Hq. lra.
                ** specialize (Hg _ H). cbn in Hg. lra.
        * split; [exact E1' | rewrite fs_rev_cons_app; exact Ez |]. cbn [tl]. exact Hq.
    - (* the current spike of train 2 is at or beyond x: no skipping took place *)
      destruct D as [[Eq Eg]|(y' & q' & Eq & Ly)]; [|inversion Eq; subst; lra].
      subst p2 g2.
      destruct p1 as [|xp p1']; [discriminate|]. cbn [tl] in I3.
      assert (Lxp : xp < x) by (eapply fs_zip_p; [exact Z1 | left; reflexivity]).
      assert (StepF : match f2 with
                      | [] => false
                      | _ :: _ => nltb ROps y x
                      end = false).
      { destruct f2; [reflexivity|]. cbn [nltb ROps]. apply Rltb_false. exact LB. }
      rewrite StepF. exists (y :: q2'), f2.
      assert (Wy : fs_wfc (mkCtx (hd_error q2') y (hd_error f2))).
      { apply fs_zip_wfc. exact Z2. }
      split.
      + f_equal. cbn [ctx_of]. rewrite fs_absltb. unfold fs_sv.
        destruct (Req_dec y x) as [Eyx|Nyx].
        * subst y. replace (x - x) with 0 by lra. rewrite Rabs_R0.
          replace (Rltb 0 _) with true
            by (symmetry; apply Rltb_true; apply fs_tau_pos; assumption).
          rewrite fs_is_shared_true, orb_true_r; [reflexivity|].
          rewrite <- Ez. apply in_or_app. left. rewrite <- in_rev. left. reflexivity.
        * assert (Ly : x < y) by lra.
          assert (Ez' : rev q2' ++ y :: f2 = s2) by (rewrite <- fs_rev_cons_app; exact Ez).
          assert (Z2' : ssorted (rev q2' ++ y :: f2)) by (rewrite Ez'; exact S2).
          assert (Hq : forall y0, In y0 q2' -> y0 < x).
          { intros y0 H. specialize (I3 _ H). lra. }
          assert (Hg : forall b, In b (y :: f2) -> x < b).
          { apply (fs_all_f q2' (y :: f2)); [exact Z2' | exact Ly]. }
          rewrite (fs_has_partner lim m c s2 q2' (y :: f2) S2 Ez' Hq Hg).
          rewrite fs_is_shared_false.
          -- rewrite orb_false_r. cbn [fs_nearN].
             replace (Rabs (x - y)) with (y - x) by (rewrite Rabs_left1; lra).
             assert (NP : fs_nearP lim m c q2' (y :: f2) = false).
             { destruct q2' as [|y0 q2'']; [reflexivity|]. cbn [fs_nearP].
               apply Rltb_false.
               assert (L0 : y0 < xp) by (apply I3; left; reflexivity).
               match goal with |- tau_spec _ _ _ _ ?d <= _ =>
                 destruct (fs_tau_gt_bound lim m c d) as [B _]; [cbn; lra|] end.
               unfold fs_gP in B; cbn in B. subst c. cbn [c_cur hd_error] in *. lra. }
             rewrite NP. reflexivity.
          -- rewrite <- Ez'. intros H. apply in_app_or in H. destruct H as [H|H].
             ++ rewrite <- in_rev in H. specialize (Hq _ H). cbn in Hq. lra.
             ++ specialize (Hg _ H). cbn in Hg. lra.
      + split; [exact E1' | exact Ez |]. cbn [tl]. intros y0 H. specialize (I3 _ H). lra.
  Qed.

  Lemma fs_single_gen : forall f1 p1 p2 f2, fs_sinv p1 f1 p2 f2 ->
    coinc_single_loop ROps (fs_tau lim m) p1 f1 p2 f2
    = map (fs_sv lim m s2) (contexts_from (hd_error p1) f1).
  Proof.
    induction f1 as [|x f1' IH]; intros p1 p2 f2 I.
    - reflexivity.
    - destruct (fs_single_step _ _ _ _ _ I) as (q & g & E & I').
      rewrite E. cbn [contexts_from map]. f_equal. apply (IH (x :: p1) q g I').
  Qed.

End Single.

Theorem single_profile_spec : forall s1 s2 ts te mt m, valid ts te s1 -> valid ts te s2 ->
  coincidence_single_gen ROps (get_tau ROps) s1 s2 ts te mt m = single_spec ROps s1 s2 ts te mt m.
Proof.
  intros s1 s2 ts te mt m (Hts & S1 & _) (_ & S2 & _).
  unfold coincidence_single_gen, single_spec.
  change (tau_fn ROps (get_tau ROps) ts te mt m) with (fs_tau (lim_of ROps ts te mt) m).
  rewrite (fs_single_gen (lim_of ROps ts te mt) m s1 s2 S1 S2 (fs_lim_pos ts te mt Hts) s1 [] [] s2).
  - reflexivity.
  - split; reflexivity.
Qed.

(* ------------------------------------------------------------------ *)
(* 8. corollaries                                                      *)

Lemma fs_sumF_cons x l : sumF ROps (x :: l) = x + sumF ROps l.
Proof. reflexivity. Qed.

(* number of coincidences found by the scan: hits and shared times *)
Fixpoint fs_hb (evs : list (@sev R)) : R :=
  match evs with
  | [] => 0
  | Adv1 _ h :: r => (if h then 1 else 0) + fs_hb r
  | Adv2 _ h :: r => (if h then 1 else 0) + fs_hb r
  | Both _ :: r => 1 + fs_hb r
  end.
Fixpoint fs_mp (evs : list (@sev R)) : R :=
  match evs with
  | [] => 0
  | Adv1 _ _ :: r => 1 + fs_mp r
  | Adv2 _ _ :: r => 1 + fs_mp r
  | Both _ :: r => 2 + fs_mp r
  end.
Definition fs_hd1hit (evs : list (@sev R)) : R :=
  match evs with Adv1 _ true :: _ => 1 | _ => 0 end.
Definition fs_hd2hit (evs : list (@sev R)) : R :=
  match evs with Adv2 _ true :: _ => 1 | _ => 0 end.

Lemma fs_cnt : forall evs prev, clean_from prev evs = true ->
  sumF ROps (fs_proj1 evs) = fs_hb evs - fs_hd2hit evs /\
  sumF ROps (fs_proj2 evs) = fs_hb evs - fs_hd1hit evs /\
  sumF ROps (map (@e_y R) (fs_entries evs)) = 2 * fs_hb evs - fs_hd1hit evs - fs_hd2hit evs /\
  sumF ROps (map (@e_mp R) (fs_entries evs)) = fs_mp evs.
Proof.
  induction evs as [|e r IH]; intros prev C.
  - cbn. repeat split; lra.
  - cbn [clean_from] in C. apply andb_true_iff in C as [_ C].
    destruct (IH _ C) as (A1 & A2 & A3 & A4). clear IH.
    destruct e as [t [|]|t [|]|t]; destruct r as [|[u [|]|u [|]|u] r'];
      cbn [clean_from andb] in C; try discriminate C;
      cbn [fs_proj1 fs_proj2 fs_entries fs_hb fs_mp fs_hd1hit fs_hd2hit fs_next_hit
           orb map e_y e_mp fst snd] in *;
      rewrite ?fs_sumF_cons, ?R_n2 in *; rops; repeat split; lra.
Qed.

Lemma fs_clean_none_hd evs : clean_from None evs = true ->
  fs_hd1hit evs = 0 /\ fs_hd2hit evs = 0.
Proof.
  destruct evs as [|[u [|]|u [|]|u] r]; cbn; intros H; try discriminate H; split; reflexivity.
Qed.

Lemma fs_cv : forall evs c mp,
  coinc_value ROps evs c mp = (c + 2 * fs_hb evs, mp + fs_mp evs).
Proof.
  induction evs as [|[t [|]|t [|]|t] r IH]; intros c mp; cbn [coinc_value fs_hb fs_mp];
    [|rewrite IH ..]; f_equal; rops; lra.
Qed.

Lemma fs_interior ts te (entries : list (R * R * R)) :
  interior_entries (frame_profile ROps ts te entries) = entries.
Proof.
  destruct entries as [|e0 r]; [reflexivity|].
  unfold interior_entries, frame_profile. cbn [tl]. apply removelast_last.
Qed.

Theorem coinc_value_fusion : forall s1 s2 ts te mt m, valid ts te s1 -> valid ts te s2 ->
  coinc_value ROps (coinc_scan ROps (tau_fn ROps (get_tau ROps) ts te mt m) s1 s2) 0 0
  = (sumF ROps (map (@e_y R)
       (interior_entries (coincidence_profile_gen ROps (get_tau ROps) s1 s2 ts te mt m))),
     sumF ROps (map (@e_mp R)
       (interior_entries (coincidence_profile_gen ROps (get_tau ROps) s1 s2 ts te mt m)))).
Proof.
  intros s1 s2 ts te mt m V1 V2. pose proof (scan_clean s1 s2 ts te mt m V1 V2) as C.
  unfold coincidence_profile_gen. rewrite fs_interior.
  set (evs := coinc_scan ROps (tau_fn ROps (get_tau ROps) ts te mt m) s1 s2) in *.
  rewrite (fs_mark_la evs None [] C).
  assert (E : (if fs_next_hit evs then set_head_val (n1 ROps) [] else []) = @nil (R * R * R))
    by (destruct (fs_next_hit evs); reflexivity).
  rewrite E. cbn [rev app].
  destruct (fs_cnt evs None C) as (_ & _ & A3 & A4).
  destruct (fs_clean_none_hd evs C) as [H1 H2].
  rewrite fs_cv, A3, A4, H1, H2. f_equal; lra.
Qed.

Theorem sync_balanced : forall s1 s2 ts te mt m, valid ts te s1 -> valid ts te s2 ->
  sumF ROps (single_spec ROps s1 s2 ts te mt m) = sumF ROps (single_spec ROps s2 s1 ts te mt m).
Proof.
  intros s1 s2 ts te mt m V1 V2. pose proof (scan_clean s1 s2 ts te mt m V1 V2) as C.
  destruct V1 as (_ & S1 & _), V2 as (_ & S2 & _).
  set (lim := lim_of ROps ts te mt).
  change (sumF ROps (map (fs_sv lim m s2) (contexts s1))
          = sumF ROps (map (fs_sv lim m s1) (contexts s2))).
  change (tau_fn ROps (get_tau ROps) ts te mt m) with (fs_tau lim m) in C.
  destruct (fs_proj_gen lim m s1 s2 S1 S2 (length s1 + length s2) [] s1 [] s2
              (fs_inv_init s1 s2) (le_n _)) as (_ & P1 & P2).
  change (contexts_from (hd_error []) s1) with (contexts s1) in P1.
  change (contexts_from (hd_error []) s2) with (contexts s2) in P2.
  fold (coinc_scan ROps (fs_tau lim m) s1 s2) in P1, P2.
  rewrite <- P1, <- P2.
  destruct (fs_cnt _ None C) as (A1 & A2 & _).
  destruct (fs_clean_none_hd _ C) as [H1 H2].
  rewrite A1, A2, H1, H2. reflexivity.
Qed.

(* a spike has at most one partner *)
Lemma fs_ctx_cur_inj (s : list R) d d' :
  ssorted s -> In d (contexts s) -> In d' (contexts s) -> c_cur d = c_cur d' -> d = d'.
Proof.
  intros S H H' E.
  destruct (fs_ctx_zip s d H) as (p & f & Ez & D).
  destruct (fs_ctx_zip s d' H') as (p' & f' & Ez' & D').
  rewrite <- E in Ez', D'.
  assert (Z : p = p' /\ f = f').
  { apply (fs_zip_unique (c_cur d)); [rewrite Ez; exact S | rewrite Ez, Ez'; reflexivity]. }
  destruct Z as [<- <-]. etransitivity; [exact D | symmetry; exact D'].
Qed.

Lemma fs_no_two_partners lim m (s : list R) c d d' :
  ssorted s -> In d (contexts s) -> In d' (contexts s) -> c_cur d < c_cur d' ->
  coinc ROps lim m c d = true -> coinc ROps lim m c d' = true -> False.
Proof.
  intros S H H' L A B.
  apply fs_coinc_true in A as [NA A]. apply fs_coinc_true in B as [NB B].
  destruct (fs_NA_next s d (c_cur d') S H (fs_ctx_cur_in _ _ H') L) as (n & Hn & Ln).
  destruct (fs_NA_prev s d' (c_cur d) S H' (fs_ctx_cur_in _ _ H) L) as (q & Hq & Lq).
  destruct (Rlt_dec (c_cur c) (c_cur d)) as [L1|L1].
  - destruct (fs_tau_lt_bound lim m c d') as [_ B2]; [lra|].
    unfold fs_gP in B2. rewrite Hq in B2. rewrite Rabs_left1 in B by lra. lra.
  - assert (L1' : c_cur d < c_cur c) by lra.
    destruct (fs_tau_gt_bound lim m c d L1') as [_ A2].
    unfold fs_gF in A2. rewrite Hn in A2. rewrite Rabs_right in A by lra.
    destruct (Rlt_dec (c_cur c) (c_cur d')) as [L2|L2].
    + destruct (fs_tau_lt_bound lim m c d' L2) as [_ B2].
      unfold fs_gP in B2. rewrite Hq in B2. rewrite Rabs_left1 in B by lra. lra.
    + lra.
Qed.

Theorem one_to_one : forall s1 s2 ts te mt m c d d', valid ts te s1 -> valid ts te s2 ->
  In c (contexts s1) -> In d (contexts s2) -> In d' (contexts s2) ->
  coinc ROps (lim_of ROps ts te mt) m c d = true ->
  coinc ROps (lim_of ROps ts te mt) m c d' = true -> d = d'.
Proof.
  intros s1 s2 ts te mt m c d d' _ (_ & S2 & _) _ H H' A B.
  destruct (Rtotal_order (c_cur d) (c_cur d')) as [L|[E|L]].
  - exfalso. exact (fs_no_two_partners _ _ s2 c d d' S2 H H' L A B).
  - exact (fs_ctx_cur_inj s2 d d' S2 H H' E).
  - exfalso. exact (fs_no_two_partners _ _ s2 c d' d S2 H' H L B A).
Qed.

Print Assumptions scan_clean.
Print Assumptions sync_profile_spec.
Print Assumptions single_profile_spec.
Print Assumptions one_to_one.
Print Assumptions sync_balanced.
Print Assumptions coinc_value_fusion.
