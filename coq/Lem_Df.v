(* Lem_Df.v — discrete profiles (DiscreteFunc): add / integral / avrg / plottable
   of the code-shaped model against the event-list specifications of Spec.v. *)
From Coq Require Import List Bool Arith ZArith Reals Lra Lia Sorted Permutation.
Import ListNotations.
From PS Require Import Num RLemmas Valid ModelKernels ModelFuncs ModelAPI Spec SyncDefs.
Local Open Scope R_scope.

Definition wf_df (f : list (R*R*R)) : Prop :=
  (2 <= length f)%nat
  /\ ssorted (map (fun e => fst (fst e)) (interior_entries f))
  /\ Forall (fun e => fst (fst (hd (0,0,0) f)) <= fst (fst e) <= fst (fst (last f (0,0,0)))) f.

(* the definition admits events on the edge times and profiles without events *)
Example wf_df_ex1 : wf_df [(0,1,1);(0,1,1);(1/2,0,1);(1,2,2);(1,2,2)].
Proof.
  unfold wf_df, interior_entries; cbn [length tl removelast map hd last fst snd].
  split; [lia|]. split.
  - repeat (apply SSorted_cons || apply SSorted_nil || apply Forall_cons || apply Forall_nil); cbn [fst snd]; lra.
  - repeat (apply Forall_cons || apply Forall_nil); cbn [fst snd]; lra.
Qed.
Example wf_df_ex2 : wf_df [(0,1,1);(1,1,1)].
Proof.
  unfold wf_df, interior_entries; cbn [length tl removelast map hd last fst snd].
  split; [lia|]. split.
  - apply SSorted_nil.
  - repeat (apply Forall_cons || apply Forall_nil); cbn [fst snd]; lra.
Qed.

(* projections of an entry *)
Definition kx (e : R*R*R) : R := fst (fst e).
Definition ey (e : R*R*R) : R := snd (fst e).
Definition em (e : R*R*R) : R := snd e.

(* ------------------------------------------------------------------ *)
(* generic list facts                                                  *)

Lemma SS_impl {A} (R1 R2 : A -> A -> Prop) l :
  (forall a b, R1 a b -> R2 a b) -> StronglySorted R1 l -> StronglySorted R2 l.
Proof.
  intros HR H; induction H as [|a l H IH HF]; constructor; auto.
  eapply Forall_impl; [|exact HF]; auto.
Qed.

Lemma SS_app {A} (Rr : A -> A -> Prop) l1 l2 :
  StronglySorted Rr l1 -> StronglySorted Rr l2 ->
  (forall a b, In a l1 -> In b l2 -> Rr a b) -> StronglySorted Rr (l1 ++ l2).
Proof.
  induction l1 as [|a l1 IH]; cbn [app]; intros H1 H2 H; auto.
  inversion H1 as [|? ? S1 F1]; subst. constructor.
  - apply IH; auto. intros; apply H; cbn; auto.
  - apply Forall_app; split; auto. apply Forall_forall; intros b Hb; apply H; cbn; auto.
Qed.

Lemma SS_map_inv {A B} (g : A -> B) (Rr : B -> B -> Prop) l :
  StronglySorted Rr (map g l) -> StronglySorted (fun a b => Rr (g a) (g b)) l.
Proof.
  induction l as [|a l IH]; cbn [map]; intros H; [constructor|].
  inversion H as [|? ? S1 F1]; subst. constructor; auto.
  rewrite Forall_map in F1; exact F1.
Qed.

Lemma filter_all_false {A} (p : A -> bool) l :
  Forall (fun e => p e = false) l -> filter p l = [].
Proof. induction 1 as [|a l Ha HF IH]; cbn [filter]; auto. rewrite Ha; auto. Qed.

Lemma filter_all_true {A} (p : A -> bool) l :
  Forall (fun e => p e = true) l -> filter p l = l.
Proof. induction 1 as [|a l Ha HF IH]; cbn [filter]; auto. rewrite Ha, IH; auto. Qed.

Lemma filter_filter {A} (p q : A -> bool) l :
  filter p (filter q l) = filter (fun e => q e && p e) l.
Proof.
  induction l as [|a l IH]; cbn [filter]; auto.
  destruct (q a); cbn [andb filter]; [destruct (p a)|]; rewrite IH; auto.
Qed.

Lemma filter_map_comm {A B} (p : B -> bool) (g : A -> B) l :
  filter p (map g l) = map g (filter (fun e => p (g e)) l).
Proof.
  induction l as [|a l IH]; cbn [filter map]; auto.
  destruct (p (g a)); cbn [map]; rewrite IH; auto.
Qed.

Lemma filter_len_le {A} (p : A -> bool) l : (length (filter p l) <= length l)%nat.
Proof. induction l as [|a l IH]; cbn [filter length]; auto. destruct (p a); cbn [length]; lia. Qed.

(* a predicate that is downward closed along the list selects a prefix *)
Lemma prefix_filter {A} (p : A -> bool) l :
  StronglySorted (fun a b => p b = true -> p a = true) l ->
  firstn (length (filter p l)) l = filter p l
  /\ skipn (length (filter p l)) l = filter (fun e => negb (p e)) l.
Proof.
  induction 1 as [|a l HS IH HF]; [cbn; auto|].
  cbn [filter]. destruct (p a) eqn:Ea; cbn [negb length firstn skipn].
  - destruct IH as [I1 I2]. rewrite I1, I2; auto.
  - assert (HF' : Forall (fun e => p e = false) l).
    { eapply Forall_impl; [|exact HF]. cbn; intros b Hb. destruct (p b); auto.
      specialize (Hb eq_refl); congruence. }
    rewrite (filter_all_false p l HF'). cbn [length firstn skipn]. split; auto.
    f_equal. symmetry; apply filter_all_true.
    eapply Forall_impl; [|exact HF']. cbn; intros b Hb; rewrite Hb; auto.
Qed.

(* ------------------------------------------------------------------ *)
(* shape of a well-formed profile                                      *)

Lemma interior_shape (f0 fl : R*R*R) I : interior_entries (f0 :: I ++ [fl]) = I.
Proof. unfold interior_entries; cbn [tl]; apply removelast_last. Qed.

Lemma last_shape (f0 fl d : R*R*R) I : last (f0 :: I ++ [fl]) d = fl.
Proof. change (f0 :: I ++ [fl]) with ((f0 :: I) ++ [fl]); apply last_last. Qed.

Lemma list_shape (f : list (R*R*R)) :
  (2 <= length f)%nat -> exists f0 I fl, f = f0 :: I ++ [fl].
Proof.
  destruct f as [|f0 f']; cbn [length]; [lia|].
  destruct f' as [|f1 f'']; cbn [length]; [lia|]; intros _.
  exists f0, (removelast (f1 :: f'')), (last (f1 :: f'') (0,0,0)).
  f_equal. apply app_removelast_last. discriminate.
Qed.

Lemma wf_df_shape f : wf_df f ->
  exists f0 I fl, f = f0 :: I ++ [fl] /\ ssorted (map kx I) /\ kx f0 <= kx fl
                  /\ Forall (fun e => kx f0 <= kx e <= kx fl) I.
Proof.
  intros (HL & HS & HB). destruct (list_shape f HL) as (f0 & I & fl & ->).
  exists f0, I, fl. rewrite interior_shape in HS. rewrite last_shape in HB. cbn [hd] in HB.
  split; auto. split; [exact HS|].
  inversion HB as [|? ? H0 HB']; subst. apply Forall_app in HB' as [HI _].
  split; [unfold kx; lra | exact HI].
Qed.

Lemma wf_df_intro (f0 fl : R*R*R) I :
  ssorted (map kx I) -> kx f0 <= kx fl -> Forall (fun e => kx f0 <= kx e <= kx fl) I ->
  wf_df (f0 :: I ++ [fl]).
Proof.
  intros HS H0 HI. unfold wf_df. rewrite interior_shape, last_shape. cbn [hd].
  split; [cbn [length]; rewrite app_length; cbn [length]; lia|]. split; [exact HS|].
  constructor; [unfold kx in *; lra|]. apply Forall_app; split; [exact HI|].
  constructor; [unfold kx in *; lra | constructor].
Qed.

(* ------------------------------------------------------------------ *)
(* sort_unique                                                         *)

Lemma insert_u_in x l t : In t (insert_u ROps x l) <-> t = x \/ In t l.
Proof.
  induction l as [|y r IH]; cbn [insert_u In nltb neqb ROps].
  - intuition.
  - destruct (Rltb_spec x y) as [H|H]; [cbn [In]; intuition|].
    destruct (Reqb_spec x y) as [E|E]; [subst; cbn [In]; intuition|].
    cbn [In]. rewrite IH. intuition.
Qed.

Lemma insert_u_sorted x l : ssorted l -> ssorted (insert_u ROps x l).
Proof.
  induction l as [|y r IH]; cbn [insert_u nltb neqb ROps]; intros HS.
  - apply ssorted_cons; [apply ssorted_nil | constructor].
  - destruct (ssorted_cons_inv _ _ HS) as [HS' HF].
    destruct (Rltb_spec x y) as [H|H].
    + apply ssorted_cons; auto. constructor; auto.
      eapply Forall_impl; [|exact HF]; cbn; intros; lra.
    + destruct (Reqb_spec x y) as [E|E]; auto.
      apply ssorted_cons; auto. apply Forall_forall; intros t Ht.
      apply insert_u_in in Ht as [->|Ht]; [lra|].
      rewrite Forall_forall in HF; auto.
Qed.

Lemma sort_unique_in l t : In t (sort_unique ROps l) <-> In t l.
Proof.
  unfold sort_unique. induction l as [|a l IH]; cbn [fold_right In]; [tauto|].
  rewrite insert_u_in, IH. intuition.
Qed.

Lemma sort_unique_sorted l : ssorted (sort_unique ROps l).
Proof.
  unfold sort_unique. induction l as [|a l IH]; cbn [fold_right]; [apply ssorted_nil|].
  apply insert_u_sorted; auto.
Qed.

Lemma ssorted_ext l1 l2 :
  ssorted l1 -> ssorted l2 -> (forall t, In t l1 <-> In t l2) -> l1 = l2.
Proof.
  revert l2; induction l1 as [|a l1 IH]; intros [|b l2] S1 S2 H; auto.
  - exfalso. apply (H b); cbn; auto.
  - exfalso. apply (H a); cbn; auto.
  - destruct (ssorted_cons_inv _ _ S1) as [S1' F1].
    destruct (ssorted_cons_inv _ _ S2) as [S2' F2].
    rewrite Forall_forall in F1, F2.
    assert (E : a = b).
    { destruct (proj1 (H a) (or_introl eq_refl)) as [E|Ha]; auto.
      destruct (proj2 (H b) (or_introl eq_refl)) as [E|Hb]; auto.
      specialize (F1 _ Hb); specialize (F2 _ Ha); lra. }
    subst b. f_equal. apply IH; auto. intros t; split; intros Ht.
    + destruct (proj1 (H t) (or_intror Ht)) as [E|]; auto. specialize (F1 _ Ht); lra.
    + destruct (proj2 (H t) (or_intror Ht)) as [E|]; auto. specialize (F2 _ Ht); lra.
Qed.

Lemma ssorted_NoDup l : ssorted l -> NoDup l.
Proof.
  induction l as [|a l IH]; intros HS; constructor.
  - destruct (ssorted_cons_inv _ _ HS) as [_ HF]. rewrite Forall_forall in HF.
    intros Ha; specialize (HF _ Ha); lra.
  - apply IH. apply (ssorted_cons_inv _ _ HS).
Qed.

(* ------------------------------------------------------------------ *)
(* sum_at as a structural sum                                          *)

Fixpoint Sg (p : R*R*R -> R) (t : R) (l : list (R*R*R)) : R :=
  match l with
  | [] => 0
  | e :: r => if Reqb (kx e) t then p e + Sg p t r else Sg p t r
  end.

Lemma sum_at_acc t l acc :
  fold_left (fun acc e => if neqb ROps (fst (fst e)) t
                          then (nadd ROps (fst acc) (snd (fst e)), nadd ROps (snd acc) (snd e))
                          else acc) l acc
  = (fst acc + Sg ey t l, snd acc + Sg em t l).
Proof.
  revert acc; induction l as [|e r IH]; intros acc; cbn [fold_left Sg].
  - destruct acc; cbn [fst snd]; f_equal; lra.
  - rewrite IH. cbn [neqb nadd ROps]. unfold kx, ey, em.
    destruct (Reqb (fst (fst e)) t); cbn [fst snd]; f_equal; lra.
Qed.

Lemma sum_at_Sg t l : sum_at ROps t l = (Sg ey t l, Sg em t l).
Proof.
  unfold sum_at. rewrite sum_at_acc. cbn [n0 ROps fst snd]. f_equal; lra.
Qed.

Lemma Sg_app p t l1 l2 : Sg p t (l1 ++ l2) = Sg p t l1 + Sg p t l2.
Proof.
  induction l1 as [|e r IH]; cbn [app Sg]; [lra|].
  destruct (Reqb (kx e) t); rewrite IH; lra.
Qed.

Lemma Sg_notin p t l : ~ In t (map kx l) -> Sg p t l = 0.
Proof.
  induction l as [|e r IH]; cbn [map In Sg]; intros H; auto.
  destruct (Reqb_spec (kx e) t) as [E|E]; [exfalso; auto|]. apply IH; auto.
Qed.

Lemma Sg_perm p t l1 l2 : Permutation l1 l2 -> Sg p t l1 = Sg p t l2.
Proof.
  induction 1 as [|e l1 l2 HP IH|a b l|l1 l2 l3 H1 IH1 H2 IH2]; cbn [Sg]; auto.
  - rewrite IH; auto.
  - destruct (Reqb (kx a) t), (Reqb (kx b) t); lra.
  - congruence.
Qed.

(* [m] is the event list of the sum of the events [ev] *)
Definition good (ev m : list (R*R*R)) : Prop :=
  ssorted (map kx m)
  /\ (forall t, In t (map kx m) <-> In t (map kx ev))
  /\ Forall (fun e => ey e = Sg ey (kx e) ev /\ em e = Sg em (kx e) ev) m.

Definition add_spec_of (ev : list (R*R*R)) : list (R*R*R) :=
  map (fun t => let s := sum_at ROps t ev in (t, fst s, snd s))
      (sort_unique ROps (map (fun e => fst (fst e)) ev)).

Lemma good_spec ev m : good ev m -> m = add_spec_of ev.
Proof.
  intros (HS & HI & HF). unfold add_spec_of.
  change (fun e : R*R*R => fst (fst e)) with kx.
  assert (E : sort_unique ROps (map kx ev) = map kx m).
  { apply ssorted_ext; auto using sort_unique_sorted.
    intros t. rewrite sort_unique_in. symmetry; apply HI. }
  rewrite E, map_map. rewrite <- (map_id m) at 1.
  apply map_ext_in. intros e He. rewrite Forall_forall in HF.
  destruct (HF e He) as [Hy Hm]. rewrite sum_at_Sg. cbn [fst snd].
  rewrite <- Hy, <- Hm. destruct e as [[x y] mp]; reflexivity.
Qed.

Lemma good_perm ev ev' m : Permutation ev ev' -> good ev m -> good ev' m.
Proof.
  intros HP (HS & HI & HF). split; [exact HS|]. split.
  - intros t. rewrite HI. split; apply Permutation_in; [|symmetry]; apply Permutation_map; auto.
  - eapply Forall_impl; [|exact HF]. cbn. intros e [Hy Hm].
    rewrite <- (Sg_perm ey _ _ _ HP), <- (Sg_perm em _ _ _ HP). auto.
Qed.

Lemma Sg_self p l e : ssorted (map kx l) -> In e l -> Sg p (kx e) l = p e.
Proof.
  induction l as [|a r IH]; cbn [map In Sg]; intros HS He; [tauto|].
  destruct (ssorted_cons_inv _ _ HS) as [HS' HF]. rewrite Forall_forall in HF.
  destruct He as [->|He].
  - destruct (Reqb_spec (kx e) (kx e)) as [_|N]; [|congruence].
    rewrite Sg_notin; [lra|]. intros Hin. specialize (HF _ Hin); lra.
  - assert (Hlt : kx a < kx e) by (apply HF; apply in_map; auto).
    destruct (Reqb_spec (kx a) (kx e)) as [E|_]; [lra|]. apply IH; auto.
Qed.

Lemma good_self l : ssorted (map kx l) -> good l l.
Proof.
  intros HS. split; [exact HS|]. split; [tauto|].
  apply Forall_forall. intros e He. rewrite !Sg_self; auto.
Qed.

(* a group [hd] of events at the new smallest time [c] *)
Lemma good_cons ev m hd0 c y mp :
  good ev m -> Forall (fun t => c < t) (map kx ev) ->
  hd0 <> [] -> Forall (fun e => kx e = c) hd0 ->
  y = Sg ey c hd0 -> mp = Sg em c hd0 ->
  good (hd0 ++ ev) ((c, y, mp) :: m).
Proof.
  intros (HS & HI & HF) Hc Hne Hhd Hy Hm.
  rewrite Forall_forall in Hc.
  assert (Hnot : ~ In c (map kx ev)) by (intros Hin; specialize (Hc _ Hin); lra).
  split; [|split].
  - cbn [map]. apply ssorted_cons; auto. change (kx (c, y, mp)) with c.
    apply Forall_forall. intros t Ht. apply Hc. apply HI; auto.
  - intros t. cbn [map In]. change (kx (c, y, mp)) with c. rewrite map_app, in_app_iff, HI.
    split.
    + intros [<-|H]; auto. left. destruct hd0 as [|e0 r]; [congruence|].
      inversion Hhd; subst. cbn; auto.
    + intros [H|H]; auto. left. apply in_map_iff in H as (e & <- & He).
      rewrite Forall_forall in Hhd. symmetry; auto.
  - constructor.
    + change (kx (c, y, mp)) with c. change (ey (c, y, mp)) with y. change (em (c, y, mp)) with mp.
      rewrite !Sg_app, !(Sg_notin _ c ev Hnot). subst; split; lra.
    + apply Forall_forall. intros e He. rewrite Forall_forall in HF.
      destruct (HF e He) as [Ey Em].
      assert (Hlt : c < kx e) by (apply Hc; apply HI; apply in_map; auto).
      assert (Hn : ~ In (kx e) (map kx hd0)).
      { intros Hin. apply in_map_iff in Hin as (e' & E' & He').
        rewrite Forall_forall in Hhd. specialize (Hhd _ He'). lra. }
      rewrite !Sg_app, !(Sg_notin _ (kx e) hd0 Hn). split; lra.
Qed.

Lemma good_nil : good [] [].
Proof. split; [apply ssorted_nil|]. split; [tauto | constructor]. Qed.

Lemma entry_eta (e : R*R*R) : e = (kx e, ey e, em e).
Proof. destruct e as [[x y] mp]; reflexivity. Qed.

Lemma loop_good : forall fuel l1 l2 out r1 r2,
  (length l1 + length l2 <= fuel)%nat -> ssorted (map kx l1) -> ssorted (map kx l2) ->
  df_add_loop ROps fuel l1 l2 = (out, (r1, r2)) ->
  (r1 = [] \/ r2 = []) /\ good (l1 ++ l2) (out ++ r1 ++ r2).
Proof.
  induction fuel as [|k IH]; intros l1 l2 out r1 r2 HL S1 S2 E.
  - destruct l1, l2; cbn [length] in HL; try lia. cbn in E. inversion E; subst.
    split; auto. apply good_nil.
  - cbn [df_add_loop] in E.
    destruct l1 as [|e1 t1].
    { inversion E; subst. split; auto. cbn [app]. apply good_self; auto. }
    destruct l2 as [|e2 t2].
    { inversion E; subst. split; auto. cbn [app]. rewrite !app_nil_r. apply good_self; auto. }
    cbn [length] in HL. cbn [map] in S1, S2.
    destruct (ssorted_cons_inv _ _ S1) as [S1' F1].
    destruct (ssorted_cons_inv _ _ S2) as [S2' F2].
    unfold d_x, d_y, d_mp in E. cbn [nltb nadd ROps] in E.
    change (fst (fst e1)) with (kx e1) in E. change (fst (fst e2)) with (kx e2) in E.
    destruct (Rltb_spec (kx e1) (kx e2)) as [H12|H12].
    + destruct (df_add_loop ROps k t1 (e2 :: t2)) as [out' [r1' r2']] eqn:E'.
      inversion E; subst. apply IH in E'; [|cbn [length]; lia|auto|cbn [map]; auto].
      destruct E' as [Hd Hg]. split; auto.
      cbn [app]. rewrite (entry_eta e1) at 2.
      apply (good_cons _ _ [e1] (kx e1) (ey e1) (em e1)) in Hg; auto.
      * rewrite map_app. apply Forall_app; split; auto. cbn [map]. constructor; auto.
        eapply Forall_impl; [|exact F2]; cbn; intros; lra.
      * discriminate.
      * cbn [Sg]. destruct (Reqb_spec (kx e1) (kx e1)); [lra|congruence].
      * cbn [Sg]. destruct (Reqb_spec (kx e1) (kx e1)); [lra|congruence].
    + destruct (Rltb_spec (kx e2) (kx e1)) as [H21|H21].
      * destruct (df_add_loop ROps k (e1 :: t1) t2) as [out' [r1' r2']] eqn:E'.
        inversion E; subst. apply IH in E'; [|cbn [length]; lia|cbn [map]; auto|auto].
        destruct E' as [Hd Hg]. split; auto.
        cbn [app]. rewrite (entry_eta e2) at 2.
        apply (good_cons _ _ [e2] (kx e2) (ey e2) (em e2)) in Hg; auto.
        -- eapply good_perm; [|exact Hg]. cbn [app].
           apply (Permutation_middle (e1 :: t1) t2 e2).
        -- rewrite map_app. apply Forall_app; split; auto. cbn [map]. constructor; auto.
           eapply Forall_impl; [|exact F1]; cbn; intros; lra.
        -- discriminate.
        -- cbn [Sg]. destruct (Reqb_spec (kx e2) (kx e2)); [lra|congruence].
        -- cbn [Sg]. destruct (Reqb_spec (kx e2) (kx e2)); [lra|congruence].
      * assert (E12 : kx e1 = kx e2) by lra.
        destruct (df_add_loop ROps k t1 t2) as [out' [r1' r2']] eqn:E'.
        inversion E; subst. apply IH in E'; [|cbn [length] in *; lia|auto|auto].
        destruct E' as [Hd Hg]. split; auto.
        cbn [app].
        change (snd (fst e1)) with (ey e1). change (snd (fst e2)) with (ey e2).
        change (snd e1) with (em e1). change (snd e2) with (em e2).
        apply (good_cons _ _ [e1; e2] (kx e1) (ey e1 + ey e2) (em e1 + em e2)) in Hg; auto.
        -- eapply good_perm; [|exact Hg]. cbn [app]. constructor.
           apply (Permutation_middle t1 t2 e2).
        -- rewrite map_app. apply Forall_app; split; auto.
           eapply Forall_impl; [|exact F2]; cbn; intros; lra.
        -- discriminate.
        -- cbn [Sg]. rewrite <- E12.
           destruct (Reqb_spec (kx e1) (kx e1)); [lra|congruence].
        -- cbn [Sg]. rewrite <- E12.
           destruct (Reqb_spec (kx e1) (kx e1)); [lra|congruence].
Qed.

(* ------------------------------------------------------------------ *)
(* 1, 2: df_add                                                        *)

Lemma df_add_spec_eq (f g : list (R*R*R)) :
  df_add_spec ROps f g = add_spec_of (interior_entries f ++ interior_entries g).
Proof. reflexivity. Qed.

Lemma df_add_shape (f0 fl g0 gl : R*R*R) If Ig :
  ssorted (map kx If) -> ssorted (map kx Ig) -> kx f0 = kx g0 -> kx fl = kx gl ->
  exists h z, df_add ROps (f0 :: If ++ [fl]) (g0 :: Ig ++ [gl])
              = Ok (h :: add_spec_of (If ++ Ig) ++ [z])
              /\ kx h = kx f0 /\ kx z = kx fl.
Proof.
  intros S1 S2 E0 El. unfold df_add.
  rewrite !rev_unit, !removelast_last. unfold d_x at 1 2 3 4.
  cbn [neqb ROps]. change (fst (fst f0)) with (kx f0). change (fst (fst g0)) with (kx g0).
  change (fst (fst fl)) with (kx fl). change (fst (fst gl)) with (kx gl).
  destruct (Reqb_spec (kx f0) (kx g0)) as [_|N]; [|congruence].
  destruct (Reqb_spec (kx fl) (kx gl)) as [_|N]; [|congruence].
  cbn [negb].
  match goal with
  | |- context [df_add_loop ROps ?n If Ig] =>
      destruct (df_add_loop ROps n If Ig) as [out [r1 r2]] eqn:E
  end.
  apply loop_good in E; auto.
  2:{ cbn [length]. rewrite !app_length. lia. }
  destruct E as [Hd Hg]. apply good_spec in Hg.
  destruct r1 as [|a1 r1]; [destruct r2 as [|a2 r2]|]; cbv beta iota zeta.
  - rewrite !app_nil_r in Hg. rewrite <- Hg.
    match goal with |- context [match ?B with [] => _ | _ :: _ => _ end] =>
      destruct B as [|b0 body] eqn:EB end.
    { exfalso. destruct out; discriminate. }
    rewrite <- EB. eexists _, _. split; [reflexivity|]. split; reflexivity.
  - cbn [app] in Hg.
    match goal with |- context [match ?B with [] => _ | _ :: _ => _ end] =>
      destruct B as [|b0 body] eqn:EB end.
    { exfalso. destruct out; discriminate. }
    rewrite <- EB. rewrite app_assoc, <- Hg.
    eexists _, _. split; [reflexivity|]. split; [reflexivity|]. symmetry; exact El.
  - destruct Hd as [Hd|Hd]; [discriminate|]. subst r2. rewrite app_nil_r in Hg.
    match goal with |- context [match ?B with [] => _ | _ :: _ => _ end] =>
      destruct B as [|b0 body] eqn:EB end.
    { exfalso. destruct out; discriminate. }
    rewrite <- EB. rewrite app_assoc, <- Hg.
    eexists _, _. split; [reflexivity|]. split; reflexivity.
Qed.

Theorem df_add_events : forall f g, wf_df f -> wf_df g ->
  fst (fst (hd (0,0,0) f)) = fst (fst (hd (0,0,0) g)) ->
  fst (fst (last f (0,0,0))) = fst (fst (last g (0,0,0))) ->
  exists r : list (R*R*R), df_add ROps f g = Ok r
            /\ interior_entries r = df_add_spec ROps f g
            /\ fst (fst (hd (0,0,0) r)) = fst (fst (hd (0,0,0) f))
            /\ fst (fst (last r (0,0,0))) = fst (fst (last f (0,0,0))).
Proof.
  intros f g Wf Wg E0 El.
  destruct (wf_df_shape f Wf) as (f0 & If & fl & -> & S1 & _ & _).
  destruct (wf_df_shape g Wg) as (g0 & Ig & gl & -> & S2 & _ & _).
  rewrite !last_shape in *. cbn [hd] in *.
  destruct (df_add_shape f0 fl g0 gl If Ig S1 S2 E0 El) as (h & z & E & Hh & Hz).
  exists (h :: add_spec_of (If ++ Ig) ++ [z]). split; [exact E|].
  rewrite df_add_spec_eq, !interior_shape, last_shape. cbn [hd]. auto.
Qed.

Lemma add_spec_of_good ev : good ev (add_spec_of ev).
Proof.
  set (ks := sort_unique ROps (map kx ev)).
  assert (E : map kx (add_spec_of ev) = ks).
  { unfold add_spec_of. rewrite map_map. cbn [kx fst]. apply map_id. }
  split; [|split].
  - rewrite E. apply sort_unique_sorted.
  - intros t. rewrite E. apply sort_unique_in.
  - unfold add_spec_of. apply Forall_map, Forall_forall. intros t _.
    rewrite sum_at_Sg. cbn [fst snd]. unfold ey, em, kx; cbn [fst snd]. auto.
Qed.

Theorem df_add_wf : forall (f g r : list (R*R*R)), wf_df f -> wf_df g ->
  fst (fst (hd (0,0,0) f)) = fst (fst (hd (0,0,0) g)) ->
  fst (fst (last f (0,0,0))) = fst (fst (last g (0,0,0))) ->
  df_add ROps f g = Ok r -> wf_df r.
Proof.
  intros f g r Wf Wg E0 El Hr.
  destruct (wf_df_shape f Wf) as (f0 & If & fl & -> & S1 & L1 & B1).
  destruct (wf_df_shape g Wg) as (g0 & Ig & gl & -> & S2 & L2 & B2).
  rewrite !last_shape in *. cbn [hd] in *.
  change (kx f0 = kx g0) in E0. change (kx fl = kx gl) in El.
  destruct (df_add_shape f0 fl g0 gl If Ig S1 S2 E0 El) as (h & z & E & Hh & Hz).
  rewrite E in Hr. inversion Hr; subst r.
  destruct (add_spec_of_good (If ++ Ig)) as (GS & GI & _).
  apply wf_df_intro; [exact GS | lra |].
  apply Forall_forall. intros e He. rewrite Hh, Hz.
  assert (Hk : In (kx e) (map kx (If ++ Ig))) by (apply GI; apply in_map; auto).
  rewrite map_app, in_app_iff in Hk. rewrite Forall_forall in B1, B2.
  destruct Hk as [Hk|Hk]; apply in_map_iff in Hk as (e' & Ek & He').
  - rewrite <- Ek. apply B1; auto.
  - rewrite <- Ek, E0, El. apply B2; auto.
Qed.

(* 9: the event list of the sum does not depend on the order of the operands *)
Lemma add_spec_of_comm l1 l2 : add_spec_of (l1 ++ l2) = add_spec_of (l2 ++ l1).
Proof.
  symmetry. apply good_spec. eapply good_perm; [|apply add_spec_of_good].
  apply Permutation_app_comm.
Qed.

Theorem df_add_comm_events : forall f g, wf_df f -> wf_df g ->
  fst (fst (hd (0,0,0) f)) = fst (fst (hd (0,0,0) g)) ->
  fst (fst (last f (0,0,0))) = fst (fst (last g (0,0,0))) ->
  df_add_spec ROps f g = df_add_spec ROps g f.
Proof. intros f g _ _ _ _. rewrite !df_add_spec_eq. apply add_spec_of_comm. Qed.

(* ------------------------------------------------------------------ *)
(* 3-6: integral / avrg                                                *)

Theorem df_integral_none : forall f : list (R*R*R),
  df_integral ROps f (@IvNone R) = Ok (df_integral_spec ROps f (@IvNone R)).
Proof. intros f. reflexivity. Qed.

Definition wsorted (l : list (R*R*R)) : Prop := StronglySorted (fun a b => kx a <= kx b) l.

Lemma wf_wsorted f : wf_df f -> wsorted f.
Proof.
  intros Wf. destruct (wf_df_shape f Wf) as (f0 & I & fl & -> & S1 & L1 & B1).
  rewrite Forall_forall in B1. unfold wsorted. constructor.
  - apply SS_app.
    + apply SS_map_inv in S1. eapply SS_impl; [|exact S1]. cbn; intros; lra.
    + constructor; constructor.
    + intros a b Ha [<-|[]]. apply B1; auto.
  - apply Forall_app; split.
    + apply Forall_forall; intros e He. apply B1; auto.
    + constructor; auto.
Qed.

Lemma wsorted_filter p l : wsorted l -> wsorted (filter p l).
Proof.
  unfold wsorted. induction 1 as [|a l HS IH HF]; cbn [filter]; [constructor|].
  destruct (p a); auto. constructor; auto.
  apply Forall_forall. intros e He. apply filter_In in He as [He _].
  rewrite Forall_forall in HF; auto.
Qed.

Definition in_open (a b : R) (e : R*R*R) : bool := Rltb a (kx e) && Rltb (kx e) b.

Lemma slice_filter (l : list (R*R*R)) a b :
  wsorted l -> a < b ->
  slice l (length (filter (fun e => nleb ROps (kx e) a) l))
          (length (filter (fun e => Rltb (kx e) b) l))
  = filter (in_open a b) l.
Proof.
  intros HS Hab. unfold slice.
  set (pa := fun e : R*R*R => nleb ROps (kx e) a).
  set (pb := fun e : R*R*R => Rltb (kx e) b).
  assert (Ha : StronglySorted (fun x y : R*R*R => pa y = true -> pa x = true) l).
  { eapply SS_impl; [|exact HS]. unfold pa; cbn. intros x y Hxy Hy.
    apply nleb_true in Hy. apply nleb_true. lra. }
  destruct (prefix_filter pa l Ha) as [P1 P2].
  set (s := length (filter pa l)) in *.
  rewrite P2.
  assert (Hl2 : wsorted (filter (fun e => negb (pa e)) l)) by (apply wsorted_filter; auto).
  set (l2 := filter (fun e => negb (pa e)) l) in *.
  assert (Hcnt : (length (filter pb l) - s = length (filter pb l2))%nat).
  { rewrite <- (firstn_skipn s l) at 1. rewrite filter_app, app_length, P1, P2.
    fold l2. rewrite filter_filter.
    rewrite (filter_ext (fun e => pa e && pb e) pa).
    - fold s. lia.
    - intros e. unfold pa, pb. destruct (nleb ROps (kx e) a) eqn:E; cbn [andb]; auto.
      apply nleb_true in E. apply Rltb_true. lra. }
  rewrite Hcnt.
  assert (Hb : StronglySorted (fun x y : R*R*R => pb y = true -> pb x = true) l2).
  { eapply SS_impl; [|exact Hl2]. unfold pb; cbn. intros x y Hxy Hy.
    apply Rltb_true in Hy. apply Rltb_true. lra. }
  destruct (prefix_filter pb l2 Hb) as [Q1 _]. rewrite Q1.
  unfold l2. rewrite filter_filter. apply filter_ext.
  intros e. unfold pa, pb, in_open, nleb. cbn [nltb ROps]. rewrite negb_involutive. auto.
Qed.

Lemma df_integral1_some f a b : wf_df f ->
  fst (fst (hd (0,0,0) f)) <= a -> a < b -> b <= fst (fst (last f (0,0,0))) ->
  df_integral1 ROps f (Some (a, b)) = Ok (df_integral_spec1 ROps f (Some (a, b))).
Proof.
  intros Wf Ha Hab Hb. pose proof (wf_wsorted f Wf) as HS.
  destruct (wf_df_shape f Wf) as (f0 & I & fl & -> & S1 & L1 & B1).
  rewrite last_shape in Hb. cbn [hd] in Ha.
  change (kx f0 <= a) in Ha. change (b <= kx fl) in Hb.
  unfold df_integral1, df_integral_spec1, count_le, count_lt.
  rewrite interior_shape. rewrite !filter_map_comm, !map_length.
  change (@d_x R) with kx. cbn [nltb ROps].
  unfold dentry.
  rewrite (slice_filter _ a b HS Hab).
  set (f := f0 :: I ++ [fl]) in *.
  assert (H0 : nleb ROps (kx f0) a = true) by (apply nleb_true; auto).
  assert (Hl : Rltb (kx fl) b = false) by (apply Rltb_false; auto).
  assert (C1 : (0 <? length (filter (fun e => nleb ROps (kx e) a) f))%nat = true).
  { unfold f. cbn [filter]. rewrite H0. reflexivity. }
  assert (C2 : (length (filter (fun e => Rltb (kx e) b) f) <? length f)%nat = true).
  { apply Nat.ltb_lt. unfold f. change (f0 :: I ++ [fl]) with ((f0 :: I) ++ [fl]).
    rewrite filter_app, !app_length. cbn [filter length]. rewrite Hl. cbn [length].
    pose proof (filter_len_le (fun e => Rltb (kx e) b) (f0 :: I)) as HH.
    cbn [filter length] in HH. lia. }
  rewrite C1, C2. cbn [andb negb]. f_equal.
  assert (EF : filter (in_open a b) f = filter (in_open a b) I).
  { unfold f. cbn [filter]. unfold in_open at 1.
    assert (Rltb a (kx f0) = false) as -> by (apply Rltb_false; auto). cbn [andb].
    rewrite filter_app. cbn [filter]. unfold in_open at 2. rewrite Hl, andb_false_r.
    apply app_nil_r. }
  rewrite EF. reflexivity.
Qed.

Theorem df_integral_one : forall f a b, wf_df f ->
  fst (fst (hd (0,0,0) f)) <= a -> a < b -> b <= fst (fst (last f (0,0,0))) ->
  df_integral ROps f (IvOne a b) = Ok (df_integral_spec ROps f (IvOne a b)).
Proof. intros. apply df_integral1_some; auto. Qed.

Theorem df_integral_many : forall f l, wf_df f ->
  Forall (fun p => fst (fst (hd (0,0,0) f)) <= fst p /\ fst p < snd p
                   /\ snd p <= fst (fst (last f (0,0,0)))) l ->
  df_integral ROps f (IvMany l) = Ok (df_integral_spec ROps f (IvMany l)).
Proof.
  intros f l Wf HF. unfold df_integral, df_integral_spec.
  induction HF as [|p l Hp HF IH]; cbn [map sum_res2 fold_right]; [reflexivity|].
  destruct p as [a b]. cbn [fst snd] in Hp. destruct Hp as (H1 & H2 & H3).
  rewrite (df_integral1_some f a b Wf H1 H2 H3). cbn [rbind]. rewrite IH. reflexivity.
Qed.

Theorem df_avrg_spec : forall f a b, wf_df f ->
  fst (fst (hd (0,0,0) f)) <= a -> a < b -> b <= fst (fst (last f (0,0,0))) ->
  df_avrg ROps f (IvOne a b) true
  = Ok (let '(v, m) := df_integral_spec ROps f (IvOne a b) in if Rltb 0 m then v / m else 1).
Proof.
  intros f a b Wf H1 H2 H3. unfold df_avrg.
  rewrite (df_integral_one f a b Wf H1 H2 H3). cbn [rmap].
  destruct (df_integral_spec ROps f (IvOne a b)) as [v m]. reflexivity.
Qed.

(* 8 *)
Theorem df_plot0 : forall f : list (R*R*R),
  df_plottable ROps f 0 = (map (fun e => fst (fst e)) f, map (fun e => snd (fst e) / snd e) f).
Proof. intros f. reflexivity. Qed.

(* ------------------------------------------------------------------ *)
(* 7: the integral of a sum                                            *)

Lemma sumF_app l1 l2 : sumF ROps (l1 ++ l2) = sumF ROps l1 + sumF ROps l2.
Proof.
  unfold sumF. induction l1 as [|a l1 IH]; cbn [app fold_right nadd n0 ROps]; [lra|].
  cbn [nadd n0 ROps] in IH. rewrite IH. lra.
Qed.

Lemma sumF_cons a l : sumF ROps (a :: l) = a + sumF ROps l.
Proof. reflexivity. Qed.

Lemma sumF_map_add {A} (u v : A -> R) ks :
  sumF ROps (map (fun t => u t + v t) ks) = sumF ROps (map u ks) + sumF ROps (map v ks).
Proof.
  induction ks as [|k ks IH]; cbn [map]; [unfold sumF; cbn; lra|].
  rewrite !sumF_cons, IH. lra.
Qed.

Lemma sumF_ind_out c v ks : ~ In c ks ->
  sumF ROps (map (fun t => if Reqb c t then v else 0) ks) = 0.
Proof.
  induction ks as [|k ks IH]; cbn [map In]; intros H; [reflexivity|].
  rewrite sumF_cons, IH by tauto.
  destruct (Reqb_spec c k) as [E|E]; [exfalso; auto | lra].
Qed.

Lemma sumF_ind_in c v ks : NoDup ks -> In c ks ->
  sumF ROps (map (fun t => if Reqb c t then v else 0) ks) = v.
Proof.
  induction 1 as [|k ks Hk HN IH]; cbn [map In]; [tauto|]. intros [->|Hc].
  - rewrite sumF_cons, sumF_ind_out by auto.
    destruct (Reqb_spec c c) as [_|E]; [lra|congruence].
  - rewrite sumF_cons, IH by auto.
    destruct (Reqb_spec c k) as [E|E]; [subst; tauto | lra].
Qed.

Lemma sumF_map_zero {A} (ks : list A) : sumF ROps (map (fun _ => 0) ks) = sumF ROps [].
Proof.
  induction ks as [|k ks IH]; cbn [map]; [reflexivity|].
  rewrite sumF_cons, IH. unfold sumF; cbn; lra.
Qed.

Lemma Sg_sum p (q : R*R*R -> bool) ks ev : NoDup ks ->
  (forall e, In e ev -> (In (kx e) ks <-> q e = true)) ->
  sumF ROps (map (fun t => Sg p t ev) ks) = sumF ROps (map p (filter q ev)).
Proof.
  intros HN. induction ev as [|e r IH]; intros Hq.
  - cbn [Sg filter map]. apply sumF_map_zero.
  - rewrite (map_ext (fun t => Sg p t (e :: r))
                     (fun t => (if Reqb (kx e) t then p e else 0) + Sg p t r)).
    2:{ intros t. cbn [Sg]. destruct (Reqb (kx e) t); lra. }
    rewrite sumF_map_add, IH by (intros e' He'; apply Hq; cbn; auto).
    cbn [filter]. pose proof (Hq e (or_introl eq_refl)) as He.
    destruct (q e) eqn:Eq; cbn [map].
    + rewrite sumF_cons, sumF_ind_in; auto. apply He; auto.
    + rewrite sumF_ind_out; [lra|]. intros Hin. apply He in Hin. congruence.
Qed.

Lemma spec_sum (pr : R*R*R -> R) (Q : R -> bool) ev : pr = ey \/ pr = em ->
  sumF ROps (map pr (filter (fun e => Q (kx e)) (add_spec_of ev)))
  = sumF ROps (map pr (filter (fun e => Q (kx e)) ev)).
Proof.
  intros Hpr. unfold add_spec_of. rewrite filter_map_comm, map_map.
  change (fun e : R*R*R => fst (fst e)) with kx.
  rewrite (map_ext _ (fun t => Sg pr t ev)).
  2:{ intros t. rewrite sum_at_Sg. destruct Hpr as [->| ->]; reflexivity. }
  cbn [kx fst].
  apply Sg_sum.
  - apply NoDup_filter, ssorted_NoDup, sort_unique_sorted.
  - intros e He. rewrite filter_In, sort_unique_in. split; [tauto|].
    intros HQ; split; auto. apply in_map; auto.
Qed.

Lemma filter_true {A} (l : list A) : filter (fun _ => true) l = l.
Proof. induction l as [|a l IH]; cbn [filter]; congruence. Qed.

Theorem df_add_integral : forall (f g r : list (R*R*R)) iv, wf_df f -> wf_df g ->
  fst (fst (hd (0,0,0) f)) = fst (fst (hd (0,0,0) g)) ->
  fst (fst (last f (0,0,0))) = fst (fst (last g (0,0,0))) ->
  df_add ROps f g = Ok r ->
  df_integral_spec1 ROps r iv
  = (fst (df_integral_spec1 ROps f iv) + fst (df_integral_spec1 ROps g iv),
     snd (df_integral_spec1 ROps f iv) + snd (df_integral_spec1 ROps g iv)).
Proof.
  intros f g r iv Wf Wg E0 El Hr.
  destruct (df_add_events f g Wf Wg E0 El) as (r' & Hr' & HI & _ & _).
  rewrite Hr in Hr'. inversion Hr'; subst r'. clear Hr'.
  unfold df_integral_spec1. rewrite HI, df_add_spec_eq. cbn [fst snd].
  set (If := interior_entries f). set (Ig := interior_entries g).
  change (fun e : R*R*R => snd (fst e)) with ey. change (fun e : R*R*R => snd e) with em.
  destruct iv as [[a b]|].
  - cbn [nltb ROps].
    change (fun e : R*R*R => Rltb a (fst (fst e)) && Rltb (fst (fst e)) b)
      with (fun e : R*R*R => (fun t => Rltb a t && Rltb t b) (kx e)).
    rewrite (spec_sum ey (fun t => Rltb a t && Rltb t b)) by auto.
    rewrite (spec_sum em (fun t => Rltb a t && Rltb t b)) by auto.
    rewrite filter_app, !map_app, !sumF_app. reflexivity.
  - rewrite <- (filter_true (add_spec_of (If ++ Ig))).
    change (fun _ : R*R*R => true) with (fun e : R*R*R => (fun _ : R => true) (kx e)).
    rewrite (spec_sum ey (fun _ => true)) by auto.
    rewrite (spec_sum em (fun _ => true)) by auto.
    cbv beta. rewrite filter_true, !map_app, !sumF_app. reflexivity.
Qed.

(* the same on the model side, for a single interval *)
Corollary df_add_integral_model : forall (f g r : list (R*R*R)) a b, wf_df f -> wf_df g ->
  fst (fst (hd (0,0,0) f)) = fst (fst (hd (0,0,0) g)) ->
  fst (fst (last f (0,0,0))) = fst (fst (last g (0,0,0))) ->
  df_add ROps f g = Ok r ->
  fst (fst (hd (0,0,0) f)) <= a -> a < b -> b <= fst (fst (last f (0,0,0))) ->
  df_integral ROps r (IvOne a b)
  = Ok (fst (df_integral_spec ROps f (IvOne a b)) + fst (df_integral_spec ROps g (IvOne a b)),
        snd (df_integral_spec ROps f (IvOne a b)) + snd (df_integral_spec ROps g (IvOne a b))).
Proof.
  intros f g r a b Wf Wg E0 El Hr Ha Hab Hb.
  pose proof (df_add_wf f g r Wf Wg E0 El Hr) as Wr.
  destruct (df_add_events f g Wf Wg E0 El) as (r' & Hr' & _ & H0 & Hl).
  rewrite Hr in Hr'. inversion Hr'; subst r'. clear Hr'.
  rewrite (df_integral_one r a b Wr); [| rewrite H0; exact Ha | exact Hab | rewrite Hl; exact Hb].
  f_equal. apply (df_add_integral f g r (Some (a, b))); auto.
Qed.

Print Assumptions df_add_events.
Print Assumptions df_integral_one.
Print Assumptions df_add_integral.
