(* ModelAPI.v — model of the L3 measure API (isi_distance.py, spike_distance.py,
   spike_sync.py, spike_directionality.py, generic.py, isi_lengths.py,
   spikes.py:reconcile_*, SpikeTrain.py) and of L4 merge/psth/time-series.
   The flag [cy] selects the branches the Python takes when the compiled
   kernels are importable.  MRTS is always numeric here ('auto' is resolved
   by the caller through [default_thresh_sq] and a square root).
   No proofs in this file. *)

From Coq Require Import List Bool ZArith Arith.
Import ListNotations.
From PS Require Import Num ModelKernels ModelFuncs.

Set Implicit Arguments.

Section API.
  Context {F : Type} (o : NumOps F).

  Local Notation "0" := (n0 o).
  Local Notation "1" := (n1 o).
  Local Notation "2" := (n2 o).
  Local Notation "a + b" := (nadd o a b).
  Local Notation "a - b" := (nsub o a b).
  Local Notation "a * b" := (nmul o a b).
  Local Notation "a / b" := (ndiv o a b).
  Local Notation "a <? b" := (nltb o a b).
  Local Notation "a >? b" := (nltb o b a) (at level 70).
  Local Notation "a =? b" := (neqb o a b).
  Local Notation "a <=? b" := (nleb o a b).
  Local Notation max := (nmax o).
  Local Notation min := (nmin o).
  Local Notation abs := (nabs o).

  (* a spike train: spike times and the two edges *)
  Definition train : Type := (list F * F * F)%type.
  Definition tr_spikes (t : train) : list F := fst (fst t).
  Definition tr_start (t : train) : F := snd (fst t).
  Definition tr_end (t : train) : F := snd t.

  (* ---------------------------------------------------------------- *)
  (* np.unique: sort and remove duplicates                             *)

  Fixpoint insert_u (x : F) (l : list F) : list F :=
    match l with
    | [] => [x]
    | y :: r => if x <? y then x :: l else if x =? y then l else y :: insert_u x r
    end.
  Definition sort_unique (l : list F) : list F := fold_right insert_u [] l.

  (* np.sort (keeps duplicates) *)
  Fixpoint insert_s (x : F) (l : list F) : list F :=
    match l with
    | [] => [x]
    | y :: r => if x <? y then x :: l else y :: insert_s x r
    end.
  Definition sort_list (l : list F) : list F := fold_right insert_s [] l.

  Definition min_list (d : F) (l : list F) : F := fold_left min l d.
  Definition max_list (d : F) (l : list F) : F := fold_left max l d.

  (* reconcile_spike_trains; [eps] is 1e-6 *)
  Definition reconcile (eps : F) (l : list train) : list train :=
    match l with
    | [] => []
    | t0 :: r =>
        let tS := min_list (tr_start t0) (map (@tr_start) r) in
        let tE := max_list (tr_end t0) (map (@tr_end) r) in
        map (fun t => (filter (fun x => (x >? tS - eps) && (x <? tE + eps))
                              (sort_unique (tr_spikes t)), tS, tE)) l
    end.

  (* SpikeTrain.get_spikes_non_empty *)
  Definition spikes_non_empty (t : train) : list F :=
    match tr_spikes t with
    | [] => sort_unique [tr_start t; tr_end t]
    | s => s
    end.

  (* ---------------------------------------------------------------- *)
  (* isi_lengths / default_thresh                                      *)

  Fixpoint diffs (l : list F) : list F :=
    match l with
    | a :: ((b :: _) as r) => (b - a) :: diffs r
    | _ => []
    end.

  Definition isi_lengths (s : list F) (ts te : F) : list F :=
    match s with
    | [] => [te - ts]
    | x0 :: r =>
        let n := length s in
        let xl := last s x0 in
        let xl2 := nth (n - 2) s x0 in
        (* the N-1 intervals between consecutive spikes *)
        let dels := diffs s in
        (if x0 >? ts
         then [match r with x1 :: _ => max (x0 - ts) (x1 - x0) | [] => x0 - ts end]
         else [])
        ++ dels ++
        (if xl <? te
         then [match r with _ :: _ => max (te - xl) (xl - xl2) | [] => te - xl end]
         else [])
    end.

  (* square of default_thresh: mean of the squared pooled ISI lengths *)
  Definition default_thresh_sq (l : list train) : F :=
    match l with
    | [] => 0
    | t0 :: _ =>
        let pool := flat_map (fun t => isi_lengths (tr_spikes t) (tr_start t0) (tr_end t0)) l in
        sumF o (map (fun x => x * x) pool) / nofnat o (length pool)
    end.

  (* ---------------------------------------------------------------- *)
  (* bivariate entry points                                            *)

  Variable eps : F.   (* 1e-6 *)

  Definition prep2 (rc : bool) (a b : train) : train * train :=
    if rc then
      match reconcile eps [a; b] with
      | [a'; b'] => (a', b')
      | _ => (a, b)
      end
    else (a, b).

  Definition isi_profile_bi (cy rc : bool) (m : F) (a b : train) : @pwc F :=
    let '(a, b) := prep2 rc a b in
    (if cy then isi_profile_cy else isi_profile_py) o
      (spikes_non_empty a) (spikes_non_empty b) (tr_start a) (tr_end a) m.

  Definition spike_profile_bi (cy rc : bool) (m : F) (ri : bool) (a b : train) : @pwl F :=
    let '(a, b) := prep2 rc a b in
    (if cy then spike_profile_cy else spike_profile_py) o
      (spikes_non_empty a) (spikes_non_empty b) (tr_start a) (tr_end a) m ri.

  Definition gt_of (cy : bool) := if cy then get_tau_cy o else get_tau o.

  Definition spike_sync_profile_bi (cy rc : bool) (mt m : F) (a b : train) : list (@dentry F) :=
    let '(a, b) := prep2 rc a b in
    coincidence_profile_gen o (gt_of cy) (tr_spikes a) (tr_spikes b) (tr_start a) (tr_end a) mt m.

  Definition order_profile_bi (cy rc : bool) (mt m : F) (a b : train) : res (list (@dentry F)) :=
    let '(a, b) := prep2 rc a b in
    if negb (tr_start a =? tr_start b) || negb (tr_end a =? tr_end b) then Err AssertionError
    else Ok (order_profile_gen o (gt_of cy) (tr_spikes a) (tr_spikes b) (tr_start a) (tr_end a) mt m).

  Definition iv_of (iv : option (F * F)) : @ivspec F :=
    match iv with None => @IvNone F | Some (a, b) => IvOne a b end.

  Definition isi_distance_bi (cy rc : bool) (m : F) (iv : option (F * F)) (a b : train) : res F :=
    let '(a, b) := prep2 rc a b in
    match iv, cy with
    | None, true =>
        Ok (isi_distance_cy o (spikes_non_empty a) (spikes_non_empty b) (tr_start a) (tr_end a) m)
    | _, _ => pwc_avrg o (isi_profile_bi cy false m a b) (iv_of iv)
    end.

  Definition spike_distance_bi (cy rc : bool) (m : F) (ri : bool) (iv : option (F * F)) (a b : train)
    : res F :=
    let '(a, b) := prep2 rc a b in
    match iv, cy with
    | None, true =>
        Ok (spike_distance_cy o (spikes_non_empty a) (spikes_non_empty b) (tr_start a) (tr_end a) m ri)
    | _, _ => pwl_avrg o (spike_profile_bi cy false m ri a b) (iv_of iv)
    end.

  (* _spike_sync_values (trains already reconciled by the caller) *)
  Definition spike_sync_values (cy : bool) (mt m : F) (iv : option (F * F)) (a b : train)
    : res (F * F) :=
    match iv, cy with
    | None, true =>
        Ok (coincidence_value_gen o (gt_of cy) (tr_spikes a) (tr_spikes b) (tr_start a) (tr_end a) mt m)
    | _, _ => df_integral o (spike_sync_profile_bi cy false mt m a b) (iv_of iv)
    end.

  Definition spike_sync_bi (cy rc : bool) (mt m : F) (iv : option (F * F)) (a b : train) : res F :=
    let '(a, b) := prep2 rc a b in
    rmap (fun cm => if snd cm =? 0 then 1 else fst cm / snd cm)
         (spike_sync_values cy mt m iv a b).

  (* ---------------------------------------------------------------- *)
  (* pair enumeration, divide and conquer                              *)

  (* [(idx[i], j) for i in range(len(idx)) for j in idx[i+1:]] *)
  Fixpoint pairs_of (idx : list nat) : list (nat * nat) :=
    match idx with
    | [] => []
    | i :: r => map (fun j => (i, j)) r ++ pairs_of r
    end.

  Definition check_indices (n : nat) (idx : list nat) : bool :=
    forallb (fun i => (i <? n)%nat) idx.

  Definition indices_or_all (n : nat) (idx : option (list nat)) : list nat :=
    match idx with Some l => l | None => seq 0 n end.

  Section DC.
    Variable P : Type.
    Variable padd : P -> P -> res P.
    Variable pf : nat * nat -> res P.

    (* divide_and_conquer as a tree fold *)
    Fixpoint dc (fuel : nat) (ps : list (nat * nat)) : res P :=
      match fuel with
      | O => Err OutOfFuel
      | S k =>
          match ps with
          | [] => Err IndexError
          | [p] => pf p
          | _ =>
              let h := Nat.div2 (length ps) in
              rbind (dc k (firstn h ps)) (fun d1 =>
              rbind (dc k (skipn h ps)) (fun d2 => padd d1 d2))
          end
      end.
  End DC.

  Definition nth_train (l : list train) (i : nat) : train := nth i l ([], 0, 0).

  (* _generic_profile_multi; returns the summed profile and the pair count *)
  Definition profile_multi_gen (P : Type) (padd : P -> P -> res P)
             (bi : train -> train -> res P)
             (rc : bool) (l : list train) (idx : option (list nat)) : res (P * nat) :=
    let l := if rc then reconcile eps l else l in
    let ix := indices_or_all (length l) idx in
    if negb (check_indices (length l) ix) then Err AssertionError
    else
      let ps := pairs_of ix in
      rmap (fun p => (p, length ps))
           (dc padd (fun p => bi (nth_train l (fst p)) (nth_train l (snd p))) (S (length ps)) ps).

  Definition isi_profile_multi (cy rc : bool) (m : F) (l : list train) (idx : option (list nat))
    : res (@pwc F) :=
    rmap (fun pn => pwc_mul o (fst pn) (1 / nofnat o (snd pn)))
         (profile_multi_gen (pwc_add o) (fun a b => Ok (isi_profile_bi cy false m a b)) rc l idx).

  Definition spike_profile_multi (cy rc : bool) (m : F) (ri : bool) (l : list train)
             (idx : option (list nat)) : res (@pwl F) :=
    rmap (fun pn => pwl_mul o (fst pn) (1 / nofnat o (snd pn)))
         (profile_multi_gen (pwl_add o) (fun a b => Ok (spike_profile_bi cy false m ri a b)) rc l idx).

  Definition spike_sync_profile_multi (cy rc : bool) (mt m : F) (l : list train)
             (idx : option (list nat)) : res (list (@dentry F)) :=
    rmap fst
         (profile_multi_gen (df_add o) (fun a b => Ok (spike_sync_profile_bi cy false mt m a b)) rc l idx).

  Definition order_profile_multi (cy rc : bool) (mt m : F) (l : list train)
             (idx : option (list nat)) : res (list (@dentry F)) :=
    rmap fst
         (profile_multi_gen (df_add o) (fun a b => order_profile_bi cy false mt m a b) rc l idx).

  (* _generic_distance_multi *)
  Definition distance_multi_gen (bi : train -> train -> res F)
             (rc : bool) (l : list train) (idx : option (list nat)) : res F :=
    let l := if rc then reconcile eps l else l in
    let ix := indices_or_all (length l) idx in
    if negb (check_indices (length l) ix) then Err AssertionError
    else
      let ps := pairs_of ix in
      rmap (fun s => s / nofnat o (length ps))
           (fold_left (fun acc p =>
                         rbind acc (fun a =>
                         rmap (fun d => a + d) (bi (nth_train l (fst p)) (nth_train l (snd p)))))
                      ps (Ok 0)).

  Definition isi_distance_multi (cy rc : bool) (m : F) (iv : option (F * F))
             (l : list train) (idx : option (list nat)) : res F :=
    distance_multi_gen (isi_distance_bi cy false m iv) rc l idx.

  Definition spike_distance_multi (cy rc : bool) (m : F) (ri : bool) (iv : option (F * F))
             (l : list train) (idx : option (list nat)) : res F :=
    distance_multi_gen (spike_distance_bi cy false m ri iv) rc l idx.

  (* _generic_distance_matrix: row-major list of rows *)
  Definition matrix_gen (bi : train -> train -> res F) (diag : F) (sym : F -> F)
             (rc : bool) (l : list train) (idx : option (list nat)) : res (list (list F)) :=
    let l := if rc then reconcile eps l else l in
    let ix := indices_or_all (length l) idx in
    if negb (check_indices (length l) ix) then Err AssertionError
    else
      let n := length ix in
      let entry i j : res F :=
        if (i =? j)%nat then Ok diag
        else if (i <? j)%nat
             then bi (nth_train l (nth i ix 0%nat)) (nth_train l (nth j ix 0%nat))
             else rmap sym (bi (nth_train l (nth j ix 0%nat)) (nth_train l (nth i ix 0%nat))) in
      let row i :=
        fold_right (fun j acc => rbind (entry i j) (fun e => rmap (cons e) acc)) (Ok []) (seq 0 n) in
      fold_right (fun i acc => rbind (row i) (fun r => rmap (cons r) acc)) (Ok []) (seq 0 n).

  Definition isi_distance_matrix (cy rc : bool) (m : F) (iv : option (F * F)) l idx :=
    matrix_gen (isi_distance_bi cy false m iv) 0 (fun x => x) rc l idx.
  Definition spike_distance_matrix (cy rc : bool) (m : F) (ri : bool) (iv : option (F * F)) l idx :=
    matrix_gen (spike_distance_bi cy false m ri iv) 0 (fun x => x) rc l idx.
  Definition spike_sync_matrix (cy rc : bool) (mt m : F) (iv : option (F * F)) l idx :=
    matrix_gen (spike_sync_bi cy false mt m iv) 1 (fun x => x) rc l idx.

  (* spike_sync_multi *)
  Definition spike_sync_multi (cy rc : bool) (mt m : F) (iv : option (F * F))
             (l : list train) (idx : option (list nat)) : res F :=
    let l := if rc then reconcile eps l else l in
    let ix := indices_or_all (length l) idx in
    if negb (check_indices (length l) ix) then Err AssertionError
    else
      let ps := pairs_of ix in
      rmap (fun cm => if snd cm =? 0 then 1 else fst cm / snd cm)
           (fold_left (fun acc p =>
                         rbind acc (fun a =>
                         rmap (fun d => (fst a + fst d, snd a + snd d))
                              (spike_sync_values cy mt m iv (nth_train l (fst p)) (nth_train l (snd p)))))
                      ps (Ok (0, 0))).

  (* filter_by_spike_sync: (kept, removed) per train *)
  Definition sumlists (l : list (list F)) (n : nat) : list F :=
    fold_left (fun acc c => map (fun p => fst p + snd p) (combine acc c)) l (repeat 0 n).

  Definition others {A} (l : list A) (i : nat) : list A := firstn i l ++ skipn (S i) l.

  Definition filter_by_spike_sync (cy rc : bool) (mt m thr : F) (l : list train)
    : list (train * train) :=
    let l := if rc then reconcile eps l else l in
    let n := length l in
    map (fun i =>
           let st := nth_train l i in
           let cs := map (fun t => coincidence_single_gen o (gt_of cy) (tr_spikes st) (tr_spikes t)
                                                           (tr_start st) (tr_end st) mt m)
                         (others l i) in
           let c := sumlists cs (length (tr_spikes st)) in
           let lim := thr * nofnat o (n - 1) in
           let tagged := combine (tr_spikes st) c in
           ((map fst (filter (fun p => snd p >? lim) tagged), tr_start st, tr_end st),
            (map fst (filter (fun p => snd p <=? lim) tagged), tr_start st, tr_end st)))
        (seq 0 n).

  (* ---------------------------------------------------------------- *)
  (* spike train order / directionality                                *)

  (* _spike_train_order_impl (interval = None) *)
  Definition order_impl (cy : bool) (mt m : F) (a b : train) : res (F * F) :=
    if cy then
      let '(c, mp) := order_value o (coinc_scan o (tau_fn o (gt_of cy) (tr_start a) (tr_end a) mt m)
                                                (tr_spikes a) (tr_spikes b)) 0 0 in
      Ok (c, mp)
    else
      rbind (order_profile_bi cy true mt m a b) (fun p => df_integral o p (@IvNone F)).

  Definition spike_train_order_bi (cy rc normalize : bool) (mt m : F) (a b : train) : res F :=
    let '(a, b) := prep2 rc a b in
    rmap (fun cm => if normalize then (if snd cm =? 0 then 1 else fst cm / snd cm) else fst cm)
         (order_impl cy mt m a b).

  Definition spike_train_order_multi (cy rc normalize : bool) (mt m : F)
             (l : list train) (idx : option (list nat)) : res F :=
    let l := if rc then reconcile eps l else l in
    let ix := indices_or_all (length l) idx in
    if negb (check_indices (length l) ix) then Err AssertionError
    else
      let ps := pairs_of ix in
      rmap (fun cm => if normalize then (if snd cm =? 0 then 1 else fst cm / snd cm) else fst cm)
           (fold_left (fun acc p =>
                         rbind acc (fun a =>
                         rmap (fun d => (fst a + fst d, snd a + snd d))
                              (order_impl cy mt m (nth_train l (fst p)) (nth_train l (snd p)))))
                      ps (Ok (0, 0))).

  (* _spike_directionality_values_impl *)
  Definition add_at (i : nat) (d : list F) (ls : list (list F)) : list (list F) :=
    map (fun p => if (fst p =? i)%nat then map (fun q => fst q + snd q) (combine (snd p) d) else snd p)
        (combine (seq 0 (length ls)) ls).

  (* positions (not index values) pair up: pairs over positions 0..k-1 *)
  Definition directionality_values (cy rc : bool) (mt m : F)
             (l : list train) (idx : option (list nat)) : res (list (list F)) :=
    let l := if rc then reconcile eps l else l in
    let ix := indices_or_all (length l) idx in
    if negb (check_indices (length l) ix) then Err AssertionError
    else
      let k := length ix in
      let tr p := nth_train l (nth p ix 0%nat) in
      let init := map (fun p => repeat 0 (length (tr_spikes (tr p)))) (seq 0 k) in
      let acc :=
        fold_left (fun acc pq =>
                     let a := tr (fst pq) in
                     let b := tr (snd pq) in
                     let '(d1, d2) := directionality_profile_gen o (gt_of cy) (tr_spikes a) (tr_spikes b)
                                                                  (tr_start a) (tr_end a) mt m in
                     add_at (snd pq) d2 (add_at (fst pq) d1 acc))
                  (pairs_of (seq 0 k)) init in
      Ok (map (map (fun v => v / nofnat o (k - 1))) acc).

  Definition spike_directionality (cy rc normalize : bool) (mt m : F) (a b : train) : res F :=
    let '(a, b) := prep2 rc a b in
    let d :=
      if cy then
        dir_value o (coinc_scan o (tau_fn o (gt_of cy) (tr_start a) (tr_end a) mt m)
                                (tr_spikes a) (tr_spikes b)) 0
      else
        sumF o (fst (directionality_profile_gen o (gt_of cy) (tr_spikes a) (tr_spikes b)
                                                (tr_start a) (tr_end a) mt m)) in
    let c := nofnat o (length (tr_spikes a)) in
    Ok (if normalize then (if c =? 0 then 0 else d / c) else d).

  Definition spike_directionality_matrix (cy rc normalize : bool) (mt m : F)
             (l : list train) (idx : option (list nat)) : res (list (list F)) :=
    matrix_gen (spike_directionality cy false normalize mt m) 0 (fun x => 0 - x) rc l idx.

  (* ---------------------------------------------------------------- *)
  (* L4: merge, time-series import, PSTH counts                        *)

  Definition merge_spike_trains (l : list train) : train :=
    match l with
    | [] => ([], 0, 0)
    | t0 :: _ => (sort_list (flat_map (@tr_spikes) l), tr_start t0, tr_end t0)
    end.

  (* import_spike_trains_from_time_series, one row *)
  Definition time_series_row (start bin : F) (row : list bool) : train :=
    let n := length row in
    let tp k := start + bin + nofnat o k * bin in
    (map tp (map fst (filter snd (combine (seq 0 n) row))), start, tp (n - 1)%nat).

  (* np.histogram over equal bins: counts per bin, last bin closed *)
  Definition hist_counts (edges : list F) (xs : list F) : list F :=
    let fix go (es : list F) : list F :=
      match es with
      | a :: ((b :: r) as es') =>
          let inbin x := (a <=? x) && (match r with [] => x <=? b | _ => x <? b end) in
          nofnat o (length (filter inbin xs)) :: go es'
      | _ => []
      end in
    go edges.

End API.
