(* Lem_History.v — C09: histories of add / mul_scalar / copy / constructor
   operations on piecewise functions.
   Part A: list helpers.
   Part B: heap level (Heap.v): state invariant, frame lemmas, copies are
           independent, the heap model refines the value-level model.
   Part C: value-level histories of piecewise-constant functions: every
           reachable object is a well-formed linear combination of the base
           functions (values, integral, breakpoints).
   Part D: the same for piecewise-linear functions. *)

From Coq Require Import List Bool Arith ZArith Reals Lra Lia Sorted Permutation.
Import ListNotations.
From PS Require Import Num RLemmas Valid ModelKernels ModelFuncs ModelAPI Spec SyncDefs.
From PS Require Import Lem_Pwc Heap.
From PS Require Lem_Pwl.
Local Open Scope R_scope.

(* ================================================================== *)
(* Part A: list helpers                                                 *)

Lemma upd_length {A} (l : list A) : forall i a, length (upd l i a) = length l.
Proof. induction l as [|b l IH]; intros [|i] a; cbn; auto. Qed.

Lemma nth_error_upd_eq {A} (l : list A) : forall i a, (i < length l)%nat ->
  nth_error (upd l i a) i = Some a.
Proof.
  induction l as [|b l IH]; intros [|i] a H; cbn in *; try lia; auto. apply IH. lia.
Qed.

Lemma nth_error_upd_neq {A} (l : list A) : forall i k a, k <> i ->
  nth_error (upd l i a) k = nth_error l k.
Proof.
  induction l as [|b l IH]; intros [|i] [|k] a H; cbn; auto; try congruence.
Qed.

Lemma nth_error_upd_inv {A} (l : list A) i k a b : nth_error (upd l i a) k = Some b ->
  (k = i /\ b = a /\ (i < length l)%nat) \/ (k <> i /\ nth_error l k = Some b).
Proof.
  intros H. destruct (Nat.eq_dec k i) as [->|N].
  - left. assert (L : (i < length l)%nat).
    { rewrite <- (upd_length l i a). apply nth_error_Some. congruence. }
    rewrite nth_error_upd_eq in H by auto. split; auto. split; congruence.
  - right. rewrite nth_error_upd_neq in H by auto. auto.
Qed.

Lemma nth_error_snoc_eq {A} (l : list A) a : nth_error (l ++ [a]) (length l) = Some a.
Proof. rewrite nth_error_app2 by lia. rewrite Nat.sub_diag. reflexivity. Qed.

Lemma nth_error_snoc_inv {A} (l : list A) a k b : nth_error (l ++ [a]) k = Some b ->
  ((k < length l)%nat /\ nth_error l k = Some b) \/ (k = length l /\ b = a).
Proof.
  intros H. destruct (Nat.lt_ge_cases k (length l)) as [L|L].
  - left. rewrite nth_error_app1 in H by auto. auto.
  - right. rewrite nth_error_app2 in H by auto.
    destruct (k - length l)%nat as [|m] eqn:E.
    + cbn in H. split; [lia|congruence].
    + cbn in H. destruct m; discriminate.
Qed.

Lemma nth_error_lt {A} (l : list A) k a : nth_error l k = Some a -> (k < length l)%nat.
Proof. intros H. apply nth_error_Some. congruence. Qed.

(* ================================================================== *)
(* Part B: heap level.  Nothing here depends on the number type.        *)

Section HeapLevel.
  Context {F : Type} (o : NumOps F).

  Local Notation state := (@state F).
  Local Notation store := (@store F).
  Local Notation op := (@op F).
  Implicit Types (s : state) (st : store) (v : @vstate F) (p : op).

  (* ---- store lemmas ---- *)

  Lemma sread_lt (st : store) r a : sread st r = Some a -> (r < length st)%nat.
  Proof.
    unfold sread. intros H. apply nth_error_Some. intros E. rewrite E in H. discriminate.
  Qed.

  Lemma sread_app (st e : store) r a : sread st r = Some a -> sread (st ++ e) r = Some a.
  Proof.
    intros H. pose proof (sread_lt _ _ _ H) as L. unfold sread in *.
    rewrite nth_error_app1 by auto. exact H.
  Qed.

  Lemma sread_snoc_new (st : store) a : sread (st ++ [Some a]) (length st) = Some a.
  Proof. unfold sread. rewrite nth_error_snoc_eq. reflexivity. Qed.

  Lemma sread_app_lt (st e : store) r : (r < length st)%nat -> sread (st ++ e) r = sread st r.
  Proof. intros L. unfold sread. rewrite nth_error_app1 by auto. reflexivity. Qed.

  Lemma sread_swrite_eq (st : store) r a : (r < length st)%nat -> sread (swrite st r a) r = Some a.
  Proof. intros L. unfold sread, swrite. rewrite nth_error_upd_eq by auto. reflexivity. Qed.

  Lemma sread_swrite_neq (st : store) r r' a : r' <> r -> sread (swrite st r a) r' = sread st r'.
  Proof. intros N. unfold sread, swrite. rewrite nth_error_upd_neq by auto. reflexivity. Qed.

  Lemma alloc2_eq (st : store) xs ys :
    alloc2 st xs ys = ((st ++ [Some xs]) ++ [Some ys], mkObj (length st) (S (length st))).
  Proof. unfold alloc2, alloc. rewrite app_length. cbn [length]. rewrite Nat.add_1_r. reflexivity. Qed.

  (* ---- the state invariant ---- *)

  Definition valid_ref (st : store) (r : nat) : Prop := exists a, sread st r = Some a.
  Definition valid_obj (st : store) (ob : obj) : Prop :=
    valid_ref st (rx ob) /\ valid_ref st (ry ob) /\ rx ob <> ry ob.
  (* no array is shared by the two objects *)
  Definition disj (a b : obj) : Prop :=
    rx a <> rx b /\ rx a <> ry b /\ ry a <> rx b /\ ry a <> ry b.

  Definition inv (s : state) : Prop :=
    (forall k ob, nth_error (st_objs s) k = Some ob -> valid_obj (st_store s) ob) /\
    (forall k1 k2 a b, k1 <> k2 -> nth_error (st_objs s) k1 = Some a ->
                       nth_error (st_objs s) k2 = Some b -> disj a b).

  Lemma valid_ref_lt st r : valid_ref st r -> (r < length st)%nat.
  Proof. intros [a H]. eapply sread_lt; eauto. Qed.
  Lemma valid_ref_app st e r : valid_ref st r -> valid_ref (st ++ e) r.
  Proof. intros [a H]. exists a. apply sread_app; auto. Qed.
  Lemma valid_obj_app st e ob : valid_obj st ob -> valid_obj (st ++ e) ob.
  Proof. intros (H1 & H2 & H3). repeat split; auto using valid_ref_app. Qed.

  Lemma read_obj_app st e ob : valid_obj st ob -> read_obj (st ++ e) ob = read_obj st ob.
  Proof.
    intros (H1 & H2 & _). unfold read_obj.
    rewrite !sread_app_lt by (apply valid_ref_lt; auto). reflexivity.
  Qed.

  Lemma valid_obj_fresh (st : store) xs ys :
    valid_obj ((st ++ [Some xs]) ++ [Some ys]) (mkObj (length st) (S (length st))).
  Proof.
    repeat split; cbn [rx ry]; try lia.
    - exists xs. apply sread_app, sread_snoc_new.
    - exists ys. replace (S (length st)) with (length (st ++ [Some xs])).
      + apply sread_snoc_new.
      + rewrite app_length. cbn. lia.
  Qed.

  Lemma read_obj_fresh (st : store) xs ys :
    read_obj ((st ++ [Some xs]) ++ [Some ys]) (mkObj (length st) (S (length st))) = Some (xs, ys).
  Proof.
    unfold read_obj. cbn [rx ry].
    rewrite (sread_app _ [Some ys] _ _ (sread_snoc_new st xs)).
    replace (S (length st)) with (length (st ++ [Some xs])) by (rewrite app_length; cbn; lia).
    rewrite sread_snoc_new. reflexivity.
  Qed.

  Lemma disj_fresh st ob : valid_obj st ob -> disj ob (mkObj (length st) (S (length st))).
  Proof.
    intros (H1 & H2 & _). apply valid_ref_lt in H1, H2. unfold disj. cbn [rx ry]. lia.
  Qed.
  Lemma disj_sym a b : disj a b -> disj b a.
  Proof. unfold disj. intuition. Qed.

  Theorem inv_init : inv empty_state.
  Proof.
    split.
    - intros k ob H. destruct k; discriminate.
    - intros k1 k2 a b _ H. destruct k1; discriminate.
  Qed.

  Lemma inv_fail s e : inv s -> inv (fail s e).
  Proof. intros H. exact H. Qed.

  Lemma inv_new_obj s xs ys : inv s -> inv (new_obj s xs ys).
  Proof.
    intros [V D]. unfold new_obj. rewrite alloc2_eq. split; cbn [st_store st_objs].
    - intros k ob H. apply nth_error_snoc_inv in H as [[_ H]|[_ ->]].
      + rewrite <- app_assoc. apply valid_obj_app. eauto.
      + apply valid_obj_fresh.
    - intros k1 k2 a b N H1 H2.
      apply nth_error_snoc_inv in H1 as [[L1 H1]|[E1 ->]];
        apply nth_error_snoc_inv in H2 as [[L2 H2]|[E2 ->]].
      + eauto.
      + apply disj_fresh. eauto.
      + apply disj_sym, disj_fresh. eauto.
      + lia.
  Qed.

  Lemma inv_rebind s i xs ys : inv s ->
    inv (mkState ((st_store s ++ [Some xs]) ++ [Some ys])
                 (upd (st_objs s) i (mkObj (length (st_store s)) (S (length (st_store s)))))
                 (st_errs s)).
  Proof.
    intros [V D]. split; cbn [st_store st_objs].
    - intros k ob H. apply nth_error_upd_inv in H as [(_ & -> & _)|(_ & H)].
      + apply valid_obj_fresh.
      + rewrite <- app_assoc. apply valid_obj_app. eauto.
    - intros k1 k2 a b N H1 H2.
      apply nth_error_upd_inv in H1 as [(E1 & -> & _)|(N1 & H1)];
        apply nth_error_upd_inv in H2 as [(E2 & -> & _)|(N2 & H2)].
      + lia.
      + apply disj_sym, disj_fresh. eauto.
      + apply disj_fresh. eauto.
      + eauto.
  Qed.

  Lemma valid_ref_swrite (st : store) r a r' : (r < length st)%nat ->
    valid_ref st r' -> valid_ref (swrite st r a) r'.
  Proof.
    intros L [b H]. destruct (Nat.eq_dec r' r) as [->|N].
    - exists a. apply sread_swrite_eq; auto.
    - exists b. rewrite sread_swrite_neq; auto.
  Qed.

  Lemma inv_write s r a : inv s -> (r < length (st_store s))%nat ->
    inv (mkState (swrite (st_store s) r a) (st_objs s) (st_errs s)).
  Proof.
    intros [V D] L. split; cbn [st_store st_objs]; [|exact D].
    intros k ob H. destruct (V k ob H) as (H1 & H2 & H3).
    repeat split; auto using valid_ref_swrite.
  Qed.

  Theorem inv_step : forall p s, inv s -> inv (step o p s).
  Proof.
    intros p s I. destruct p as [i j|i c|i|xs ys]; cbn [step].
    - destruct (denote s i) as [f|]; [|apply inv_fail; auto].
      destruct (denote s j) as [g|]; [|apply inv_fail; auto].
      destruct (pwc_add o f g) as [[xs ys]|e]; [|apply inv_fail; auto].
      rewrite alloc2_eq. apply inv_rebind; auto.
    - destruct (nth_error (st_objs s) i) as [ob|]; [|apply inv_fail; auto].
      destruct (sread (st_store s) (ry ob)) as [ys|] eqn:E; [|apply inv_fail; auto].
      apply inv_write; auto. eapply sread_lt; eauto.
    - destruct (denote s i) as [[xs ys]|]; [|apply inv_fail; auto].
      apply inv_new_obj; auto.
    - apply inv_new_obj; auto.
  Qed.

  Theorem inv_run_from : forall ops s, inv s -> inv (run o ops s).
  Proof.
    induction ops as [|p ops IH]; intros s I; [exact I|].
    cbn [run fold_left]. apply IH. apply inv_step; auto.
  Qed.

  Theorem inv_run : forall ops, inv (run o ops empty_state).
  Proof. intros ops. apply inv_run_from, inv_init. Qed.

  (* ---- frame lemmas ---- *)

  Lemma denote_fail s e k : denote (fail s e) k = denote s k.
  Proof. reflexivity. Qed.

  (* under the invariant an existing object denotes something *)
  Lemma denote_some s k ob : inv s -> nth_error (st_objs s) k = Some ob ->
    exists xs ys, sread (st_store s) (rx ob) = Some xs /\ sread (st_store s) (ry ob) = Some ys /\
                  denote s k = Some (xs, ys).
  Proof.
    intros [V _] H. destruct (V k ob H) as ([xs Hx] & [ys Hy] & _).
    exists xs, ys. repeat split; auto. unfold denote, read_obj. rewrite H, Hx, Hy. reflexivity.
  Qed.

  Lemma denote_lt s k f : denote s k = Some f -> (k < length (st_objs s))%nat.
  Proof.
    unfold denote. destruct (nth_error (st_objs s) k) eqn:E; [|discriminate].
    intros _. eapply nth_error_lt; eauto.
  Qed.

  Lemma denote_rebind_other s i k xs ys : inv s -> k <> i ->
    denote (mkState ((st_store s ++ [Some xs]) ++ [Some ys])
                    (upd (st_objs s) i (mkObj (length (st_store s)) (S (length (st_store s)))))
                    (st_errs s)) k = denote s k.
  Proof.
    intros [V _] N. unfold denote. cbn [st_store st_objs].
    rewrite nth_error_upd_neq by auto.
    destruct (nth_error (st_objs s) k) as [ob|] eqn:E; [|reflexivity].
    rewrite <- app_assoc. apply read_obj_app. eauto.
  Qed.

  Lemma denote_rebind_self s i xs ys : (i < length (st_objs s))%nat ->
    denote (mkState ((st_store s ++ [Some xs]) ++ [Some ys])
                    (upd (st_objs s) i (mkObj (length (st_store s)) (S (length (st_store s)))))
                    (st_errs s)) i = Some (xs, ys).
  Proof.
    intros L. unfold denote. cbn [st_store st_objs].
    rewrite nth_error_upd_eq by auto. apply read_obj_fresh.
  Qed.

  Lemma denote_new_obj_old s xs ys k : inv s -> (k < length (st_objs s))%nat ->
    denote (new_obj s xs ys) k = denote s k.
  Proof.
    intros [V _] L. unfold new_obj. rewrite alloc2_eq. unfold denote. cbn [st_store st_objs].
    rewrite nth_error_app1 by auto.
    destruct (nth_error (st_objs s) k) as [ob|] eqn:E; [|reflexivity].
    rewrite <- app_assoc. apply read_obj_app. eauto.
  Qed.

  Lemma denote_new_obj_new s xs ys :
    denote (new_obj s xs ys) (length (st_objs s)) = Some (xs, ys).
  Proof.
    unfold new_obj. rewrite alloc2_eq. unfold denote. cbn [st_store st_objs].
    rewrite nth_error_snoc_eq. apply read_obj_fresh.
  Qed.

  (* add: only the receiver changes; in particular the added operand j
     (whether or not i = j) and every other object keep their denotation *)
  Theorem frame_add : forall s i j k, inv s -> k <> i ->
    denote (step o (OAdd i j) s) k = denote s k.
  Proof.
    intros s i j k I N. cbn [step].
    destruct (denote s i) as [f|]; [|reflexivity].
    destruct (denote s j) as [g|]; [|reflexivity].
    destruct (pwc_add o f g) as [[xs ys]|e]; [|reflexivity].
    rewrite alloc2_eq. apply denote_rebind_other; auto.
  Qed.

  Corollary frame_add_operand : forall s i j, inv s -> i <> j ->
    denote (step o (OAdd i j) s) j = denote s j.
  Proof. intros. apply frame_add; auto. Qed.

  (* mul_scalar writes in place; disjointness makes the write invisible
     through every other object *)
  Theorem frame_mul : forall s i c k, inv s -> k <> i ->
    denote (step o (OMul i c) s) k = denote s k.
  Proof.
    intros s i c k [V D] N. cbn [step].
    destruct (nth_error (st_objs s) i) as [ob|] eqn:Ei; [|reflexivity].
    destruct (sread (st_store s) (ry ob)) as [ys|] eqn:Ey; [|reflexivity].
    unfold denote. cbn [st_store st_objs].
    destruct (nth_error (st_objs s) k) as [b|] eqn:Ek; [|reflexivity].
    destruct (D k i b ob N Ek Ei) as (_ & D2 & _ & D4).
    unfold read_obj. rewrite !sread_swrite_neq by auto. reflexivity.
  Qed.

  Lemma frame_copy : forall s i k, inv s -> (k < length (st_objs s))%nat ->
    denote (step o (OCopy i) s) k = denote s k.
  Proof.
    intros s i k I L. cbn [step]. destruct (denote s i) as [[xs ys]|]; [|reflexivity].
    apply denote_new_obj_old; auto.
  Qed.

  Lemma frame_new : forall s xs ys k, inv s -> (k < length (st_objs s))%nat ->
    denote (step o (ONew xs ys) s) k = denote s k.
  Proof. intros. cbn [step]. apply denote_new_obj_old; auto. Qed.

  Theorem frame_step : forall p s k, inv s -> (k < length (st_objs s))%nat ->
    op_target p <> Some k -> denote (step o p s) k = denote s k.
  Proof.
    intros p s k I L T. destruct p as [i j|i c|i|xs ys]; cbn [op_target] in T.
    - apply frame_add; auto; congruence.
    - apply frame_mul; auto; congruence.
    - apply frame_copy; auto.
    - apply frame_new; auto.
  Qed.

  Lemma length_new_obj s xs ys : length (st_objs (new_obj s xs ys)) = S (length (st_objs s)).
  Proof.
    unfold new_obj. rewrite alloc2_eq. cbn [st_objs]. rewrite app_length. cbn. lia.
  Qed.

  Lemma step_objs_mono p s : (length (st_objs s) <= length (st_objs (step o p s)))%nat.
  Proof.
    destruct p as [i j|i c|i|xs ys]; cbn [step].
    - destruct (denote s i) as [f|]; [|cbn; lia].
      destruct (denote s j) as [g|]; [|cbn; lia].
      destruct (pwc_add o f g) as [[xs ys]|e]; [|cbn; lia].
      rewrite alloc2_eq. cbn [st_objs]. rewrite upd_length. lia.
    - destruct (nth_error (st_objs s) i) as [ob|]; [|cbn; lia].
      destruct (sread (st_store s) (ry ob)); cbn; lia.
    - destruct (denote s i) as [[xs ys]|]; [|cbn; lia]. rewrite length_new_obj. lia.
    - rewrite length_new_obj. lia.
  Qed.

  (* no operation of the sequence has object n as its receiver *)
  Definition no_target (n : nat) (ops : list op) : Prop :=
    Forall (fun p => op_target p <> Some n) ops.

  Theorem frame_run : forall ops s n, inv s -> (n < length (st_objs s))%nat ->
    no_target n ops -> denote (run o ops s) n = denote s n.
  Proof.
    induction ops as [|p ops IH]; intros s n I L T; [reflexivity|].
    inversion T as [|? ? Tp Tr]; subst. cbn [run fold_left].
    change (denote (run o ops (step o p s)) n = denote s n).
    rewrite IH; auto.
    - apply frame_step; auto.
    - apply inv_step; auto.
    - pose proof (step_objs_mono p s). lia.
  Qed.

  (* copy() yields a new object n with the same denotation; afterwards any
     operation sequence that does not use n as receiver leaves n unchanged,
     and any sequence that does not use i as receiver (it may well modify the
     copy n) leaves the original i unchanged *)
  Theorem copy_independent : forall s i f, inv s -> denote s i = Some f ->
    let n := length (st_objs s) in
    let s' := step o (OCopy i) s in
    n <> i /\ denote s' n = Some f /\ denote s' i = Some f /\
    (forall ops, no_target n ops -> denote (run o ops s') n = Some f) /\
    (forall ops, no_target i ops -> denote (run o ops s') i = Some f).
  Proof.
    intros s i f I Hi n s'.
    pose proof (denote_lt _ _ _ Hi) as Li.
    assert (I' : inv s') by (apply inv_step; auto).
    assert (L' : length (st_objs s') = S n).
    { unfold s'. cbn [step]. rewrite Hi. destruct f as [xs ys]. apply length_new_obj. }
    assert (Hn : denote s' n = Some f).
    { unfold s'. cbn [step]. rewrite Hi. destruct f as [xs ys]. apply denote_new_obj_new. }
    assert (Hi' : denote s' i = Some f).
    { unfold s'. rewrite frame_copy; auto. }
    repeat split; auto.
    - unfold n. lia.
    - intros ops T. rewrite frame_run; auto. lia.
    - intros ops T. rewrite frame_run; auto. lia.
  Qed.

  (* ---- the heap model refines the value-level model ---- *)

  Definition abs_rel (s : state) (v : @vstate F) : Prop :=
    length (st_objs s) = length (fst v) /\
    (forall k, denote s k = nth_error (fst v) k) /\
    st_errs s = snd v.

  Lemma abs_rel_fail s v e : abs_rel s v -> abs_rel (fail s e) (vfail v e).
  Proof.
    intros (H1 & H2 & H3). repeat split; auto. cbn. rewrite H3. reflexivity.
  Qed.

  Lemma abs_rel_new s v xs ys : inv s -> abs_rel s v ->
    abs_rel (new_obj s xs ys) (fst v ++ [(xs, ys)], snd v).
  Proof.
    intros I (H1 & H2 & H3). repeat split; cbn [fst snd].
    - rewrite length_new_obj, app_length. cbn. lia.
    - intros k. destruct (Nat.lt_ge_cases k (length (st_objs s))) as [L|L].
      + rewrite denote_new_obj_old by auto. rewrite nth_error_app1 by lia. apply H2.
      + destruct (Nat.eq_dec k (length (st_objs s))) as [->|N].
        * rewrite denote_new_obj_new. rewrite H1, nth_error_snoc_eq. reflexivity.
        * assert (E : nth_error (fst v ++ [(xs, ys)]) k = None).
          { apply nth_error_None. rewrite app_length. cbn. lia. }
          rewrite E. unfold denote.
          assert (E' : nth_error (st_objs (new_obj s xs ys)) k = None).
          { apply nth_error_None. rewrite length_new_obj. lia. }
          rewrite E'. reflexivity.
    - unfold new_obj. rewrite alloc2_eq. exact H3.
  Qed.

  Theorem refines_step : forall p s v, inv s -> abs_rel s v ->
    abs_rel (step o p s) (vstep o p v).
  Proof.
    intros p s v I R. pose proof R as (H1 & H2 & H3).
    destruct p as [i j|i c|i|xs ys]; cbn [step vstep].
    - rewrite <- !H2.
      destruct (denote s i) as [f|] eqn:Ei; [|apply abs_rel_fail; auto].
      destruct (denote s j) as [g|] eqn:Ej; [|apply abs_rel_fail; auto].
      destruct (pwc_add o f g) as [[xs ys]|e]; [|apply abs_rel_fail; auto].
      rewrite alloc2_eq. pose proof (denote_lt _ _ _ Ei) as Li.
      repeat split; cbn [fst snd st_objs st_errs]; auto.
      + rewrite !upd_length. auto.
      + intros k. destruct (Nat.eq_dec k i) as [->|N].
        * rewrite denote_rebind_self by auto. rewrite nth_error_upd_eq by lia. reflexivity.
        * rewrite denote_rebind_other by auto. rewrite nth_error_upd_neq by auto. apply H2.
    - rewrite <- H2.
      destruct (nth_error (st_objs s) i) as [ob|] eqn:Ei.
      + destruct (denote_some s i ob I Ei) as (xs & ys & Hx & Hy & Hd).
        rewrite Hy, Hd. destruct I as [V D]. destruct (V i ob Ei) as (_ & _ & Nxy).
        pose proof (sread_lt _ _ _ Hy) as Ly. pose proof (nth_error_lt _ _ _ Ei) as Li.
        repeat split; cbn [fst snd st_objs st_errs]; auto.
        * rewrite upd_length. auto.
        * intros k. destruct (Nat.eq_dec k i) as [->|N].
          -- rewrite nth_error_upd_eq by lia. unfold denote. cbn [st_store st_objs].
             rewrite Ei. unfold read_obj. rewrite sread_swrite_eq by auto.
             rewrite sread_swrite_neq by auto. rewrite Hx. reflexivity.
          -- rewrite nth_error_upd_neq by auto. rewrite <- H2.
             pose proof (frame_mul s i c k (conj V D) N) as Fm. cbn [step] in Fm.
             rewrite Ei, Hy in Fm. exact Fm.
      + assert (E : denote s i = None) by (unfold denote; rewrite Ei; reflexivity).
        rewrite E. apply abs_rel_fail; auto.
    - rewrite <- H2. destruct (denote s i) as [[xs ys]|]; [|apply abs_rel_fail; auto].
      apply abs_rel_new; auto.
    - apply abs_rel_new; auto.
  Qed.

  Theorem refines_from : forall ops s v, inv s -> abs_rel s v ->
    abs_rel (run o ops s) (vrun o ops v).
  Proof.
    induction ops as [|p ops IH]; intros s v I R; [exact R|].
    cbn [run vrun fold_left]. apply IH; [apply inv_step; auto|apply refines_step; auto].
  Qed.

  Theorem refines : forall ops k,
    denote (run o ops empty_state) k = nth_error (fst (vrun o ops vempty)) k /\
    st_errs (run o ops empty_state) = snd (vrun o ops vempty).
  Proof.
    intros ops k.
    assert (R : abs_rel (@empty_state F) vempty).
    { repeat split; auto. intros [|n]; reflexivity. }
    destruct (refines_from ops _ _ inv_init R) as (_ & H2 & H3). auto.
  Qed.

End HeapLevel.

(* ================================================================== *)
(* Part C: value-level histories of piecewise-constant functions (R)    *)

(* ---- coefficient vectors (shorter vectors are implicitly 0-padded) ---- *)

Fixpoint vadd (u v : list R) : list R :=
  match u, v with
  | [], _ => v
  | _, [] => u
  | a :: u', b :: v' => (a + b) :: vadd u' v'
  end.
Definition vscale (c : R) (u : list R) : list R := map (fun a => a * c) u.
Fixpoint dot (u w : list R) : R :=
  match u, w with
  | a :: u', b :: w' => a * b + dot u' w'
  | _, _ => 0
  end.
Definition unitv (n : nat) : list R := repeat 0 n ++ [1].

Lemma dot_nil_r u : dot u [] = 0.
Proof. destruct u; reflexivity. Qed.

Lemma dot_vadd : forall u v w, dot (vadd u v) w = dot u w + dot v w.
Proof.
  induction u as [|a u IH]; intros v w; cbn [vadd dot]; [lra|].
  destruct v as [|b v]; [cbn [dot]; destruct w; lra|].
  destruct w as [|c w]; cbn [dot]; [lra|]. rewrite IH. ring.
Qed.

Lemma dot_vscale c : forall u w, dot (vscale c u) w = dot u w * c.
Proof.
  induction u as [|a u IH]; intros w; cbn [vscale map dot]; [lra|].
  destruct w as [|b w]; [lra|]. fold (vscale c u). rewrite IH. ring.
Qed.

Lemma dot_app_short : forall u w w', (length u <= length w)%nat -> dot u (w ++ w') = dot u w.
Proof.
  induction u as [|a u IH]; intros w w' H; [reflexivity|].
  destruct w as [|b w]; [cbn in H; lia|]. cbn [app dot]. rewrite IH; [reflexivity|cbn in H; lia].
Qed.

Lemma dot_unitv : forall k w, dot (unitv k) w = nth k w 0.
Proof.
  unfold unitv. induction k as [|k IH]; intros w; cbn [repeat app dot].
  - destruct w as [|b w]; cbn; [lra|]. lra.
  - destruct w as [|b w]; cbn [nth]; [reflexivity|]. rewrite IH. lra.
Qed.

Lemma vadd_length : forall u v, length (vadd u v) = Nat.max (length u) (length v).
Proof.
  induction u as [|a u IH]; intros v; [reflexivity|].
  destruct v as [|b v]; [cbn; lia|]. cbn [vadd length]. rewrite IH. lia.
Qed.

(* ---- Forall2 helpers ---- *)

Lemma F2_length {A B} (P : A -> B -> Prop) l1 l2 : Forall2 P l1 l2 -> length l1 = length l2.
Proof. induction 1; cbn; auto. Qed.

Lemma F2_impl {A B} (P Q : A -> B -> Prop) l1 l2 :
  (forall a b, P a b -> Q a b) -> Forall2 P l1 l2 -> Forall2 Q l1 l2.
Proof. intros H. induction 1; constructor; auto. Qed.

Lemma F2_nth_l {A B} (P : A -> B -> Prop) l1 l2 : Forall2 P l1 l2 ->
  forall i a, nth_error l1 i = Some a -> exists b, nth_error l2 i = Some b /\ P a b.
Proof.
  induction 1 as [|x y l1 l2 Hxy H IH]; intros [|i] a Hi; try discriminate.
  - injection Hi as <-. exists y. split; auto.
  - apply IH; auto.
Qed.

Lemma F2_upd {A B} (P : A -> B -> Prop) l1 l2 a b : Forall2 P l1 l2 -> P a b ->
  forall i, Forall2 P (upd l1 i a) (upd l2 i b).
Proof.
  induction 1 as [|x y l1 l2 Hxy H IH]; intros Hab [|i]; cbn [upd]; constructor; auto.
Qed.

Lemma F2_of_nth {A B} (P : A -> B -> Prop) : forall l1 l2, length l1 = length l2 ->
  (forall i a b, nth_error l1 i = Some a -> nth_error l2 i = Some b -> P a b) -> Forall2 P l1 l2.
Proof.
  induction l1 as [|x l1 IH]; intros [|y l2] HL H; try discriminate; constructor.
  - apply (H 0%nat); reflexivity.
  - apply IH; [cbn in HL; lia|]. intros i a b Ha Hb. apply (H (S i)); auto.
Qed.

Lemma F2_Forall_l {A B} (P : A -> B -> Prop) (Q : A -> Prop) l1 l2 :
  (forall a b, P a b -> Q a) -> Forall2 P l1 l2 -> Forall Q l1.
Proof. intros H. induction 1; constructor; eauto. Qed.

(* ---- small facts on piecewise-constant functions ---- *)

Lemma pwc_at_some xs : forall ys t, ssorted xs -> length xs = S (length ys) ->
  nthF ROps xs 0 < t < lastF ROps xs -> ~ In t xs -> exists v, pwc_at ROps xs ys t = Some v.
Proof.
  induction xs as [|a xs IH]; intros ys t Hs Hl Ht Hn; [discriminate|].
  destruct xs as [|b r].
  { rewrite nthF_0, lastF_one in Ht. lra. }
  destruct ys as [|y ys]; [cbn in Hl; lia|].
  rewrite pwc_at_cons2. rewrite nthF_0, lastF_cons2 in Ht.
  destruct (Rltb_spec a t) as [Ha|Ha]; [|lra].
  destruct (Rltb_spec t b) as [Hb|Hb]; cbn [andb]; [eauto|].
  apply IH.
  - eapply ssorted_tl; eauto.
  - cbn [length] in *. lia.
  - rewrite nthF_0. split; [|lra].
    destruct (Req_dec t b) as [->|N]; [exfalso; apply Hn; right; left; auto|lra].
  - intros Hc. apply Hn. right; auto.
Qed.

Lemma int_all_scale c xs : forall ys,
  pwc_int_all ROps xs (map (fun y => y * c) ys) = pwc_int_all ROps xs ys * c.
Proof.
  induction xs as [|a xs IH]; intros ys; [cbn; lra|].
  destruct xs as [|b r]; [cbn; lra|]. destruct ys as [|y ys]; [cbn; lra|].
  cbn [map]. rewrite !int_all_cons2, IH. ring.
Qed.

Lemma sorted_ends (l : list R) a b : ssorted l -> In a l -> In b l ->
  (forall z, In z l -> a <= z <= b) -> (2 <= length l)%nat -> nthF ROps l 0 = a /\ lastF ROps l = b.
Proof.
  intros Hs Ha Hb Hr H2. pose proof (ssorted_bounds l Hs) as B. rewrite Forall_forall in B.
  assert (I0 : In (nthF ROps l 0) l) by (apply nth_In; lia).
  assert (IL : In (lastF ROps l) l) by (rewrite lastF_nth; apply nth_In; lia).
  pose proof (B a Ha). pose proof (B b Hb). pose proof (Hr _ I0). pose proof (Hr _ IL).
  split; lra.
Qed.

Section PwcHistory.
  Variables x0 xn : R.

  Local Notation pwcR := (@pwc R).
  Local Notation opR := (@op R).

  (* well-formed function on [x0, xn] *)
  Definition good (f : pwcR) : Prop :=
    wf_pwc f /\ nthF ROps (fst f) 0 = x0 /\ lastF ROps (fst f) = xn.

  Definition valat (t : R) (b : pwcR) : R := optval (pwc_at ROps (fst b) (snd b) t).
  Definition intof (b : pwcR) : R := pwc_int_all ROps (fst b) (snd b).
  (* t is not a breakpoint of any base function *)
  Definition generic (B : list pwcR) (t : R) : Prop := forall b, In b B -> ~ In t (fst b).
  (* all breakpoints of the base functions with the listed indices *)
  Definition bps (B : list pwcR) (l : list nat) : list R :=
    flat_map (fun i => fst (nth i B ([], []))) l.

  (* symbolic description of an object: coefficient vector over the base
     functions and the (multi)set of base functions added into it *)
  Record info : Type := mkInfo { coef : list R; srcs : list nat }.

  (* symbolic state: base functions created so far, one info per object *)
  Definition tstate : Type := (list pwcR * list info)%type.
  Definition tempty : tstate := ([], []).
  Definition getinfo (t : tstate) (i : nat) : info := nth i (snd t) (mkInfo [] []).

  Definition tstep (p : opR) (t : tstate) : tstate :=
    match p with
    | ONew xs ys =>
        (fst t ++ [(xs, ys)],
         snd t ++ [mkInfo (unitv (length (fst t))) [length (fst t)]])
    | OCopy i => (fst t, snd t ++ [getinfo t i])
    | OAdd i j =>
        (fst t, upd (snd t) i
                    (mkInfo (vadd (coef (getinfo t i)) (coef (getinfo t j)))
                            (srcs (getinfo t i) ++ srcs (getinfo t j))))
    | OMul i c =>
        (fst t, upd (snd t) i (mkInfo (vscale c (coef (getinfo t i))) (srcs (getinfo t i))))
    end.
  Definition trun (ops : list opR) (t : tstate) : tstate :=
    fold_left (fun t p => tstep p t) ops t.

  (* the initial symbolic state for given base functions: unit vectors *)
  Definition tbases (bs : list pwcR) : tstate :=
    (bs, map (fun k => mkInfo (unitv k) [k]) (seq 0 (length bs))).

  (* admissible operations: object ids exist, constructed functions are good *)
  Definition op_ok (n : nat) (p : opR) : Prop :=
    match p with
    | OAdd i j => (i < n)%nat /\ (j < n)%nat
    | OMul i _ => (i < n)%nat
    | OCopy i => (i < n)%nat
    | ONew xs ys => good (xs, ys)
    end.
  Definition nobj_after (p : opR) (n : nat) : nat :=
    match p with OCopy _ | ONew _ _ => S n | _ => n end.
  Fixpoint ops_ok (n : nat) (ops : list opR) : Prop :=
    match ops with
    | [] => True
    | p :: r => op_ok n p /\ ops_ok (nobj_after p n) r
    end.

  (* function f is described by inf over the base functions B *)
  Definition rel (B : list pwcR) (f : pwcR) (inf : info) : Prop :=
    good f /\
    (length (coef inf) <= length B)%nat /\
    (forall t, x0 < t < xn -> generic B t ->
       pwc_at ROps (fst f) (snd f) t = Some (dot (coef inf) (map (valat t) B))) /\
    intof f = dot (coef inf) (map intof B) /\
    Forall (fun i => (i < length B)%nat) (srcs inf) /\
    fst f = sort_unique ROps (bps B (srcs inf)).

  Definition hinv (v : @vstate R) (t : tstate) : Prop :=
    snd v = [] /\ Forall good (fst t) /\ Forall2 (rel (fst t)) (fst v) (snd t).

  Lemma rel_intro B f inf :
    good f ->
    (length (coef inf) <= length B)%nat ->
    (forall t, x0 < t < xn -> generic B t ->
       pwc_at ROps (fst f) (snd f) t = Some (dot (coef inf) (map (valat t) B))) ->
    intof f = dot (coef inf) (map intof B) ->
    Forall (fun i => (i < length B)%nat) (srcs inf) ->
    fst f = sort_unique ROps (bps B (srcs inf)) ->
    rel B f inf.
  Proof. unfold rel. auto 10. Qed.

  (* ---- rel is preserved by the four operations ---- *)

  Lemma bps_in B l z : Forall (fun i => (i < length B)%nat) l -> In z (bps B l) ->
    exists b, In b B /\ In z (fst b).
  Proof.
    intros Hl Hz. apply in_flat_map in Hz as (i & Hi & Hz).
    rewrite Forall_forall in Hl. exists (nth i B ([], [])). split; auto. apply nth_In. auto.
  Qed.

  Lemma rel_generic B f inf t : rel B f inf -> generic B t -> ~ In t (fst f).
  Proof.
    intros (_ & _ & _ & _ & Hs & Hb) G Hc. rewrite Hb in Hc. apply (proj1 (sort_unique_In _ _)) in Hc.
    destruct (bps_in _ _ _ Hs Hc) as (b & Hb1 & Hb2). exact (G b Hb1 Hb2).
  Qed.

  Lemma good_add f g : good f -> good g -> good (pwc_add_spec ROps f g).
  Proof.
    intros (Wf & F0 & FL) (Wg & G0 & GL).
    assert (W : wf_pwc (pwc_add_spec ROps f g)) by (apply pwc_add_wf; auto; congruence).
    split; auto. destruct W as [[Hs H2] _]. rewrite pwc_add_spec_unfold in *. cbn [fst] in *.
    destruct (wf_first_in f Wf) as (I1 & I2 & _). rewrite F0 in I1. rewrite FL in I2.
    apply sorted_ends; auto.
    - apply sort_unique_In, in_or_app; auto.
    - apply sort_unique_In, in_or_app; auto.
    - intros z Hz. apply (proj1 (sort_unique_In _ _)) in Hz. apply in_app_or in Hz as [Hz|Hz].
      + pose proof (wf_in_range f Wf z Hz). lra.
      + pose proof (wf_in_range g Wg z Hz). lra.
  Qed.

  Lemma rel_add B f g a b : rel B f a -> rel B g b ->
    rel B (pwc_add_spec ROps f g) (mkInfo (vadd (coef a) (coef b)) (srcs a ++ srcs b)).
  Proof.
    intros Rf Rg. pose proof Rf as (Gf & Lf & Pf & If & Sf & Bf).
    pose proof Rg as (Gg & Lg & Pg & Ig & Sg & Bg).
    pose proof Gf as (Wf & F0 & FL). pose proof Gg as (Wg & G0 & GL).
    apply rel_intro; cbn [coef srcs].
    - apply good_add; auto.
    - rewrite vadd_length. lia.
    - intros t Ht G. destruct (wf_first_in f Wf) as (I1 & I2 & _).
      rewrite (add_spec_at f g t x0 xn); auto.
      + rewrite (Pf t Ht G), (Pg t Ht G). cbn [optsum nadd ROps]. rewrite dot_vadd. reflexivity.
      + apply in_or_app. left. congruence.
      + apply in_or_app. left. congruence.
      + intros Hc. apply in_app_or in Hc as [Hc|Hc].
        * exact (rel_generic _ _ _ _ Rf G Hc).
        * exact (rel_generic _ _ _ _ Rg G Hc).
    - unfold intof at 1. rewrite pwc_add_integral by (auto; congruence).
      fold (intof f). fold (intof g). rewrite If, Ig, dot_vadd. reflexivity.
    - apply Forall_app. split; auto.
    - rewrite pwc_add_spec_unfold. cbn [fst]. unfold bps. rewrite flat_map_app.
      fold (bps B (srcs a)). fold (bps B (srcs b)).
      apply sort_unique_char; [apply sort_unique_sorted|].
      intros z. rewrite sort_unique_In, !in_app_iff, Bf, Bg, !sort_unique_In. reflexivity.
  Qed.

  Lemma rel_mul B f a c : rel B f a ->
    rel B (pwc_mul ROps f c) (mkInfo (vscale c (coef a)) (srcs a)).
  Proof.
    intros (Gf & Lf & Pf & If & Sf & Bf). destruct Gf as ((Wx & Wl) & F0 & FL).
    apply rel_intro; unfold pwc_mul; cbn [coef srcs fst snd]; auto.
    - unfold good, wf_pwc. cbn [fst snd]. rewrite map_length. auto.
    - unfold vscale. rewrite map_length. auto.
    - intros t Ht G. cbn [nmul ROps]. rewrite pwc_at_map, (Pf t Ht G). cbn [option_map].
      rewrite dot_vscale. reflexivity.
    - unfold intof. cbn [fst snd nmul ROps]. rewrite int_all_scale, dot_vscale.
      unfold intof in If. rewrite If. reflexivity.
  Qed.

  Lemma bps_ext B b l : Forall (fun i => (i < length B)%nat) l -> bps (B ++ [b]) l = bps B l.
  Proof.
    induction 1 as [|i l Hi H IH]; [reflexivity|].
    unfold bps in *. cbn [flat_map]. rewrite IH, app_nth1 by auto. reflexivity.
  Qed.

  Lemma rel_ext B b f a : rel B f a -> rel (B ++ [b]) f a.
  Proof.
    intros (Gf & Lf & Pf & If & Sf & Bf). apply rel_intro; auto.
    - rewrite app_length. lia.
    - intros t Ht G. rewrite map_app, dot_app_short by (rewrite map_length; auto).
      apply Pf; auto. intros b' Hb'. apply G. apply in_or_app; auto.
    - rewrite map_app, dot_app_short by (rewrite map_length; auto). auto.
    - eapply Forall_impl; [|exact Sf]. cbn. intros i Hi. rewrite app_length. lia.
    - rewrite bps_ext; auto.
  Qed.

  Lemma rel_unit B k f : nth_error B k = Some f -> good f -> rel B f (mkInfo (unitv k) [k]).
  Proof.
    intros Hk Gf. pose proof (nth_error_lt _ _ _ Hk) as Lk.
    pose proof Gf as (((Hs & H2) & Hl) & F0 & FL).
    apply rel_intro; cbn [coef srcs].
    - exact Gf.
    - unfold unitv. rewrite app_length, repeat_length. cbn. lia.
    - intros t Ht G. rewrite dot_unitv.
      rewrite (nth_error_nth _ _ 0 (map_nth_error (valat t) _ _ Hk)).
      unfold valat. destruct (pwc_at_some (fst f) (snd f) t) as [v ->]; auto.
      + rewrite F0, FL. auto.
      + apply G. eapply nth_error_In; eauto.
    - rewrite dot_unitv. rewrite (nth_error_nth _ _ 0 (map_nth_error intof _ _ Hk)). reflexivity.
    - constructor; auto.
    - unfold bps. cbn [flat_map]. rewrite app_nil_r.
      rewrite (nth_error_nth B k ([], []) Hk).
      symmetry. apply sort_unique_char; auto. intros; reflexivity.
  Qed.

  Lemma getinfo_nth t i a : nth_error (snd t) i = Some a -> getinfo t i = a.
  Proof. intros H. unfold getinfo. apply nth_error_nth; auto. Qed.

  (* ---- one step ---- *)

  Lemma hinv_step p v t : hinv v t -> op_ok (length (fst v)) p ->
    hinv (vstep ROps p v) (tstep p t) /\
    length (fst (vstep ROps p v)) = nobj_after p (length (fst v)).
  Proof.
    intros (He & HB & H2) Hp. destruct p as [i j|i c|i|xs ys]; cbn [op_ok] in Hp;
      cbn [vstep tstep nobj_after].
    - destruct Hp as [Li Lj].
      destruct (nth_error (fst v) i) as [f|] eqn:Ei; [|apply nth_error_None in Ei; lia].
      destruct (nth_error (fst v) j) as [g|] eqn:Ej; [|apply nth_error_None in Ej; lia].
      destruct (F2_nth_l _ _ _ H2 i f Ei) as (a & Ea & Ra).
      destruct (F2_nth_l _ _ _ H2 j g Ej) as (b & Eb & Rb).
      pose proof Ra as ((Wf & F0 & FL) & _). pose proof Rb as ((Wg & G0 & GL) & _).
      rewrite pwc_add_eq_spec by (auto; congruence).
      rewrite (getinfo_nth _ _ _ Ea), (getinfo_nth _ _ _ Eb).
      split; [|cbn [fst]; apply upd_length].
      repeat split; cbn [fst snd]; auto.
      apply F2_upd; auto. apply rel_add; auto.
    - destruct (nth_error (fst v) i) as [f|] eqn:Ei; [|apply nth_error_None in Ei; lia].
      destruct (F2_nth_l _ _ _ H2 i f Ei) as (a & Ea & Ra).
      rewrite (getinfo_nth _ _ _ Ea).
      split; [|cbn [fst]; apply upd_length].
      repeat split; cbn [fst snd]; auto.
      apply F2_upd; auto. apply rel_mul; auto.
    - destruct (nth_error (fst v) i) as [f|] eqn:Ei; [|apply nth_error_None in Ei; lia].
      destruct (F2_nth_l _ _ _ H2 i f Ei) as (a & Ea & Ra).
      rewrite (getinfo_nth _ _ _ Ea).
      split; [|cbn [fst]; rewrite app_length; cbn; lia].
      repeat split; cbn [fst snd]; auto.
      apply Forall2_app; auto.
    - split; [|cbn [fst]; rewrite app_length; cbn; lia].
      repeat split; cbn [fst snd]; auto.
      + apply Forall_app. split; auto.
      + apply Forall2_app.
        * eapply F2_impl; [|exact H2]. intros f a. apply rel_ext.
        * constructor; [|constructor]. apply rel_unit; auto. apply nth_error_snoc_eq.
  Qed.

  Theorem hinv_run : forall ops v t, hinv v t -> ops_ok (length (fst v)) ops ->
    hinv (vrun ROps ops v) (trun ops t).
  Proof.
    induction ops as [|p ops IH]; intros v t H Ho; [exact H|].
    destruct Ho as [Hp Ho]. destruct (hinv_step p v t H Hp) as [H' L'].
    cbn [vrun trun fold_left]. apply IH; auto. rewrite L'. exact Ho.
  Qed.

  Lemma hinv_bases bs : Forall good bs -> hinv (bs, []) (tbases bs).
  Proof.
    intros Hb. unfold hinv, tbases. cbn [fst snd]. repeat split; auto.
    apply F2_of_nth.
    - rewrite map_length, seq_length. reflexivity.
    - intros i f a Hf Ha. pose proof (nth_error_lt _ _ _ Hf) as Li.
      assert (E : nth_error (map (fun k => mkInfo (unitv k) [k]) (seq 0 (length bs))) i
                  = Some (mkInfo (unitv i) [i])).
      { erewrite map_nth_error; [reflexivity|].
        rewrite (nth_error_nth' _ 0%nat) by (rewrite seq_length; auto).
        rewrite seq_nth by auto. reflexivity. }
      rewrite E in Ha. injection Ha as <-. apply rel_unit; auto.
      rewrite Forall_forall in Hb. apply Hb. eapply nth_error_In; eauto.
  Qed.

  (* the base functions of a run: the given ones and those created by ONew *)
  Definition news (ops : list opR) : list pwcR :=
    flat_map (fun p => match p with ONew xs ys => [(xs, ys)] | _ => [] end) ops.

  Lemma trun_bases : forall ops t, fst (trun ops t) = fst t ++ news ops.
  Proof.
    induction ops as [|p ops IH]; intros t; [cbn; rewrite app_nil_r; reflexivity|].
    cbn [trun fold_left]. change (fst (trun ops (tstep p t)) = fst t ++ news (p :: ops)).
    rewrite IH. destruct p; cbn [tstep fst news flat_map app]; auto.
    rewrite <- app_assoc. reflexivity.
  Qed.

  (* ---------------------------------------------------------------- *)
  (* the three history theorems                                        *)

  (* every function in every reachable state is well formed on [x0, xn]
     and no operation raises an error *)
  Theorem history_wf : forall bs ops, Forall good bs -> ops_ok (length bs) ops ->
    let v := vrun ROps ops (bs, []) in
    snd v = [] /\
    Forall (fun f => wf_pwc f /\ nthF ROps (fst f) 0 = x0 /\ lastF ROps (fst f) = xn) (fst v).
  Proof.
    intros bs ops Hb Ho v.
    destruct (hinv_run ops (bs, []) (tbases bs) (hinv_bases bs Hb) Ho) as (He & _ & H2).
    split; auto. eapply F2_Forall_l; [|exact H2]. intros f a Hr. apply Hr.
  Qed.

  (* every object is the linear combination of the base functions given by
     its symbolic coefficient vector: values away from base breakpoints, and
     the integral *)
  Theorem history_pointwise : forall bs ops, Forall good bs -> ops_ok (length bs) ops ->
    let v := vrun ROps ops (bs, []) in
    let tr := trun ops (tbases bs) in
    let B := bs ++ news ops in
    length (snd tr) = length (fst v) /\
    forall k f, nth_error (fst v) k = Some f ->
      exists inf, nth_error (snd tr) k = Some inf /\
        (length (coef inf) <= length B)%nat /\
        (forall t, x0 < t < xn -> generic B t ->
           pwc_at ROps (fst f) (snd f) t = Some (dot (coef inf) (map (valat t) B))) /\
        pwc_int_all ROps (fst f) (snd f) = dot (coef inf) (map intof B).
  Proof.
    intros bs ops Hb Ho v tr B.
    destruct (hinv_run ops (bs, []) (tbases bs) (hinv_bases bs Hb) Ho) as (He & _ & H2).
    fold v tr in H2. assert (EB : fst tr = B) by (unfold tr; rewrite trun_bases; reflexivity).
    rewrite EB in H2. split; [symmetry; eapply F2_length; eauto|].
    intros k f Hk. destruct (F2_nth_l _ _ _ H2 k f Hk) as (a & Ea & _ & Ra2 & Ra3 & Ra4 & _).
    exists a. repeat split; auto.
  Qed.

  (* at a generic time every base function has a value, so [valat] is the
     value of the base function *)
  Lemma valat_value B t b : Forall good B -> In b B -> x0 < t < xn -> generic B t ->
    pwc_at ROps (fst b) (snd b) t = Some (valat t b).
  Proof.
    intros HB Hb Ht G. rewrite Forall_forall in HB. destruct (HB b Hb) as (((Hs & H2) & Hl) & F0 & FL).
    unfold valat. destruct (pwc_at_some (fst b) (snd b) t) as [v ->]; auto.
    rewrite F0, FL. auto.
  Qed.

  (* breakpoints: strictly increasing, end points x0 and xn, and exactly the
     union of the breakpoints of the base functions added into the object
     (a base function scaled by 0 still contributes its breakpoints) *)
  Theorem history_breakpoints : forall bs ops, Forall good bs -> ops_ok (length bs) ops ->
    let v := vrun ROps ops (bs, []) in
    let tr := trun ops (tbases bs) in
    let B := bs ++ news ops in
    forall k f, nth_error (fst v) k = Some f ->
      exists inf, nth_error (snd tr) k = Some inf /\
        Forall (fun i => (i < length B)%nat) (srcs inf) /\
        fst f = sort_unique ROps (bps B (srcs inf)) /\
        ssorted (fst f) /\ nthF ROps (fst f) 0 = x0 /\ lastF ROps (fst f) = xn /\
        (forall z, In z (fst f) <->
           exists i, In i (srcs inf) /\ In z (fst (nth i B ([], [])))).
  Proof.
    intros bs ops Hb Ho v tr B k f Hk.
    destruct (hinv_run ops (bs, []) (tbases bs) (hinv_bases bs Hb) Ho) as (He & _ & H2).
    fold v tr in H2. assert (EB : fst tr = B) by (unfold tr; rewrite trun_bases; reflexivity).
    rewrite EB in H2.
    destruct (F2_nth_l _ _ _ H2 k f Hk) as (a & Ea & Ga & _ & _ & _ & Sa & Ba).
    exists a. destruct Ga as (((Hs & _) & _) & F0 & FL). repeat split; auto.
    - rewrite Ba at 1. intros Hz. apply (proj1 (sort_unique_In _ _)) in Hz. apply in_flat_map in Hz. exact Hz.
    - intros Hz. rewrite Ba. apply sort_unique_In. apply in_flat_map. exact Hz.
  Qed.

  (* how the symbolic descriptions evolve (by definition of [tstep]) *)
  Lemma tstep_add t i j : tstep (OAdd i j) t =
    (fst t, upd (snd t) i (mkInfo (vadd (coef (getinfo t i)) (coef (getinfo t j)))
                                  (srcs (getinfo t i) ++ srcs (getinfo t j)))).
  Proof. reflexivity. Qed.
  Lemma tstep_mul t i c : tstep (OMul i c) t =
    (fst t, upd (snd t) i (mkInfo (vscale c (coef (getinfo t i))) (srcs (getinfo t i)))).
  Proof. reflexivity. Qed.
  Lemma tstep_copy t i : tstep (OCopy i) t = (fst t, snd t ++ [getinfo t i]).
  Proof. reflexivity. Qed.
  Lemma tstep_new t xs ys : tstep (ONew xs ys) t =
    (fst t ++ [(xs, ys)], snd t ++ [mkInfo (unitv (length (fst t))) [length (fst t)]]).
  Proof. reflexivity. Qed.

End PwcHistory.

(* ================================================================== *)
(* Part D: value-level histories of piecewise-linear functions          *)

Module P := Lem_Pwl.

(* ---- limits of a function given on a refinement ---- *)

Lemma pwl_right_pieces (Fl Gr : R * R -> R) bs : ssorted bs -> forall a b t,
  In (a, b) (pieces bs) -> a <= t < b ->
  pwl_right ROps bs (map Fl (pieces bs)) (map Gr (pieces bs)) t
  = Some (lin ROps a b (Fl (a, b)) (Gr (a, b)) t).
Proof.
  induction bs as [|u [|v r] IH]; intros Hs a b t Hq Ht; [destruct Hq|destruct Hq|].
  rewrite pieces_cons2 in *. cbn [map]. rewrite P.pwl_right_cons. destruct Hq as [E|Hq].
  - injection E as -> ->. rewrite P.nleb_t, P.Rltb_t by lra. reflexivity.
  - pose proof (ssorted_tl _ _ Hs) as Hs1.
    destruct (P.pieces_in _ a b Hs1 Hq) as (_ & Ia & _ & _).
    pose proof (P.ssorted_head_min v r a Hs1 Ia).
    rewrite (P.Rltb_f t v) by lra. rewrite andb_false_r. apply IH; auto.
Qed.

Lemma pwl_left_pieces (Fl Gr : R * R -> R) bs : ssorted bs -> forall a b t,
  In (a, b) (pieces bs) -> a < t <= b ->
  pwl_left ROps bs (map Fl (pieces bs)) (map Gr (pieces bs)) t
  = Some (lin ROps a b (Fl (a, b)) (Gr (a, b)) t).
Proof.
  induction bs as [|u [|v r] IH]; intros Hs a b t Hq Ht; [destruct Hq|destruct Hq|].
  rewrite pieces_cons2 in *. cbn [map]. rewrite P.pwl_left_cons. destruct Hq as [E|Hq].
  - injection E as -> ->. rewrite P.nleb_t, P.Rltb_t by lra. reflexivity.
  - pose proof (ssorted_tl _ _ Hs) as Hs1.
    destruct (P.pieces_in _ a b Hs1 Hq) as (_ & Ia & _ & _).
    pose proof (P.ssorted_head_min v r a Hs1 Ia).
    rewrite (P.nleb_f t v) by lra. rewrite andb_false_r. apply IH; auto.
Qed.

Lemma locate_r bs : ssorted bs -> forall t, nthF ROps bs 0 <= t < lastF ROps bs ->
  exists a b, In (a, b) (pieces bs) /\ a <= t < b.
Proof.
  induction bs as [|u [|v r] IH]; intros Hs t Ht.
  - cbn in Ht. lra.
  - rewrite nthF_0, lastF_one in Ht. lra.
  - rewrite nthF_0, lastF_cons2 in Ht. rewrite pieces_cons2.
    destruct (Rlt_le_dec t v) as [L|L].
    + exists u, v. split; [left; auto|lra].
    + destruct (IH (ssorted_tl _ _ Hs) t) as (a & b & Hq & Hab).
      * rewrite nthF_0. lra.
      * exists a, b. split; auto. right; auto.
Qed.

Lemma locate_l bs : ssorted bs -> forall t, nthF ROps bs 0 < t <= lastF ROps bs ->
  exists a b, In (a, b) (pieces bs) /\ a < t <= b.
Proof.
  induction bs as [|u [|v r] IH]; intros Hs t Ht.
  - cbn in Ht. lra.
  - rewrite nthF_0, lastF_one in Ht. lra.
  - rewrite nthF_0, lastF_cons2 in Ht. rewrite pieces_cons2.
    destruct (Rle_lt_dec t v) as [L|L].
    + exists u, v. split; [left; auto|lra].
    + destruct (IH (ssorted_tl _ _ Hs) t) as (a & b & Hq & Hab).
      * rewrite nthF_0. lra.
      * exists a, b. split; auto. right; auto.
Qed.

(* an affine function re-interpolated between two of its values *)
Lemma lin_relin X0 X1 Ya Yb a b t : X0 < X1 -> a < b ->
  lin ROps a b (lin ROps X0 X1 Ya Yb a) (lin ROps X0 X1 Ya Yb b) t = lin ROps X0 X1 Ya Yb t.
Proof. intros H1 H2. rewrite !P.lin_R. field. lra. Qed.

(* on a piece of a refinement the function is one affine function *)
Lemma pwl_piece_lin xs y1 y2 bs a b : wf_pwl (xs, y1, y2) -> ssorted bs ->
  (forall x, In x xs -> In x bs) ->
  (forall x, In x bs -> nth 0 xs 0 <= x /\ x <= last xs 0) ->
  In (a, b) (pieces bs) ->
  exists X0 X1 Ya Yb, X0 < X1 /\
    (forall t, a <= t < b -> pwl_right ROps xs y1 y2 t = Some (lin ROps X0 X1 Ya Yb t)) /\
    (forall t, a < t <= b -> pwl_left ROps xs y1 y2 t = Some (lin ROps X0 X1 Ya Yb t)).
Proof.
  intros W Sb Sub Rng Hp. apply P.wf_pwl_inv in W as (Ss & Hn & L1 & L2).
  destruct (P.pieces_in bs a b Sb Hp) as (Hab & Ia & Ib & Cons).
  destruct (Rng a Ia) as [A1 A2]. destruct (Rng b Ib) as [B1 B2].
  destruct (P.locate xs a Ss Hn A1 ltac:(lra)) as (k & K & Ka & Kb).
  assert (Hb : b <= nth (S k) xs 0).
  { destruct (Cons (nth (S k) xs 0)); [apply Sub, nth_In; lia | lra | auto]. }
  exists (nth k xs 0), (nth (S k) xs 0), (nth k y1 0), (nth k y2 0). split; [lra|]. split.
  - intros t Ht. apply P.pwl_right_at; auto; try lia; lra.
  - intros t Ht. apply P.pwl_left_at; auto; try lia; lra.
Qed.

Lemma pwl_right_some xs y1 y2 t : wf_pwl (xs, y1, y2) ->
  nthF ROps xs 0 <= t < lastF ROps xs -> exists v, pwl_right ROps xs y1 y2 t = Some v.
Proof.
  intros W Ht. pose proof W as W'. apply P.wf_pwl_inv in W' as (Ss & Hn & L1 & L2).
  destruct (locate_r xs Ss t Ht) as (a & b & Hq & Hab).
  destruct (pwl_piece_lin xs y1 y2 xs a b W Ss) as (X0 & X1 & Ya & Yb & _ & Hr & _); auto.
  - intros x Hx. split; [apply P.nth0_min; auto|].
    rewrite P.last_nth. apply P.nth_last_max; auto.
  - eauto.
Qed.

Lemma pwl_left_some xs y1 y2 t : wf_pwl (xs, y1, y2) ->
  nthF ROps xs 0 < t <= lastF ROps xs -> exists v, pwl_left ROps xs y1 y2 t = Some v.
Proof.
  intros W Ht. pose proof W as W'. apply P.wf_pwl_inv in W' as (Ss & Hn & L1 & L2).
  destruct (locate_l xs Ss t Ht) as (a & b & Hq & Hab).
  destruct (pwl_piece_lin xs y1 y2 xs a b W Ss) as (X0 & X1 & Ya & Yb & _ & _ & Hl); auto.
  - intros x Hx. split; [apply P.nth0_min; auto|].
    rewrite P.last_nth. apply P.nth_last_max; auto.
  - eauto.
Qed.

Lemma pwl_int_all_scale c xs : forall y1 y2,
  pwl_int_all ROps xs (map (fun y => y * c) y1) (map (fun y => y * c) y2)
  = pwl_int_all ROps xs y1 y2 * c.
Proof.
  induction xs as [|a xs IH]; intros y1 y2; [cbn; lra|].
  destruct xs as [|b r]; [cbn; lra|].
  destruct y1 as [|u y1]; [cbn [map]; rewrite !P.int_all_nil1; lra|].
  destruct y2 as [|w y2]; [cbn [map]; rewrite !P.int_all_nil2; lra|].
  cbn [map]. rewrite !P.int_all_cons, IH. field.
Qed.

Lemma lin_add a b p q r s t : a < b ->
  lin ROps a b (p + q) (r + s) t = lin ROps a b p r t + lin ROps a b q s t.
Proof. intros H. rewrite !P.lin_R. field. lra. Qed.

(* the sum specification: breakpoints, end points, one-sided limits *)
Lemma pwl_add_spec_limits f g x0 xn : wf_pwl f -> wf_pwl g ->
  nthF ROps (fst (fst f)) 0 = x0 -> lastF ROps (fst (fst f)) = xn ->
  nthF ROps (fst (fst g)) 0 = x0 -> lastF ROps (fst (fst g)) = xn ->
  let h := pwl_add_spec ROps f g in
  fst (fst h) = sort_unique ROps (fst (fst f) ++ fst (fst g)) /\
  nthF ROps (fst (fst h)) 0 = x0 /\ lastF ROps (fst (fst h)) = xn /\
  (forall t rf rg, x0 <= t < xn ->
     pwl_right ROps (fst (fst f)) (snd (fst f)) (snd f) t = Some rf ->
     pwl_right ROps (fst (fst g)) (snd (fst g)) (snd g) t = Some rg ->
     pwl_right ROps (fst (fst h)) (snd (fst h)) (snd h) t = Some (rf + rg)) /\
  (forall t lf lg, x0 < t <= xn ->
     pwl_left ROps (fst (fst f)) (snd (fst f)) (snd f) t = Some lf ->
     pwl_left ROps (fst (fst g)) (snd (fst g)) (snd g) t = Some lg ->
     pwl_left ROps (fst (fst h)) (snd (fst h)) (snd h) t = Some (lf + lg)).
Proof.
  intros W1 W2 F0 FL G0 GL h.
  pose proof (P.pwl_add_spec_wf f g W1) as Wh. fold h in Wh.
  destruct f as [[x1 a1] b1]. destruct g as [[x2 a2] b2]. cbn [fst snd] in *.
  unfold pwl_add_spec in h. cbn [fst snd] in h.
  pose proof W1 as W1'. pose proof W2 as W2'.
  apply P.wf_pwl_inv in W1' as (Ss1 & Hn1 & La1 & Lb1).
  apply P.wf_pwl_inv in W2' as (Ss2 & Hn2 & La2 & Lb2).
  set (bs := sort_unique ROps (x1 ++ x2)) in *.
  assert (Sb : ssorted bs) by apply sort_unique_sorted.
  assert (Ib : forall x, In x bs <-> In x x1 \/ In x x2).
  { intros x. unfold bs. rewrite sort_unique_In, in_app_iff. tauto. }
  change (nth 0 x1 0 = x0) in F0. change (last x1 0 = xn) in FL.
  change (nth 0 x2 0 = x0) in G0. change (last x2 0 = xn) in GL.
  assert (R1 : forall x, In x x1 -> nth 0 x1 0 <= x /\ x <= last x1 0).
  { intros x Hx. split; [apply P.nth0_min; auto | rewrite P.last_nth; apply P.nth_last_max; auto]. }
  assert (R2 : forall x, In x x2 -> nth 0 x2 0 <= x /\ x <= last x2 0).
  { intros x Hx. split; [apply P.nth0_min; auto | rewrite P.last_nth; apply P.nth_last_max; auto]. }
  assert (Rb : forall x, In x bs -> x0 <= x <= xn).
  { intros x Hx. apply Ib in Hx. destruct Hx as [Hx|Hx]; [apply R1 in Hx|apply R2 in Hx]; lra. }
  assert (I0 : In x0 bs) by (apply Ib; left; rewrite <- F0; apply nth_In; lia).
  assert (IT : In xn bs).
  { apply Ib; left. rewrite <- FL, P.last_nth. apply nth_In; lia. }
  assert (Lb : (2 <= length bs)%nat) by (destruct Wh as [[_ Hl] _]; exact Hl).
  destruct (sorted_ends bs x0 xn Sb I0 IT Rb Lb) as [E0 EL].
  unfold h. cbn [fst snd]. split; [reflexivity|]. split; [exact E0|]. split; [exact EL|].
  assert (Sub1 : forall x, In x x1 -> In x bs) by (intros; apply Ib; auto).
  assert (Sub2 : forall x, In x x2 -> In x bs) by (intros; apply Ib; auto).
  assert (Rg1 : forall x, In x bs -> nth 0 x1 0 <= x /\ x <= last x1 0).
  { intros x Hx. apply Rb in Hx. lra. }
  assert (Rg2 : forall x, In x bs -> nth 0 x2 0 <= x /\ x <= last x2 0).
  { intros x Hx. apply Rb in Hx. lra. }
  split.
  - intros t rf rg Ht Hf Hg.
    destruct (locate_r bs Sb t) as (a & b & Hq & Hab); [rewrite E0, EL; auto|].
    destruct (P.pieces_in bs a b Sb Hq) as (Lab & _).
    rewrite (pwl_right_pieces _ _ bs Sb a b t Hq Hab). cbn [fst snd].
    destruct (pwl_piece_lin x1 a1 b1 bs a b W1 Sb Sub1 Rg1 Hq) as (X0 & X1 & Ya & Yb & HX & Hr1 & Hl1).
    destruct (pwl_piece_lin x2 a2 b2 bs a b W2 Sb Sub2 Rg2 Hq) as (X0' & X1' & Ya' & Yb' & HX' & Hr2 & Hl2).
    rewrite (Hr1 a), (Hr2 a), (Hl1 b), (Hl2 b) by lra.
    rewrite (Hr1 t Hab) in Hf. rewrite (Hr2 t Hab) in Hg. injection Hf as <-. injection Hg as <-.
    cbn [optsum nadd ROps]. rewrite lin_add by auto. rewrite !lin_relin by auto. reflexivity.
  - intros t lf lg Ht Hf Hg.
    destruct (locate_l bs Sb t) as (a & b & Hq & Hab); [rewrite E0, EL; auto|].
    destruct (P.pieces_in bs a b Sb Hq) as (Lab & _).
    rewrite (pwl_left_pieces _ _ bs Sb a b t Hq Hab). cbn [fst snd].
    destruct (pwl_piece_lin x1 a1 b1 bs a b W1 Sb Sub1 Rg1 Hq) as (X0 & X1 & Ya & Yb & HX & Hr1 & Hl1).
    destruct (pwl_piece_lin x2 a2 b2 bs a b W2 Sb Sub2 Rg2 Hq) as (X0' & X1' & Ya' & Yb' & HX' & Hr2 & Hl2).
    rewrite (Hr1 a), (Hr2 a), (Hl1 b), (Hl2 b) by lra.
    rewrite (Hl1 t Hab) in Hf. rewrite (Hl2 t Hab) in Hg. injection Hf as <-. injection Hg as <-.
    cbn [optsum nadd ROps]. rewrite lin_add by auto. rewrite !lin_relin by auto. reflexivity.
Qed.

Section PwlHistory.
  Variables x0 xn : R.

  Local Notation pwlR := (@pwl R).
  Local Notation lopR := (@lop R).

  Definition xs_of (f : pwlR) : list R := fst (fst f).
  Definition rlim_of (f : pwlR) (t : R) : option R :=
    pwl_right ROps (fst (fst f)) (snd (fst f)) (snd f) t.
  Definition llim_of (f : pwlR) (t : R) : option R :=
    pwl_left ROps (fst (fst f)) (snd (fst f)) (snd f) t.

  Definition good_l (f : pwlR) : Prop :=
    wf_pwl f /\ nthF ROps (xs_of f) 0 = x0 /\ lastF ROps (xs_of f) = xn.

  Definition rlim (t : R) (b : pwlR) : R := optval (rlim_of b t).
  Definition llim (t : R) (b : pwlR) : R := optval (llim_of b t).
  Definition intof_l (b : pwlR) : R := pwl_int_all ROps (fst (fst b)) (snd (fst b)) (snd b).
  Definition bps_l (B : list pwlR) (l : list nat) : list R :=
    flat_map (fun i => xs_of (nth i B ([], [], []))) l.

  Definition ltstate : Type := (list pwlR * list info)%type.
  Definition lgetinfo (t : ltstate) (i : nat) : info := nth i (snd t) (mkInfo [] []).

  Definition ltstep (p : lopR) (t : ltstate) : ltstate :=
    match p with
    | LNew xs y1s y2s =>
        (fst t ++ [(xs, y1s, y2s)],
         snd t ++ [mkInfo (unitv (length (fst t))) [length (fst t)]])
    | LCopy i => (fst t, snd t ++ [lgetinfo t i])
    | LAdd i j =>
        (fst t, upd (snd t) i
                    (mkInfo (vadd (coef (lgetinfo t i)) (coef (lgetinfo t j)))
                            (srcs (lgetinfo t i) ++ srcs (lgetinfo t j))))
    | LMul i c =>
        (fst t, upd (snd t) i (mkInfo (vscale c (coef (lgetinfo t i))) (srcs (lgetinfo t i))))
    end.
  Definition ltrun (ops : list lopR) (t : ltstate) : ltstate :=
    fold_left (fun t p => ltstep p t) ops t.

  Definition ltbases (bs : list pwlR) : ltstate :=
    (bs, map (fun k => mkInfo (unitv k) [k]) (seq 0 (length bs))).

  Definition lop_ok (n : nat) (p : lopR) : Prop :=
    match p with
    | LAdd i j => (i < n)%nat /\ (j < n)%nat
    | LMul i _ => (i < n)%nat
    | LCopy i => (i < n)%nat
    | LNew xs y1s y2s => good_l (xs, y1s, y2s)
    end.
  Definition lnobj_after (p : lopR) (n : nat) : nat :=
    match p with LCopy _ | LNew _ _ _ => S n | _ => n end.
  Fixpoint lops_ok (n : nat) (ops : list lopR) : Prop :=
    match ops with
    | [] => True
    | p :: r => lop_ok n p /\ lops_ok (lnobj_after p n) r
    end.

  Definition rel_l (B : list pwlR) (f : pwlR) (inf : info) : Prop :=
    good_l f /\
    (length (coef inf) <= length B)%nat /\
    (forall t, x0 <= t < xn -> rlim_of f t = Some (dot (coef inf) (map (rlim t) B))) /\
    (forall t, x0 < t <= xn -> llim_of f t = Some (dot (coef inf) (map (llim t) B))) /\
    intof_l f = dot (coef inf) (map intof_l B) /\
    Forall (fun i => (i < length B)%nat) (srcs inf) /\
    xs_of f = sort_unique ROps (bps_l B (srcs inf)).

  Lemma rel_l_intro B f inf :
    good_l f ->
    (length (coef inf) <= length B)%nat ->
    (forall t, x0 <= t < xn -> rlim_of f t = Some (dot (coef inf) (map (rlim t) B))) ->
    (forall t, x0 < t <= xn -> llim_of f t = Some (dot (coef inf) (map (llim t) B))) ->
    intof_l f = dot (coef inf) (map intof_l B) ->
    Forall (fun i => (i < length B)%nat) (srcs inf) ->
    xs_of f = sort_unique ROps (bps_l B (srcs inf)) ->
    rel_l B f inf.
  Proof. unfold rel_l. auto 10. Qed.

  Definition lhinv (v : @lstate R) (t : ltstate) : Prop :=
    snd v = [] /\ Forall good_l (fst t) /\ Forall2 (rel_l (fst t)) (fst v) (snd t).

  Lemma rel_l_add B f g a b : rel_l B f a -> rel_l B g b ->
    rel_l B (pwl_add_spec ROps f g) (mkInfo (vadd (coef a) (coef b)) (srcs a ++ srcs b)).
  Proof.
    intros (Gf & Lf & Pf & Qf & If & Sf & Bf) (Gg & Lg & Pg & Qg & Ig & Sg & Bg).
    pose proof Gf as (Wf & F0 & FL). pose proof Gg as (Wg & G0 & GL).
    destruct (pwl_add_spec_limits f g x0 xn Wf Wg F0 FL G0 GL) as (Hx & H0 & HL & Hr & Hl).
    apply rel_l_intro; cbn [coef srcs].
    - split; [apply P.pwl_add_spec_wf; auto|]. split; auto.
    - rewrite vadd_length. lia.
    - intros t Ht. unfold rlim_of. rewrite (Hr t _ _ Ht (Pf t Ht) (Pg t Ht)).
      rewrite dot_vadd. reflexivity.
    - intros t Ht. unfold llim_of. rewrite (Hl t _ _ Ht (Qf t Ht) (Qg t Ht)).
      rewrite dot_vadd. reflexivity.
    - unfold intof_l at 1.
      pose proof (P.pwl_add_integral f g Wf Wg) as HI. cbv zeta in HI.
      rewrite HI by (unfold xs_of in *; congruence).
      fold (intof_l f). fold (intof_l g). rewrite If, Ig, dot_vadd. reflexivity.
    - apply Forall_app. split; auto.
    - unfold xs_of at 1. rewrite Hx. unfold bps_l. rewrite flat_map_app.
      fold (bps_l B (srcs a)). fold (bps_l B (srcs b)). fold (xs_of f). fold (xs_of g).
      apply sort_unique_char; [apply sort_unique_sorted|].
      intros z. rewrite sort_unique_In, !in_app_iff, Bf, Bg, !sort_unique_In. reflexivity.
  Qed.

  Lemma rel_l_mul B f a c : rel_l B f a ->
    rel_l B (pwl_mul ROps f c) (mkInfo (vscale c (coef a)) (srcs a)).
  Proof.
    intros (Gf & Lf & Pf & Qf & If & Sf & Bf). destruct Gf as (Wf & F0 & FL).
    destruct f as [[xs y1] y2]. unfold xs_of in *. cbn [fst snd] in *.
    apply P.wf_pwl_inv in Wf as (Ss & Hn & L1 & L2).
    apply rel_l_intro; unfold pwl_mul; cbn [coef srcs fst snd nmul ROps]; auto.
    - unfold good_l, wf_pwl, wf_x, xs_of. cbn [fst snd]. rewrite !map_length. auto.
    - unfold vscale. rewrite map_length. auto.
    - intros t Ht. unfold rlim_of in *. cbn [fst snd] in *.
      rewrite P.pwl_mul_right, (Pf t Ht). cbn [option_map]. rewrite dot_vscale. f_equal. ring.
    - intros t Ht. unfold llim_of in *. cbn [fst snd] in *.
      rewrite P.pwl_mul_left, (Qf t Ht). cbn [option_map]. rewrite dot_vscale. f_equal. ring.
    - unfold intof_l in *. cbn [fst snd] in *.
      rewrite pwl_int_all_scale, dot_vscale, If. reflexivity.
  Qed.

  Lemma bps_l_ext B b l : Forall (fun i => (i < length B)%nat) l -> bps_l (B ++ [b]) l = bps_l B l.
  Proof.
    induction 1 as [|i l Hi H IH]; [reflexivity|].
    unfold bps_l in *. cbn [flat_map]. rewrite IH, app_nth1 by auto. reflexivity.
  Qed.

  Lemma rel_l_ext B b f a : rel_l B f a -> rel_l (B ++ [b]) f a.
  Proof.
    intros (Gf & Lf & Pf & Qf & If & Sf & Bf). apply rel_l_intro; auto.
    - rewrite app_length. lia.
    - intros t Ht. rewrite map_app, dot_app_short by (rewrite map_length; auto). auto.
    - intros t Ht. rewrite map_app, dot_app_short by (rewrite map_length; auto). auto.
    - rewrite map_app, dot_app_short by (rewrite map_length; auto). auto.
    - eapply Forall_impl; [|exact Sf]. cbn. intros i Hi. rewrite app_length. lia.
    - rewrite bps_l_ext; auto.
  Qed.

  Lemma rel_l_unit B k f : nth_error B k = Some f -> good_l f -> rel_l B f (mkInfo (unitv k) [k]).
  Proof.
    intros Hk Gf. pose proof (nth_error_lt _ _ _ Hk) as Lk.
    pose proof Gf as (Wf & F0 & FL).
    apply rel_l_intro; cbn [coef srcs].
    - exact Gf.
    - unfold unitv. rewrite app_length, repeat_length. cbn. lia.
    - intros t Ht. rewrite dot_unitv.
      rewrite (nth_error_nth _ _ 0 (map_nth_error (rlim t) _ _ Hk)).
      unfold rlim, rlim_of. destruct f as [[xs y1] y2]. unfold xs_of in *. cbn [fst snd] in *.
      destruct (pwl_right_some xs y1 y2 t Wf) as [v ->]; [rewrite F0, FL; auto|reflexivity].
    - intros t Ht. rewrite dot_unitv.
      rewrite (nth_error_nth _ _ 0 (map_nth_error (llim t) _ _ Hk)).
      unfold llim, llim_of. destruct f as [[xs y1] y2]. unfold xs_of in *. cbn [fst snd] in *.
      destruct (pwl_left_some xs y1 y2 t Wf) as [v ->]; [rewrite F0, FL; auto|reflexivity].
    - rewrite dot_unitv. rewrite (nth_error_nth _ _ 0 (map_nth_error intof_l _ _ Hk)). reflexivity.
    - constructor; auto.
    - unfold bps_l. cbn [flat_map]. rewrite app_nil_r.
      rewrite (nth_error_nth B k ([], [], []) Hk).
      symmetry. apply sort_unique_char; [apply Wf|]. intros; reflexivity.
  Qed.

  Lemma lgetinfo_nth t i a : nth_error (snd t) i = Some a -> lgetinfo t i = a.
  Proof. intros H. unfold lgetinfo. apply nth_error_nth; auto. Qed.

  Lemma lhinv_step p v t : lhinv v t -> lop_ok (length (fst v)) p ->
    lhinv (lstep ROps p v) (ltstep p t) /\
    length (fst (lstep ROps p v)) = lnobj_after p (length (fst v)).
  Proof.
    intros (He & HB & H2) Hp. destruct p as [i j|i c|i|xs y1s y2s]; cbn [lop_ok] in Hp;
      cbn [lstep ltstep lnobj_after].
    - destruct Hp as [Li Lj].
      destruct (nth_error (fst v) i) as [f|] eqn:Ei; [|apply nth_error_None in Ei; lia].
      destruct (nth_error (fst v) j) as [g|] eqn:Ej; [|apply nth_error_None in Ej; lia].
      destruct (F2_nth_l _ _ _ H2 i f Ei) as (a & Ea & Ra).
      destruct (F2_nth_l _ _ _ H2 j g Ej) as (b & Eb & Rb).
      pose proof Ra as ((Wf & F0 & FL) & _). pose proof Rb as ((Wg & G0 & GL) & _).
      rewrite P.pwl_add_eq_spec by (unfold xs_of in *; auto; congruence).
      rewrite (lgetinfo_nth _ _ _ Ea), (lgetinfo_nth _ _ _ Eb).
      split; [|cbn [fst]; apply upd_length].
      repeat split; cbn [fst snd]; auto.
      apply F2_upd; auto. apply rel_l_add; auto.
    - destruct (nth_error (fst v) i) as [f|] eqn:Ei; [|apply nth_error_None in Ei; lia].
      destruct (F2_nth_l _ _ _ H2 i f Ei) as (a & Ea & Ra).
      rewrite (lgetinfo_nth _ _ _ Ea).
      split; [|cbn [fst]; apply upd_length].
      repeat split; cbn [fst snd]; auto.
      apply F2_upd; auto. apply rel_l_mul; auto.
    - destruct (nth_error (fst v) i) as [f|] eqn:Ei; [|apply nth_error_None in Ei; lia].
      destruct (F2_nth_l _ _ _ H2 i f Ei) as (a & Ea & Ra).
      rewrite (lgetinfo_nth _ _ _ Ea).
      split; [|cbn [fst]; rewrite app_length; cbn; lia].
      repeat split; cbn [fst snd]; auto.
      apply Forall2_app; auto.
    - split; [|cbn [fst]; rewrite app_length; cbn; lia].
      repeat split; cbn [fst snd]; auto.
      + apply Forall_app. split; auto.
      + apply Forall2_app.
        * eapply F2_impl; [|exact H2]. intros f a. apply rel_l_ext.
        * constructor; [|constructor]. apply rel_l_unit; auto. apply nth_error_snoc_eq.
  Qed.

  Theorem lhinv_run : forall ops v t, lhinv v t -> lops_ok (length (fst v)) ops ->
    lhinv (lrun ROps ops v) (ltrun ops t).
  Proof.
    induction ops as [|p ops IH]; intros v t H Ho; [exact H|].
    destruct Ho as [Hp Ho]. destruct (lhinv_step p v t H Hp) as [H' L'].
    cbn [lrun ltrun fold_left]. apply IH; auto. rewrite L'. exact Ho.
  Qed.

  Lemma lhinv_bases bs : Forall good_l bs -> lhinv (bs, []) (ltbases bs).
  Proof.
    intros Hb. unfold lhinv, ltbases. cbn [fst snd]. repeat split; auto.
    apply F2_of_nth.
    - rewrite map_length, seq_length. reflexivity.
    - intros i f a Hf Ha. pose proof (nth_error_lt _ _ _ Hf) as Li.
      assert (E : nth_error (map (fun k => mkInfo (unitv k) [k]) (seq 0 (length bs))) i
                  = Some (mkInfo (unitv i) [i])).
      { erewrite map_nth_error; [reflexivity|].
        rewrite (nth_error_nth' _ 0%nat) by (rewrite seq_length; auto).
        rewrite seq_nth by auto. reflexivity. }
      rewrite E in Ha. injection Ha as <-. apply rel_l_unit; auto.
      rewrite Forall_forall in Hb. apply Hb. eapply nth_error_In; eauto.
  Qed.

  Definition lnews (ops : list lopR) : list pwlR :=
    flat_map (fun p => match p with LNew xs y1s y2s => [(xs, y1s, y2s)] | _ => [] end) ops.

  Lemma ltrun_bases : forall ops t, fst (ltrun ops t) = fst t ++ lnews ops.
  Proof.
    induction ops as [|p ops IH]; intros t; [cbn; rewrite app_nil_r; reflexivity|].
    cbn [ltrun fold_left]. change (fst (ltrun ops (ltstep p t)) = fst t ++ lnews (p :: ops)).
    rewrite IH. destruct p; cbn [ltstep fst lnews flat_map app]; auto.
    rewrite <- app_assoc. reflexivity.
  Qed.

  Theorem history_wf_pwl : forall bs ops, Forall good_l bs -> lops_ok (length bs) ops ->
    let v := lrun ROps ops (bs, []) in
    snd v = [] /\
    Forall (fun f => wf_pwl f /\ nthF ROps (fst (fst f)) 0 = x0 /\ lastF ROps (fst (fst f)) = xn)
           (fst v).
  Proof.
    intros bs ops Hb Ho v.
    destruct (lhinv_run ops (bs, []) (ltbases bs) (lhinv_bases bs Hb) Ho) as (He & _ & H2).
    split; auto. eapply F2_Forall_l; [|exact H2]. intros f a Hr. apply Hr.
  Qed.

  (* right limits on [x0, xn), left limits on (x0, xn] (no exceptional points),
     integral, breakpoints *)
  Theorem history_pointwise_pwl : forall bs ops, Forall good_l bs -> lops_ok (length bs) ops ->
    let v := lrun ROps ops (bs, []) in
    let tr := ltrun ops (ltbases bs) in
    let B := bs ++ lnews ops in
    length (snd tr) = length (fst v) /\
    forall k f, nth_error (fst v) k = Some f ->
      exists inf, nth_error (snd tr) k = Some inf /\
        (length (coef inf) <= length B)%nat /\
        (forall t, x0 <= t < xn ->
           pwl_right ROps (fst (fst f)) (snd (fst f)) (snd f) t
           = Some (dot (coef inf) (map (rlim t) B))) /\
        (forall t, x0 < t <= xn ->
           pwl_left ROps (fst (fst f)) (snd (fst f)) (snd f) t
           = Some (dot (coef inf) (map (llim t) B))) /\
        pwl_int_all ROps (fst (fst f)) (snd (fst f)) (snd f) = dot (coef inf) (map intof_l B) /\
        Forall (fun i => (i < length B)%nat) (srcs inf) /\
        fst (fst f) = sort_unique ROps (bps_l B (srcs inf)).
  Proof.
    intros bs ops Hb Ho v tr B.
    destruct (lhinv_run ops (bs, []) (ltbases bs) (lhinv_bases bs Hb) Ho) as (He & _ & H2).
    fold v tr in H2. assert (EB : fst tr = B) by (unfold tr; rewrite ltrun_bases; reflexivity).
    rewrite EB in H2. split; [symmetry; eapply F2_length; eauto|].
    intros k f Hk.
    destruct (F2_nth_l _ _ _ H2 k f Hk) as (a & Ea & _ & R2 & R3 & R4 & R5 & R6 & R7).
    exists a. repeat split; auto.
  Qed.

  (* the limits of the base functions exist, so [rlim]/[llim] are their values *)
  Lemma rlim_value b t : good_l b -> x0 <= t < xn -> rlim_of b t = Some (rlim t b).
  Proof.
    intros (W & F0 & FL) Ht. unfold rlim, rlim_of. destruct b as [[xs y1] y2].
    unfold xs_of in *. cbn [fst snd] in *.
    destruct (pwl_right_some xs y1 y2 t W) as [v ->]; [rewrite F0, FL; auto|reflexivity].
  Qed.
  Lemma llim_value b t : good_l b -> x0 < t <= xn -> llim_of b t = Some (llim t b).
  Proof.
    intros (W & F0 & FL) Ht. unfold llim, llim_of. destruct b as [[xs y1] y2].
    unfold xs_of in *. cbn [fst snd] in *.
    destruct (pwl_left_some xs y1 y2 t W) as [v ->]; [rewrite F0, FL; auto|reflexivity].
  Qed.

End PwlHistory.

(* ------------------------------------------------------------------ *)
(* a small check of the symbolic trace (same history as HeapTests.ops1 in
   Heap.v, whose Q evaluation gives object 0 = 3*(f0+f1), object 1 = f1+f1,
   object 2 = 2*f0) *)
Example trace_example : forall f0x f0y f1x f1y : list R,
  let ops := [ONew f0x f0y; ONew f1x f1y; OCopy 0; OAdd 0 1; OMul 0 3; OMul 2 2; OAdd 1 1] in
  let tr := trun ops tempty in
  fst tr = [(f0x, f0y); (f1x, f1y)] /\
  map srcs (snd tr) = [[0; 1]; [1; 1]; [0]]%nat /\
  map coef (snd tr) = [[3; 3]; [0; 2]; [2]].
Proof.
  intros. cbn. repeat split.
  repeat (apply f_equal2; [repeat (apply f_equal2; [try lra|]); try reflexivity|]); reflexivity.
Qed.

(* ------------------------------------------------------------------ *)
(* C09 on the heap model: the history theorems transported along [refines] *)
Corollary history_heap : forall x0 xn ops, ops_ok x0 xn 0 ops ->
  let s := run ROps ops empty_state in
  let tr := trun ops tempty in
  let B := news ops in
  st_errs s = [] /\
  forall k f, denote s k = Some f ->
    (wf_pwc f /\ nthF ROps (fst f) 0 = x0 /\ lastF ROps (fst f) = xn) /\
    exists inf, nth_error (snd tr) k = Some inf /\
      (forall t, x0 < t < xn -> generic B t ->
         pwc_at ROps (fst f) (snd f) t = Some (dot (coef inf) (map (valat t) B))) /\
      pwc_int_all ROps (fst f) (snd f) = dot (coef inf) (map intof B) /\
      fst f = sort_unique ROps (bps B (srcs inf)).
Proof.
  intros x0 xn ops Ho s tr B.
  destruct (history_wf x0 xn [] ops (Forall_nil _) Ho) as [He Hg]. cbv zeta in He, Hg.
  destruct (history_pointwise x0 xn [] ops (Forall_nil _) Ho) as [_ Hp]. cbv zeta in Hp.
  pose proof (history_breakpoints x0 xn [] ops (Forall_nil _) Ho) as Hb. cbv zeta in Hb.
  cbn [app] in Hp, Hb. change (tbases []) with tempty in Hp, Hb.
  split.
  - destruct (refines ROps ops 0%nat) as [_ E]. unfold s. rewrite E. exact He.
  - intros k f Hk. destruct (refines ROps ops k) as [E _]. unfold s in Hk. rewrite E in Hk.
    split.
    + rewrite Forall_forall in Hg. apply Hg. eapply nth_error_In; exact Hk.
    + destruct (Hp k f Hk) as (inf & E1 & _ & P1 & P2).
      destruct (Hb k f Hk) as (inf' & E2 & _ & P3 & _).
      rewrite E1 in E2. injection E2 as <-. exists inf. repeat split; auto.
Qed.

(* ------------------------------------------------------------------ *)
Print Assumptions history_wf.
Print Assumptions history_pointwise.
Print Assumptions history_breakpoints.
Print Assumptions inv_run.
Print Assumptions frame_add.
Print Assumptions frame_mul.
Print Assumptions copy_independent.
Print Assumptions refines.
Print Assumptions history_wf_pwl.
Print Assumptions history_pointwise_pwl.
Print Assumptions history_heap.
