(* Lem_History.v — C09: histories of add / mul_scalar / copy / constructor
   operations on piecewise functions.
   Part A: list helpers.
   Part B: heap level (Heap.v): state invariant, frame lemmas, copies are
           independent, the heap model refines the value-level model.
   Part C: value-level histories of piecewise-constant functions: every
           reachable object is a well-formed linear combination of the base
           functions (values, integral, breakpoints).
   Part D: the same for piecewise-linear functions. *)

From Coq Require Import List Bool Arith ZArith Reals Lra Lia Sorted Permutation.
Import ListNotations.
From PS Require Import Num RLemmas Valid ModelKernels ModelFuncs ModelAPI Spec SyncDefs.
From PS Require Import Lem_Pwc Heap.
Local Open Scope R_scope.

(* ================================================================== *)
(* Part A: list helpers                                                 *)

Lemma upd_length {A} (l : list A) : forall i a, length (upd l i a) = length l.
Proof. induction l as [|b l IH]; intros [|i] a; cbn; auto. Qed.

Lemma nth_error_upd_eq {A} (l : list A) : forall i a, (i < length l)%nat ->
  nth_error (upd l i a) i = Some a.
Proof.
  induction l as [|b l IH]; intros [|i] a H; cbn in *; try lia; auto. apply IH. lia.
Qed.

Lemma nth_error_upd_neq {A} (l : list A) : forall i k a, k <> i ->
  nth_error (upd l i a) k = nth_error l k.
Proof.
  induction l as [|b l IH]; intros [|i] [|k] a H; cbn; auto; try congruence.
Qed.

Lemma nth_error_upd_inv {A} (l : list A) i k a b : nth_error (upd l i a) k = Some b ->
  (k = i /\ b = a /\ (i < length l)%nat) \/ (k <> i /\ nth_error l k = Some b).
Proof.
  intros H. destruct (Nat.eq_dec k i) as [->|N].
  - left. assert (L : (i < length l)%nat).
    { rewrite <- (upd_length l i a). apply nth_error_Some. congruence. }
    rewrite nth_error_upd_eq in H by auto. split; auto. split; congruence.
  - right. rewrite nth_error_upd_neq in H by auto. auto.
Qed.

Lemma nth_error_snoc_eq {A} (l : list A) a : nth_error (l ++ [a]) (length l) = Some a.
Proof. rewrite nth_error_app2 by lia. rewrite Nat.sub_diag. reflexivity. Qed.

Lemma nth_error_snoc_inv {A} (l : list A) a k b : nth_error (l ++ [a]) k = Some b ->
  ((k < length l)%nat /\ nth_error l k = Some b) \/ (k = length l /\ b = a).
Proof.
  intros H. destruct (Nat.lt_ge_cases k (length l)) as [L|L].
  - left. rewrite nth_error_app1 in H by auto. auto.
  - right. rewrite nth_error_app2 in H by auto.
    destruct (k - length l)%nat as [|m] eqn:E.
    + cbn in H. split; [lia|congruence].
    + cbn in H. destruct m; discriminate.
Qed.

Lemma nth_error_lt {A} (l : list A) k a : nth_error l k = Some a -> (k < length l)%nat.
Proof. intros H. apply nth_error_Some. congruence. Qed.

(* ================================================================== *)
(* Part B: heap level.  Nothing here depends on the number type.        *)

Section HeapLevel.
  Context {F : Type} (o : NumOps F).

  Local Notation state := (@state F).
  Local Notation store := (@store F).
  Local Notation op := (@op F).
  Implicit Types (s : state) (st : store) (v : @vstate F) (p : op).

  (* ---- store lemmas ---- *)

  Lemma sread_lt (st : store) r a : sread st r = Some a -> (r < length st)%nat.
  Proof.
    unfold sread. intros H. apply nth_error_Some. intros E. rewrite E in H. discriminate.
  Qed.

  Lemma sread_app (st e : store) r a : sread st r = Some a -> sread (st ++ e) r = Some a.
  Proof.
    intros H. pose proof (sread_lt _ _ _ H) as L. unfold sread in *.
    rewrite nth_error_app1 by auto. exact H.
  Qed.

  Lemma sread_snoc_new (st : store) a : sread (st ++ [Some a]) (length st) = Some a.
  Proof. unfold sread. rewrite nth_error_snoc_eq. reflexivity. Qed.

  Lemma sread_app_lt (st e : store) r : (r < length st)%nat -> sread (st ++ e) r = sread st r.
  Proof. intros L. unfold sread. rewrite nth_error_app1 by auto. reflexivity. Qed.

  Lemma sread_swrite_eq (st : store) r a : (r < length st)%nat -> sread (swrite st r a) r = Some a.
  Proof. intros L. unfold sread, swrite. rewrite nth_error_upd_eq by auto. reflexivity. Qed.

  Lemma sread_swrite_neq (st : store) r r' a : r' <> r -> sread (swrite st r a) r' = sread st r'.
  Proof. intros N. unfold sread, swrite. rewrite nth_error_upd_neq by auto. reflexivity. Qed.

  Lemma alloc2_eq (st : store) xs ys :
    alloc2 st xs ys = ((st ++ [Some xs]) ++ [Some ys], mkObj (length st) (S (length st))).
  Proof. unfold alloc2, alloc. rewrite app_length. cbn [length]. rewrite Nat.add_1_r. reflexivity. Qed.

  (* ---- the state invariant ---- *)

  Definition valid_ref (st : store) (r : nat) : Prop := exists a, sread st r = Some a.
  Definition valid_obj (st : store) (ob : obj) : Prop :=
    valid_ref st (rx ob) /\ valid_ref st (ry ob) /\ rx ob <> ry ob.
  (* no array is shared by the two objects *)
  Definition disj (a b : obj) : Prop :=
    rx a <> rx b /\ rx a <> ry b /\ ry a <> rx b /\ ry a <> ry b.

  Definition inv (s : state) : Prop :=
    (forall k ob, nth_error (st_objs s) k = Some ob -> valid_obj (st_store s) ob) /\
    (forall k1 k2 a b, k1 <> k2 -> nth_error (st_objs s) k1 = Some a ->
                       nth_error (st_objs s) k2 = Some b -> disj a b).

  Lemma valid_ref_lt st r : valid_ref st r -> (r < length st)%nat.
  Proof. intros [a H]. eapply sread_lt; eauto. Qed.
  Lemma valid_ref_app st e r : valid_ref st r -> valid_ref (st ++ e) r.
  Proof. intros [a H]. exists a. apply sread_app; auto. Qed.
  Lemma valid_obj_app st e ob : valid_obj st ob -> valid_obj (st ++ e) ob.
  Proof. intros (H1 & H2 & H3). repeat split; auto using valid_ref_app. Qed.

  Lemma read_obj_app st e ob : valid_obj st ob -> read_obj (st ++ e) ob = read_obj st ob.
  Proof.
    intros (H1 & H2 & _). unfold read_obj.
    rewrite !sread_app_lt by (apply valid_ref_lt; auto). reflexivity.
  Qed.

  Lemma valid_obj_fresh (st : store) xs ys :
    valid_obj ((st ++ [Some xs]) ++ [Some ys]) (mkObj (length st) (S (length st))).
  Proof.
    repeat split; cbn [rx ry]; try lia.
    - exists xs. apply sread_app, sread_snoc_new.
    - exists ys. replace (S (length st)) with (length (st ++ [Some xs])).
      + apply sread_snoc_new.
      + rewrite app_length. cbn. lia.
  Qed.

  Lemma read_obj_fresh (st : store) xs ys :
    read_obj ((st ++ [Some xs]) ++ [Some ys]) (mkObj (length st) (S (length st))) = Some (xs, ys).
  Proof.
    unfold read_obj. cbn [rx ry].
    rewrite (sread_app _ [Some ys] _ _ (sread_snoc_new st xs)).
    replace (S (length st)) with (length (st ++ [Some xs])) by (rewrite app_length; cbn; lia).
    rewrite sread_snoc_new. reflexivity.
  Qed.

  Lemma disj_fresh st ob : valid_obj st ob -> disj ob (mkObj (length st) (S (length st))).
  Proof.
    intros (H1 & H2 & _). apply valid_ref_lt in H1, H2. unfold disj. cbn [rx ry]. lia.
  Qed.
  Lemma disj_sym a b : disj a b -> disj b a.
  Proof. unfold disj. intuition. Qed.

  Theorem inv_init : inv empty_state.
  Proof.
    split.
    - intros k ob H. destruct k; discriminate.
    - intros k1 k2 a b _ H. destruct k1; discriminate.
  Qed.

  Lemma inv_fail s e : inv s -> inv (fail s e).
  Proof. intros H. exact H. Qed.

  Lemma inv_new_obj s xs ys : inv s -> inv (new_obj s xs ys).
  Proof.
    intros [V D]. unfold new_obj. rewrite alloc2_eq. split; cbn [st_store st_objs].
    - intros k ob H. apply nth_error_snoc_inv in H as [[_ H]|[_ ->]].
      + rewrite <- app_assoc. apply valid_obj_app. eauto.
      + apply valid_obj_fresh.
    - intros k1 k2 a b N H1 H2.
      apply nth_error_snoc_inv in H1 as [[L1 H1]|[E1 ->]];
        apply nth_error_snoc_inv in H2 as [[L2 H2]|[E2 ->]].
      + eauto.
      + apply disj_fresh. eauto.
      + apply disj_sym, disj_fresh. eauto.
      + lia.
  Qed.

  Lemma inv_rebind s i xs ys : inv s ->
    inv (mkState ((st_store s ++ [Some xs]) ++ [Some ys])
                 (upd (st_objs s) i (mkObj (length (st_store s)) (S (length (st_store s)))))
                 (st_errs s)).
  Proof.
    intros [V D]. split; cbn [st_store st_objs].
    - intros k ob H. apply nth_error_upd_inv in H as [(_ & -> & _)|(_ & H)].
      + apply valid_obj_fresh.
      + rewrite <- app_assoc. apply valid_obj_app. eauto.
    - intros k1 k2 a b N H1 H2.
      apply nth_error_upd_inv in H1 as [(E1 & -> & _)|(N1 & H1)];
        apply nth_error_upd_inv in H2 as [(E2 & -> & _)|(N2 & H2)].
      + lia.
      + apply disj_sym, disj_fresh. eauto.
      + apply disj_fresh. eauto.
      + eauto.
  Qed.

  Lemma valid_ref_swrite (st : store) r a r' : (r < length st)%nat ->
    valid_ref st r' -> valid_ref (swrite st r a) r'.
  Proof.
    intros L [b H]. destruct (Nat.eq_dec r' r) as [->|N].
    - exists a. apply sread_swrite_eq; auto.
    - exists b. rewrite sread_swrite_neq; auto.
  Qed.

  Lemma inv_write s r a : inv s -> (r < length (st_store s))%nat ->
    inv (mkState (swrite (st_store s) r a) (st_objs s) (st_errs s)).
  Proof.
    intros [V D] L. split; cbn [st_store st_objs]; [|exact D].
    intros k ob H. destruct (V k ob H) as (H1 & H2 & H3).
    repeat split; auto using valid_ref_swrite.
  Qed.

  Theorem inv_step : forall p s, inv s -> inv (step o p s).
  Proof.
    intros p s I. destruct p as [i j|i c|i|xs ys]; cbn [step].
    - destruct (denote s i) as [f|]; [|apply inv_fail; auto].
      destruct (denote s j) as [g|]; [|apply inv_fail; auto].
      destruct (pwc_add o f g) as [[xs ys]|e]; [|apply inv_fail; auto].
      rewrite alloc2_eq. apply inv_rebind; auto.
    - destruct (nth_error (st_objs s) i) as [ob|]; [|apply inv_fail; auto].
      destruct (sread (st_store s) (ry ob)) as [ys|] eqn:E; [|apply inv_fail; auto].
      apply inv_write; auto. eapply sread_lt; eauto.
    - destruct (denote s i) as [[xs ys]|]; [|apply inv_fail; auto].
      apply inv_new_obj; auto.
    - apply inv_new_obj; auto.
  Qed.

  Theorem inv_run_from : forall ops s, inv s -> inv (run o ops s).
  Proof.
    induction ops as [|p ops IH]; intros s I; [exact I|].
    cbn [run fold_left]. apply IH. apply inv_step; auto.
  Qed.

  Theorem inv_run : forall ops, inv (run o ops empty_state).
  Proof. intros ops. apply inv_run_from, inv_init. Qed.

  (* ---- frame lemmas ---- *)

  Lemma denote_fail s e k : denote (fail s e) k = denote s k.
  Proof. reflexivity. Qed.

  (* under the invariant an existing object denotes something *)
  Lemma denote_some s k ob : inv s -> nth_error (st_objs s) k = Some ob ->
    exists xs ys, sread (st_store s) (rx ob) = Some xs /\ sread (st_store s) (ry ob) = Some ys /\
                  denote s k = Some (xs, ys).
  Proof.
    intros [V _] H. destruct (V k ob H) as ([xs Hx] & [ys Hy] & _).
    exists xs, ys. repeat split; auto. unfold denote, read_obj. rewrite H, Hx, Hy. reflexivity.
  Qed.

  Lemma denote_lt s k f : denote s k = Some f -> (k < length (st_objs s))%nat.
  Proof.
    unfold denote. destruct (nth_error (st_objs s) k) eqn:E; [|discriminate].
    intros _. eapply nth_error_lt; eauto.
  Qed.

  Lemma denote_rebind_other s i k xs ys : inv s -> k <> i ->
    denote (mkState ((st_store s ++ [Some xs]) ++ [Some ys])
                    (upd (st_objs s) i (mkObj (length (st_store s)) (S (length (st_store s)))))
                    (st_errs s)) k = denote s k.
  Proof.
    intros [V _] N. unfold denote. cbn [st_store st_objs].
    rewrite nth_error_upd_neq by auto.
    destruct (nth_error (st_objs s) k) as [ob|] eqn:E; [|reflexivity].
    rewrite <- app_assoc. apply read_obj_app. eauto.
  Qed.

  Lemma denote_rebind_self s i xs ys : (i < length (st_objs s))%nat ->
    denote (mkState ((st_store s ++ [Some xs]) ++ [Some ys])
                    (upd (st_objs s) i (mkObj (length (st_store s)) (S (length (st_store s)))))
                    (st_errs s)) i = Some (xs, ys).
  Proof.
    intros L. unfold denote. cbn [st_store st_objs].
    rewrite nth_error_upd_eq by auto. apply read_obj_fresh.
  Qed.

  Lemma denote_new_obj_old s xs ys k : inv s -> (k < length (st_objs s))%nat ->
    denote (new_obj s xs ys) k = denote s k.
  Proof.
    intros [V _] L. unfold new_obj. rewrite alloc2_eq. unfold denote. cbn [st_store st_objs].
    rewrite nth_error_app1 by auto.
    destruct (nth_error (st_objs s) k) as [ob|] eqn:E; [|reflexivity].
    rewrite <- app_assoc. apply read_obj_app. eauto.
  Qed.

  Lemma denote_new_obj_new s xs ys :
    denote (new_obj s xs ys) (length (st_objs s)) = Some (xs, ys).
  Proof.
    unfold new_obj. rewrite alloc2_eq. unfold denote. cbn [st_store st_objs].
    rewrite nth_error_snoc_eq. apply read_obj_fresh.
  Qed.

  (* add: only the receiver changes; in particular the added operand j
     (whether or not i = j) and every other object keep their denotation *)
  Theorem frame_add : forall s i j k, inv s -> k <> i ->
    denote (step o (OAdd i j) s) k = denote s k.
  Proof.
    intros s i j k I N. cbn [step].
    destruct (denote s i) as [f|]; [|reflexivity].
    destruct (denote s j) as [g|]; [|reflexivity].
    destruct (pwc_add o f g) as [[xs ys]|e]; [|reflexivity].
    rewrite alloc2_eq. apply denote_rebind_other; auto.
  Qed.

  Corollary frame_add_operand : forall s i j, inv s -> i <> j ->
    denote (step o (OAdd i j) s) j = denote s j.
  Proof. intros. apply frame_add; auto. Qed.

  (* mul_scalar writes in place; disjointness makes the write invisible
     through every other object *)
  Theorem frame_mul : forall s i c k, inv s -> k <> i ->
    denote (step o (OMul i c) s) k = denote s k.
  Proof.
    intros s i c k [V D] N. cbn [step].
    destruct (nth_error (st_objs s) i) as [ob|] eqn:Ei; [|reflexivity].
    destruct (sread (st_store s) (ry ob)) as [ys|] eqn:Ey; [|reflexivity].
    unfold denote. cbn [st_store st_objs].
    destruct (nth_error (st_objs s) k) as [b|] eqn:Ek; [|reflexivity].
    destruct (D k i b ob N Ek Ei) as (_ & D2 & _ & D4).
    unfold read_obj. rewrite !sread_swrite_neq by auto. reflexivity.
  Qed.

  Lemma frame_copy : forall s i k, inv s -> (k < length (st_objs s))%nat ->
    denote (step o (OCopy i) s) k = denote s k.
  Proof.
    intros s i k I L. cbn [step]. destruct (denote s i) as [[xs ys]|]; [|reflexivity].
    apply denote_new_obj_old; auto.
  Qed.

  Lemma frame_new : forall s xs ys k, inv s -> (k < length (st_objs s))%nat ->
    denote (step o (ONew xs ys) s) k = denote s k.
  Proof. intros. cbn [step]. apply denote_new_obj_old; auto. Qed.

  Theorem frame_step : forall p s k, inv s -> (k < length (st_objs s))%nat ->
    op_target p <> Some k -> denote (step o p s) k = denote s k.
  Proof.
    intros p s k I L T. destruct p as [i j|i c|i|xs ys]; cbn [op_target] in T.
    - apply frame_add; auto; congruence.
    - apply frame_mul; auto; congruence.
    - apply frame_copy; auto.
    - apply frame_new; auto.
  Qed.

  Lemma length_new_obj s xs ys : length (st_objs (new_obj s xs ys)) = S (length (st_objs s)).
  Proof.
    unfold new_obj. rewrite alloc2_eq. cbn [st_objs]. rewrite app_length. cbn. lia.
  Qed.

  Lemma step_objs_mono p s : (length (st_objs s) <= length (st_objs (step o p s)))%nat.
  Proof.
    destruct p as [i j|i c|i|xs ys]; cbn [step].
    - destruct (denote s i) as [f|]; [|cbn; lia].
      destruct (denote s j) as [g|]; [|cbn; lia].
      destruct (pwc_add o f g) as [[xs ys]|e]; [|cbn; lia].
      rewrite alloc2_eq. cbn [st_objs]. rewrite upd_length. lia.
    - destruct (nth_error (st_objs s) i) as [ob|]; [|cbn; lia].
      destruct (sread (st_store s) (ry ob)); cbn; lia.
    - destruct (denote s i) as [[xs ys]|]; [|cbn; lia]. rewrite length_new_obj. lia.
    - rewrite length_new_obj. lia.
  Qed.

  (* no operation of the sequence has object n as its receiver *)
  Definition no_target (n : nat) (ops : list op) : Prop :=
    Forall (fun p => op_target p <> Some n) ops.

  Theorem frame_run : forall ops s n, inv s -> (n < length (st_objs s))%nat ->
    no_target n ops -> denote (run o ops s) n = denote s n.
  Proof.
    induction ops as [|p ops IH]; intros s n I L T; [reflexivity|].
    inversion T as [|? ? Tp Tr]; subst. cbn [run fold_left].
    change (denote (run o ops (step o p s)) n = denote s n).
    rewrite IH; auto.
    - apply frame_step; auto.
    - apply inv_step; auto.
    - pose proof (step_objs_mono p s). lia.
  Qed.

  (* copy() yields a new object n with the same denotation; afterwards any
     operation sequence that does not use n as receiver leaves n unchanged,
     and any sequence that does not use i as receiver (it may well modify the
     copy n) leaves the original i unchanged *)
  Theorem copy_independent : forall s i f, inv s -> denote s i = Some f ->
    let n := length (st_objs s) in
    let s' := step o (OCopy i) s in
    n <> i /\ denote s' n = Some f /\ denote s' i = Some f /\
    (forall ops, no_target n ops -> denote (run o ops s') n = Some f) /\
    (forall ops, no_target i ops -> denote (run o ops s') i = Some f).
  Proof.
    intros s i f I Hi n s'.
    pose proof (denote_lt _ _ _ Hi) as Li.
    assert (I' : inv s') by (apply inv_step; auto).
    assert (L' : length (st_objs s') = S n).
    { unfold s'. cbn [step]. rewrite Hi. destruct f as [xs ys]. apply length_new_obj. }
    assert (Hn : denote s' n = Some f).
    { unfold s'. cbn [step]. rewrite Hi. destruct f as [xs ys]. apply denote_new_obj_new. }
    assert (Hi' : denote s' i = Some f).
    { unfold s'. rewrite frame_copy; auto. }
    repeat split; auto.
    - unfold n. lia.
    - intros ops T. rewrite frame_run; auto. lia.
    - intros ops T. rewrite frame_run; auto. lia.
  Qed.

  (* ---- the heap model refines the value-level model ---- *)

  Definition abs_rel (s : state) (v : @vstate F) : Prop :=
    length (st_objs s) = length (fst v) /\
    (forall k, denote s k = nth_error (fst v) k) /\
    st_errs s = snd v.

  Lemma abs_rel_fail s v e : abs_rel s v -> abs_rel (fail s e) (vfail v e).
  Proof.
    intros (H1 & H2 & H3). repeat split; auto. cbn. rewrite H3. reflexivity.
  Qed.

  Lemma abs_rel_new s v xs ys : inv s -> abs_rel s v ->
    abs_rel (new_obj s xs ys) (fst v ++ [(xs, ys)], snd v).
  Proof.
    intros I (H1 & H2 & H3). repeat split; cbn [fst snd].
    - rewrite length_new_obj, app_length. cbn. lia.
    - intros k. destruct (Nat.lt_ge_cases k (length (st_objs s))) as [L|L].
      + rewrite denote_new_obj_old by auto. rewrite nth_error_app1 by lia. apply H2.
      + destruct (Nat.eq_dec k (length (st_objs s))) as [->|N].
        * rewrite denote_new_obj_new. rewrite H1, nth_error_snoc_eq. reflexivity.
        * assert (E : nth_error (fst v ++ [(xs, ys)]) k = None).
          { apply nth_error_None. rewrite app_length. cbn. lia. }
          rewrite E. unfold denote.
          assert (E' : nth_error (st_objs (new_obj s xs ys)) k = None).
          { apply nth_error_None. rewrite length_new_obj. lia. }
          rewrite E'. reflexivity.
    - unfold new_obj. rewrite alloc2_eq. exact H3.
  Qed.

  Theorem refines_step : forall p s v, inv s -> abs_rel s v ->
    abs_rel (step o p s) (vstep o p v).
  Proof.
    intros p s v I R. pose proof R as (H1 & H2 & H3).
    destruct p as [i j|i c|i|xs ys]; cbn [step vstep].
    - rewrite <- !H2.
      destruct (denote s i) as [f|] eqn:Ei; [|apply abs_rel_fail; auto].
      destruct (denote s j) as [g|] eqn:Ej; [|apply abs_rel_fail; auto].
      destruct (pwc_add o f g) as [[xs ys]|e]; [|apply abs_rel_fail; auto].
      rewrite alloc2_eq. pose proof (denote_lt _ _ _ Ei) as Li.
      repeat split; cbn [fst snd st_objs st_errs]; auto.
      + rewrite !upd_length. auto.
      + intros k. destruct (Nat.eq_dec k i) as [->|N].
        * rewrite denote_rebind_self by auto. rewrite nth_error_upd_eq by lia. reflexivity.
        * rewrite denote_rebind_other by auto. rewrite nth_error_upd_neq by auto. apply H2.
    - rewrite <- H2.
      destruct (nth_error (st_objs s) i) as [ob|] eqn:Ei.
      + destruct (denote_some s i ob I Ei) as (xs & ys & Hx & Hy & Hd).
        rewrite Hy, Hd. destruct I as [V D]. destruct (V i ob Ei) as (_ & _ & Nxy).
        pose proof (sread_lt _ _ _ Hy) as Ly. pose proof (nth_error_lt _ _ _ Ei) as Li.
        repeat split; cbn [fst snd st_objs st_errs]; auto.
        * rewrite upd_length. auto.
        * intros k. destruct (Nat.eq_dec k i) as [->|N].
          -- rewrite nth_error_upd_eq by lia. unfold denote. cbn [st_store st_objs].
             rewrite Ei. unfold read_obj. rewrite sread_swrite_eq by auto.
             rewrite sread_swrite_neq by auto. rewrite Hx. reflexivity.
          -- rewrite nth_error_upd_neq by auto. rewrite <- H2.
             pose proof (frame_mul s i c k (conj V D) N) as Fm. cbn [step] in Fm.
             rewrite Ei, Hy in Fm. exact Fm.
      + assert (E : denote s i = None) by (unfold denote; rewrite Ei; reflexivity).
        rewrite E. apply abs_rel_fail; auto.
    - rewrite <- H2. destruct (denote s i) as [[xs ys]|]; [|apply abs_rel_fail; auto].
      apply abs_rel_new; auto.
    - apply abs_rel_new; auto.
  Qed.

  Theorem refines_from : forall ops s v, inv s -> abs_rel s v ->
    abs_rel (run o ops s) (vrun o ops v).
  Proof.
    induction ops as [|p ops IH]; intros s v I R; [exact R|].
    cbn [run vrun fold_left]. apply IH; [apply inv_step; auto|apply refines_step; auto].
  Qed.

  Theorem refines : forall ops k,
    denote (run o ops empty_state) k = nth_error (fst (vrun o ops vempty)) k /\
    st_errs (run o ops empty_state) = snd (vrun o ops vempty).
  Proof.
    intros ops k.
    assert (R : abs_rel (@empty_state F) vempty).
    { repeat split; auto. intros [|n]; reflexivity. }
    destruct (refines_from ops _ _ inv_init R) as (_ & H2 & H3). auto.
  Qed.

End HeapLevel.

(* ================================================================== *)
(* Part C: value-level histories of piecewise-constant functions (R)    *)

(* ---- coefficient vectors (shorter vectors are implicitly 0-padded) ---- *)

Fixpoint vadd (u v : list R) : list R :=
  match u, v with
  | [], _ => v
  | _, [] => u
  | a :: u', b :: v' => (a + b) :: vadd u' v'
  end.
Definition vscale (c : R) (u : list R) : list R := map (fun a => a * c) u.
Fixpoint dot (u w : list R) : R :=
  match u, w with
  | a :: u', b :: w' => a * b + dot u' w'
  | _, _ => 0
  end.
Definition unitv (n : nat) : list R := repeat 0 n ++ [1].

Lemma dot_nil_r u : dot u [] = 0.
Proof. destruct u; reflexivity. Qed.

Lemma dot_vadd : forall u v w, dot (vadd u v) w = dot u w + dot v w.
Proof.
  induction u as [|a u IH]; intros v w; cbn [vadd dot]; [lra|].
  destruct v as [|b v]; [cbn [dot]; destruct w; lra|].
  destruct w as [|c w]; cbn [dot]; [lra|]. rewrite IH. ring.
Qed.

Lemma dot_vscale c : forall u w, dot (vscale c u) w = dot u w * c.
Proof.
  induction u as [|a u IH]; intros w; cbn [vscale map dot]; [lra|].
  destruct w as [|b w]; [lra|]. fold (vscale c u). rewrite IH. ring.
Qed.

Lemma dot_app_short : forall u w w', (length u <= length w)%nat -> dot u (w ++ w') = dot u w.
Proof.
  induction u as [|a u IH]; intros w w' H; [reflexivity|].
  destruct w as [|b w]; [cbn in H; lia|]. cbn [app dot]. rewrite IH; [reflexivity|cbn in H; lia].
Qed.

Lemma dot_unitv : forall k w, dot (unitv k) w = nth k w 0.
Proof.
  unfold unitv. induction k as [|k IH]; intros w; cbn [repeat app dot].
  - destruct w as [|b w]; cbn; [lra|]. rewrite dot_nil_l_aux. lra.
  - destruct w as [|b w]; cbn [nth]; [reflexivity|]. rewrite IH. lra.
Qed.
